// C05 driver: register allocation preserves the meaning of Compiler programs.
//
// Harness code (not part of asmjit). Generates random / systematically enumerated well-defined programs in a small
// IR, interprets them over unbounded virtual registers (reference), emits the same program through x86::Compiler
// exactly as a user would, runs the JIT-compiled function natively (x86-64) in a forked child on >= 16 inputs and
// compares return value, final argument buffer and the logged helper-call sequence with the interpreter.
// x86-32 and AArch64 programs are compiled only (register allocator runs under ASan/UBSan); their code bytes are
// handed to the Python side for decode / structural checks.
#include "vcommon.h"

#include <asmjit/x86.h>
#include <asmjit/a64.h>

#include <signal.h>
#include <ucontext.h>
#include <errno.h>
#include <sys/mman.h>
#include <sys/time.h>
#include <sys/wait.h>
#include <unistd.h>
#include <bitset>
#include <algorithm>
#include <functional>
#include <memory>
#include <stdarg.h>
#include <immintrin.h>

using namespace asmjit;

typedef uint64_t u64;
typedef int64_t i64;
typedef uint32_t u32;
typedef int32_t i32;
typedef uint16_t u16;
typedef uint8_t u8;
typedef unsigned __int128 u128;
typedef __int128 i128;

#define NOSAN __attribute__((no_sanitize("address", "undefined")))

// ---------------------------------------------------------------------------------------------------------------
// IR
// ---------------------------------------------------------------------------------------------------------------

enum : u8 { KIND_G = 0, KIND_V = 1, KIND_D = 2, KIND_K = 3 };

struct ValDef {
  u8 kind = 0;    // KIND_*
  u8 size = 0;    // bytes: G 1/2/4/8, V 16/32/64, D 8, K 1/2/4/8
  u8 local = 0;   // block-local temporary (defined and used inside one block)
  u8 dumped = 0;  // stored to the dump area in the final block (observable)
  u8 sgn = 0;     // GP virtual register created with a signed type id (matters only when a narrower signed parameter is bound to it)
  u8 half = 0;    // 128-bit vector register bound to a double parameter: only the low 8 bytes are ever defined/used
  u8 ptr = 0;     // AArch64: 64-bit temporary whose REGISTER holds buffer address + value (base of write-back addressing); the IR value is the offset
};

enum : u8 { S_NONE = 0, S_REG = 1, S_IMM = 2, S_MEM = 3 };
enum : u8 { M_BUF = 0, M_STK = 1, M_CONST = 2 };

struct MemRef {
  u8 space = M_BUF;
  u8 shift = 0;
  int idx = -1;   // index value (bounded by the generator), -1 = none
  int off = 0;    // byte offset (M_CONST: seed of the constant)
};

struct Src {
  u8 t = S_NONE;
  int v = -1;
  i64 imm = 0;
  MemRef m;
};

static Src SR(int v) { Src s; s.t = S_REG; s.v = v; return s; }
static Src SI(i64 imm) { Src s; s.t = S_IMM; s.imm = imm; return s; }
static Src SM(const MemRef& m) { Src s; s.t = S_MEM; s.m = m; return s; }

enum : u16 {
  O_NOP = 0,
  // general purpose
  O_MOV, O_STORE, O_ALU, O_ALUM, O_ADC2, O_UN, O_UNM, O_SHI, O_SHC, O_IMUL2, O_IMUL3, O_MUL1, O_DIV, O_CMPXCHG,
  O_XCHG, O_XCHGM, O_XADD, O_LEA, O_SETCC, O_CMOV, O_MOVX, O_BITCNT, O_HI8, O_BT,
  // vectors
  O_VMOV, O_VSTORE, O_VALU, O_VSHI, O_VSHUFD, O_VBCAST, O_VEXTR, O_VINS, O_VFROMG, O_VTOG, O_VPINS, O_VPEXT, O_VMSKB,
  O_VTERN, O_VALUK, O_VCMPK, O_VM2V, O_V2M, O_VGATHER,
  // masks
  O_KFROMG, O_KTOG, O_KLOAD, O_KSTORE, O_KMOV, O_KALU, O_KNOT, O_KSHI, O_KSET,
  // scalar double (bit pattern only)
  O_DFROMG, O_DTOG, O_DLOAD, O_DSTORE, O_DMOV,
  // calls
  O_CALL,
  // fixed / implicit register classes beyond the general purpose group (x86)
  O_BLENDV, O_MULX, O_STR, O_CX16, O_LAHF, O_SAHF, O_MASKMOV, O_VROUND,
  // AArch64: structure loads / stores / table lookups over register lists, write-back addressing
  O_ALD, O_AST, O_ATBL, O_AIDX, O_AMULE,
  O__COUNT
};

static const char* const kOpNames[] = {
  "nop",
  "mov", "store", "alu", "alum", "adc2", "un", "unm", "shi", "shc", "imul2", "imul3", "mul1", "div", "cmpxchg",
  "xchg", "xchgm", "xadd", "lea", "setcc", "cmov", "movx", "bitcnt", "hi8", "bt",
  "vmov", "vstore", "valu", "vshi", "vshufd", "vbcast", "vextr", "vins", "vfromg", "vtog", "vpins", "vpext", "vmskb",
  "vtern", "valuk", "vcmpk", "vm2v", "v2m", "vgather",
  "kfromg", "ktog", "kload", "kstore", "kmov", "kalu", "knot", "kshi", "kset",
  "dfromg", "dtog", "dload", "dstore", "dmov",
  "call",
  "blendv", "mulx", "str", "cx16", "lahf", "sahf", "maskmov", "vround",
  "ald", "ast", "atbl", "aidx", "amule"
};

enum : u8 { A_ADD = 0, A_SUB, A_AND, A_OR, A_XOR, A__N };
enum : u8 { U_NEG = 0, U_NOT, U_INC, U_DEC, U_BSWAP, U__N };
enum : u8 { SH_SHL = 0, SH_SHR, SH_SAR, SH_ROL, SH_ROR, SH__N };
enum : u8 { BC_POPCNT = 0, BC_LZCNT, BC_TZCNT };
enum : u8 { CC_E = 0, CC_NE, CC_B, CC_AE, CC_BE, CC_A, CC_L, CC_GE, CC_LE, CC_G, CC_S, CC_NS, CC__N };

// vector ALU sub-operations
enum : u8 {
  VA_PADDB = 0, VA_PADDW, VA_PADDD, VA_PADDQ, VA_PSUBB, VA_PSUBW, VA_PSUBD, VA_PSUBQ, VA_PXOR, VA_PAND, VA_POR, VA_PANDN,
  VA_PMULLD, VA_PMULLW, VA_PMINUD, VA_PMAXSD, VA_PMINUB, VA_PMAXSW, VA_PCMPEQD, VA_PCMPGTD, VA_PCMPEQB, VA_PUNPCKLDQ,
  VA_PUNPCKHQDQ, VA_PSHUFB, VA_PAVGB, VA_PADDUSB, VA__N
};
enum : u8 { VS_PSLLW = 0, VS_PSLLD, VS_PSLLQ, VS_PSRLW, VS_PSRLD, VS_PSRLQ, VS_PSRAW, VS_PSRAD, VS__N };
enum : u8 { KA_AND = 0, KA_OR, KA_XOR, KA_ANDN, KA_XNOR, KA_ADD, KA__N };

struct Op {
  u16 opc = O_NOP;
  u8 sub = 0;
  u8 w = 0;     // operation width (bytes)
  u8 w2 = 0;    // second width (compare width, source width, ...)
  u8 cc = 0;
  u8 flag = 0;  // op specific (zeroing, signed, test-instead-of-cmp, ...)
  int d = -1, d2 = -1, a = -1, b = -1, c = -1;
  Src s, s2;
  i64 imm = 0;
  std::vector<Src> args;  // call arguments
};

enum : u8 { T_FALL = 0, T_JMP, T_BR, T_DEC, T_SWITCH, T_RET };

struct Term {
  u8 kind = T_FALL;
  u8 cc = 0;
  u8 w = 4;
  u8 test = 0;      // T_BR: 1 = test instead of cmp, 2 = branch on register zero / non-zero (x86: jecxz, a64: cbz/cbnz; cc = E/NE), 3 = a64 tbz/tbnz (bit s.imm; cc = E/NE)
                    // T_DEC: 2 = x86 loop instruction (fixed ecx, no flags)
  int a = -1;       // compared value / counter / switch index
  Src s;            // second compare operand
  int target = -1;
  std::vector<int> targets;  // switch
};

struct Block {
  std::vector<Op> ops;
  Term term;
  bool fuel = false;  // block starts with "sub fuel,1 ; js final"
  u8 data_after = 0;  // number of dwords of data embedded (inside the function) right after this block's unconditional terminator
  u8 data_kind = 0;   // 0: dwords that would trap when executed, 1: pseudo-random dwords
};

enum : u8 { MODE_SSE = 0, MODE_AVX = 1, MODE_AVX512 = 2 };
enum : u8 { ARCH_X64 = 0, ARCH_X86 = 1, ARCH_A64 = 2 };

struct Program {
  std::vector<ValDef> vals;
  std::vector<Block> blocks;   // block 0 = entry (never a jump target), last block = final (dump + ret)
  u8 arch = ARCH_X64;
  u8 mode = MODE_SSE;
  u8 sigclass = 0;             // signature class of the generated function
  u8 cconv = 0;                // x86-32: calling convention variant
  int retval = -1;             // returned value (G or D), -1 = void
  int fuel = -1;               // fuel counter value (G4)
  int fuel_init = 40;
  bool tables_inside = false;  // jump tables are embedded inside the function (after the final ret) instead of after end_func()
  bool preserved_fp = false;   // FuncFrame::set_preserved_fp()
  int phys_k = 0;              // physical mask register used by some masked ops (reserved via FuncFrame::add_unavailable_regs)
  std::vector<int> argbind;    // function argument index (after the buffer pointer) -> value or -1
  bool use_stack = false;
  std::string profile;
  std::string shape;
};

static const int DATA_SIZE = 512;       // body loads/stores live in [0, DATA_SIZE)
static const int DUMP_OFF = 512;        // final dump of value i at DUMP_OFF + i*64
static const int MAX_VALS = 320;
static const int BUF_SIZE = DUMP_OFF + MAX_VALS * 64;
static const int STK_SIZE = 128;

static inline u64 maskw(int w) { return w >= 8 ? ~0ull : ((1ull << (8 * w)) - 1); }
static inline i64 sextw(u64 x, int w) {
  switch (w) {
    case 1: return (i64)(int8_t)x;
    case 2: return (i64)(int16_t)x;
    case 4: return (i64)(int32_t)x;
    default: return (i64)x;
  }
}
static inline u64 mix64(u64 z) {
  z += 0x9E3779B97F4A7C15ull;
  z = (z ^ (z >> 30)) * 0xBF58476D1CE4E5B9ull;
  z = (z ^ (z >> 27)) * 0x94D049BB133111EBull;
  return z ^ (z >> 31);
}

static inline u32 embedded_word(int arch, int kind, int block, int i) {
  if (kind == 0) return arch == 2 /* a64: udf #0 */ ? 0u : 0x0B0F0B0Fu /* ud2 ; ud2 */;
  return (u32)mix64((u64)block * 977 + (u64)i * 13 + 5);
}

static void const_data(int seed, u8 out[64]) {
  u64 s = mix64((u64)seed * 0x100000001B3ull + 77);
  for (int i = 0; i < 8; i++) { s = mix64(s + i); memcpy(out + i * 8, &s, 8); }
}

// ---------------------------------------------------------------------------------------------------------------
// Helper callees (C functions called from generated code). Every call is logged.
// ---------------------------------------------------------------------------------------------------------------

static const int MAXARGS = 26;   // up to 14 integer + 12 floating-point arguments
struct CallRec { u32 callee; u32 n; u64 a[MAXARGS]; };

enum : u8 { AK_U8 = 0, AK_U16, AK_U32, AK_U64, AK_F64, AK_I8, AK_I16, AK_I32, AK_I64, AK_V128, AK_F32 };
enum : u8 { RK_VOID = 0, RK_U32, RK_U64, RK_F64, RK_V128 };
enum : u8 { CV_DEFAULT = 0, CV_MS = 1 };   // calling convention of a helper: the target's C convention / Win64 (ms_abi, x86-64 host only)
struct CalleeSig { u8 n; u8 kind[MAXARGS]; u8 ret; u8 conv; u8 va; };   // va: variadic helper f(uint32 id, ...): every listed argument is an unnamed one

static const int NCALLEE_OLD = 24;
static const int NCALLEE = 34;        // helpers every target can call
static const int NCALLEE_ALL = 51;    // + x86-64 only helpers: ms_abi, variadic (SysV and Win64), vector arguments / results, signed stack parameters
static CalleeSig g_sigs[NCALLEE_ALL];

static inline int ak_width(u8 k) { static const u8 w[] = { 1, 2, 4, 8, 8, 1, 2, 4, 8, 16, 4 }; return w[k]; }
static inline bool ak_signed(u8 k) { return k >= AK_I8 && k <= AK_I64; }
static inline bool ak_int(u8 k) { return k != AK_F64 && k != AK_V128 && k != AK_F32; }
static inline int sig_entries(const CalleeSig& s) { int n = 0; for (int k = 0; k < s.n; k++) n += s.kind[k] == AK_V128 ? 2 : 1; return n; }

static CallRec* g_log = nullptr;
static volatile u32* g_logn = nullptr;
static u32 g_logcap = 0;
static bool g_trash_avx512 = false;
static bool g_trash_avx = false;
static bool g_have_bmi2 = false, g_have_sse41 = false, g_have_cx16 = false, g_have_lahf = false;

static void init_callee_sigs() {
  // fixed table (independent of the seed so that witnesses are stable)
  Rng r(0xC05C05);
  for (int i = 0; i < NCALLEE_OLD; i++) {
    CalleeSig& s = g_sigs[i];
    int n;
    if (i == 0) n = 0;
    else if (i < 6) n = i;                 // 1..5 (registers only)
    else if (i < 12) n = 6 + (i - 6);      // 6..11
    else n = (int)r.range(0, 12);
    if (i == 12) n = 12;
    s.n = (u8)n;
    int style = i % 4;  // 0: ints, 1: mixed, 2: doubles, 3: mixed narrow
    for (int k = 0; k < n; k++) {
      u8 kd;
      switch (style) {
        case 0: kd = r.chance(1, 2) ? AK_U64 : AK_U32; break;
        case 2: kd = r.chance(3, 4) ? AK_F64 : AK_U64; break;
        case 3: kd = (u8)r.below(5); break;
        default: kd = r.chance(1, 2) ? AK_F64 : (r.chance(1, 2) ? AK_U64 : AK_U32); break;
      }
      s.kind[k] = kd;
    }
    s.ret = (u8)(i % 5 == 4 ? RK_VOID : (i % 3 == 0 ? RK_F64 : (i % 3 == 1 ? RK_U64 : RK_U32)));
  }
  // callees with many arguments (0..14 integer, 0..12 floating point, interleaved): between 0 and 96 bytes of stack arguments on SysV x86-64
  static const u8 big[NCALLEE - NCALLEE_OLD][2] = { {14, 0}, {14, 12}, {7, 9}, {10, 2}, {0, 12}, {9, 0}, {3, 10}, {14, 4}, {8, 8}, {12, 11} };
  Rng q(0xB16CA11);
  for (int i = NCALLEE_OLD; i < NCALLEE; i++) {
    CalleeSig& s = g_sigs[i];
    int ni = big[i - NCALLEE_OLD][0], nd = big[i - NCALLEE_OLD][1];
    s.n = (u8)(ni + nd);
    int k = 0;
    while (ni + nd > 0) {
      bool pick_d = nd > 0 && (ni == 0 || q.below((u64)(ni + nd)) < (u64)nd);
      if (pick_d) { s.kind[k++] = AK_F64; nd--; }
      else { s.kind[k++] = (u8)(i % 3 == 2 ? q.below(4) : (q.chance(1, 2) ? AK_U64 : AK_U32)); ni--; }
    }
    s.ret = (u8)(i % 4 == 0 ? RK_VOID : (i % 4 == 1 ? RK_U64 : (i % 4 == 2 ? RK_F64 : RK_U32)));
  }
  // x86-64 only helpers (explicit C prototypes below)
  auto def = [&](int id, u8 ret, u8 conv, u8 va, std::initializer_list<u8> kinds) {
    CalleeSig& s = g_sigs[id]; s.n = 0; for (u8 k : kinds) s.kind[s.n++] = k; s.ret = ret; s.conv = conv; s.va = va;
  };
  def(34, RK_U64, CV_MS, 0, { AK_U64, AK_U64, AK_U64, AK_U64, AK_U64, AK_U64 });
  def(35, RK_F64, CV_MS, 0, { AK_F64, AK_U64, AK_F64, AK_U64, AK_F64, AK_U64, AK_F64 });
  def(36, RK_U64, CV_MS, 0, { AK_U32, AK_F64, AK_U8, AK_F64, AK_U64, AK_U16, AK_F64, AK_U64 });
  def(37, RK_VOID, CV_MS, 0, { AK_F64, AK_F64, AK_F64, AK_F64, AK_F64, AK_F64 });
  def(38, RK_U64, CV_MS, 0, { AK_V128, AK_U64, AK_V128, AK_F64, AK_V128 });
  def(39, RK_U32, CV_MS, 0, { });
  def(40, RK_U64, CV_DEFAULT, 1, { AK_U64, AK_F64, AK_U32, AK_F64, AK_F64, AK_U64, AK_U64, AK_F64, AK_U64, AK_F64, AK_F64, AK_U64, AK_F64, AK_F64, AK_U64, AK_F64 });
  def(41, RK_U64, CV_DEFAULT, 1, { AK_U64, AK_U32, AK_U64 });
  def(42, RK_U64, CV_MS, 1, { AK_F64, AK_U64, AK_F64, AK_U64, AK_F64, AK_U32 });
  def(43, RK_U64, CV_DEFAULT, 0, { AK_V128, AK_U64, AK_V128 });
  def(44, RK_V128, CV_DEFAULT, 0, { AK_V128, AK_V128, AK_V128, AK_V128, AK_V128, AK_V128, AK_V128, AK_V128, AK_V128 });
  def(45, RK_U64, CV_DEFAULT, 0, { AK_U64, AK_U64, AK_U64, AK_U64, AK_U64, AK_U64, AK_I64, AK_I32, AK_I16, AK_I64, AK_U64, AK_U32, AK_I8, AK_I64 });
  def(46, RK_VOID, CV_DEFAULT, 0, { AK_U64, AK_I64, AK_U64, AK_I64, AK_U64, AK_I64, AK_U64, AK_U64, AK_U64, AK_U64, AK_I64, AK_I64, AK_I64, AK_I64 });
  // float parameters take the low 32 bits of the scalar register they are given (no conversion): 3 of them on the stack (SysV), positional + stack (Win64)
  def(48, RK_U64, CV_DEFAULT, 0, { AK_F32, AK_F32, AK_F32, AK_F32, AK_F32, AK_F32, AK_F32, AK_F32, AK_F32, AK_F32, AK_U64, AK_F32 });
  def(49, RK_U64, CV_MS, 0, { AK_F32, AK_U64, AK_F32, AK_F64, AK_F32, AK_F32 });
  def(50, RK_U64, CV_MS, 0, { AK_V128, AK_U64, AK_V128, AK_F64 });   // Win64 vectors by reference, register positions only
  def(47, RK_U64, CV_DEFAULT, 0, { AK_F64, AK_F64, AK_F64, AK_F64, AK_F64, AK_F64, AK_F64, AK_F64, AK_V128, AK_U64, AK_U64, AK_U64, AK_U64, AK_U64, AK_U64, AK_U64, AK_V128 });
}

// bytes of stack arguments of a callee under the SysV x86-64 convention
static int callee_stack_bytes(int id) {
  const CalleeSig& s = g_sigs[id];
  int ni = 0, nd = 0;
  for (int k = 0; k < s.n; k++) { if (s.kind[k] == AK_F64) nd++; else ni++; }
  return 8 * ((ni > 6 ? ni - 6 : 0) + (nd > 8 ? nd - 8 : 0));
}

static inline u64 callee_result(u32 id, u32 n, const u64* a) {
  u64 h = mix64(0xABCDEF00ull + id);
  for (u32 i = 0; i < n; i++) h = mix64(h ^ a[i]) + i;
  return h;
}

// x86-32 returns a double in ST0: loading a signalling NaN into the x87 stack quiets it, so values that travel through ST0 never use the
// all-ones exponent (helper results) and are compared modulo quieting (the function's own return value)
static inline u64 x87_safe(u64 x) { return ((x >> 52) & 0x7FF) == 0x7FF ? (x & ~(1ull << 62)) : x; }
static inline u64 x87_quiet(u64 x) { return (((x >> 52) & 0x7FF) == 0x7FF && (x & 0xFFFFFFFFFFFFFull)) ? (x | (1ull << 51)) : x; }

static NOSAN void trash_caller_saved() {
  asm volatile(
    "movabs $0x5A5AA5A5C3C33C3C, %%rcx\n"
    "mov %%rcx, %%rdx\n mov %%rcx, %%rsi\n mov %%rcx, %%rdi\n"
    "mov %%rcx, %%r8\n mov %%rcx, %%r9\n mov %%rcx, %%r10\n mov %%rcx, %%r11\n"
    "movq %%rcx, %%xmm0\n punpcklqdq %%xmm0, %%xmm0\n"
    "movdqa %%xmm0, %%xmm1\n movdqa %%xmm0, %%xmm2\n movdqa %%xmm0, %%xmm3\n movdqa %%xmm0, %%xmm4\n"
    "movdqa %%xmm0, %%xmm5\n movdqa %%xmm0, %%xmm6\n movdqa %%xmm0, %%xmm7\n movdqa %%xmm0, %%xmm8\n"
    "movdqa %%xmm0, %%xmm9\n movdqa %%xmm0, %%xmm10\n movdqa %%xmm0, %%xmm11\n movdqa %%xmm0, %%xmm12\n"
    "movdqa %%xmm0, %%xmm13\n movdqa %%xmm0, %%xmm14\n movdqa %%xmm0, %%xmm15\n"
    ::: "rcx", "rdx", "rsi", "rdi", "r8", "r9", "r10", "r11", "xmm0", "xmm1", "xmm2", "xmm3", "xmm4", "xmm5", "xmm6",
        "xmm7", "xmm8", "xmm9", "xmm10", "xmm11", "xmm12", "xmm13", "xmm14", "xmm15", "cc", "memory");
  if (g_trash_avx512) {
    asm volatile(
      "vpternlogd $0xFF, %%zmm0, %%zmm0, %%zmm0\n"
      "vmovdqa64 %%zmm0, %%zmm1\n vmovdqa64 %%zmm0, %%zmm2\n vmovdqa64 %%zmm0, %%zmm3\n vmovdqa64 %%zmm0, %%zmm4\n"
      "vmovdqa64 %%zmm0, %%zmm5\n vmovdqa64 %%zmm0, %%zmm6\n vmovdqa64 %%zmm0, %%zmm7\n vmovdqa64 %%zmm0, %%zmm8\n"
      "vmovdqa64 %%zmm0, %%zmm9\n vmovdqa64 %%zmm0, %%zmm10\n vmovdqa64 %%zmm0, %%zmm11\n vmovdqa64 %%zmm0, %%zmm12\n"
      "vmovdqa64 %%zmm0, %%zmm13\n vmovdqa64 %%zmm0, %%zmm14\n vmovdqa64 %%zmm0, %%zmm15\n vmovdqa64 %%zmm0, %%zmm16\n"
      "vmovdqa64 %%zmm0, %%zmm17\n vmovdqa64 %%zmm0, %%zmm18\n vmovdqa64 %%zmm0, %%zmm19\n vmovdqa64 %%zmm0, %%zmm20\n"
      "vmovdqa64 %%zmm0, %%zmm21\n vmovdqa64 %%zmm0, %%zmm22\n vmovdqa64 %%zmm0, %%zmm23\n vmovdqa64 %%zmm0, %%zmm24\n"
      "vmovdqa64 %%zmm0, %%zmm25\n vmovdqa64 %%zmm0, %%zmm26\n vmovdqa64 %%zmm0, %%zmm27\n vmovdqa64 %%zmm0, %%zmm28\n"
      "vmovdqa64 %%zmm0, %%zmm29\n vmovdqa64 %%zmm0, %%zmm30\n vmovdqa64 %%zmm0, %%zmm31\n"
      "kxnorq %%k0, %%k0, %%k1\n kxnorq %%k0, %%k0, %%k2\n kxnorq %%k0, %%k0, %%k3\n kxnorq %%k0, %%k0, %%k4\n"
      "kxnorq %%k0, %%k0, %%k5\n kxnorq %%k0, %%k0, %%k6\n kxnorq %%k0, %%k0, %%k7\n kxnorq %%k0, %%k0, %%k0\n"
      ::: "xmm0", "xmm1", "xmm2", "xmm3", "xmm4", "xmm5", "xmm6", "xmm7", "xmm8", "xmm9", "xmm10", "xmm11", "xmm12",
          "xmm13", "xmm14", "xmm15", "memory");
  }
  else if (g_trash_avx) {
    asm volatile(
      "vpcmpeqd %%ymm0, %%ymm0, %%ymm0\n"
      "vmovdqa %%ymm0, %%ymm1\n vmovdqa %%ymm0, %%ymm2\n vmovdqa %%ymm0, %%ymm3\n vmovdqa %%ymm0, %%ymm4\n"
      "vmovdqa %%ymm0, %%ymm5\n vmovdqa %%ymm0, %%ymm6\n vmovdqa %%ymm0, %%ymm7\n vmovdqa %%ymm0, %%ymm8\n"
      "vmovdqa %%ymm0, %%ymm9\n vmovdqa %%ymm0, %%ymm10\n vmovdqa %%ymm0, %%ymm11\n vmovdqa %%ymm0, %%ymm12\n"
      "vmovdqa %%ymm0, %%ymm13\n vmovdqa %%ymm0, %%ymm14\n vmovdqa %%ymm0, %%ymm15\n"
      ::: "xmm0", "xmm1", "xmm2", "xmm3", "xmm4", "xmm5", "xmm6", "xmm7", "xmm8", "xmm9", "xmm10", "xmm11", "xmm12",
          "xmm13", "xmm14", "xmm15", "memory");
  }
}

static inline u64 dbits(double d) { u64 x; memcpy(&x, &d, 8); return x; }
static inline double bitsd(u64 x) { double d; memcpy(&d, &x, 8); return d; }

// every helper ends here: the call is logged (callee, argument entries) and the result is a hash of what was received
static NOSAN u64 callee_log(u32 id, u32 n, const u64* a) {
  u32 c = *g_logn;
  if (c < g_logcap) {
    CallRec& r = g_log[c];
    r.callee = id;
    r.n = n;
    for (u32 k = 0; k < (u32)MAXARGS; k++) r.a[k] = k < n ? a[k] : 0;
  }
  *g_logn = c + 1;
  return callee_result(id, n, a);
}

// SysV x86-64: integer and floating arguments are assigned independently, so one prototype with 6 integer
// registers, 8 vector registers and 12 stack slots receives every mixed signature of up to 12 arguments.
static NOSAN u64 callee_common(u32 id, const u64* ir, const double* dr, const u64* st) {
  const CalleeSig& sg = g_sigs[id];
  u64 a[MAXARGS];
  int ni = 0, nd = 0, ns = 0;
  for (int k = 0; k < sg.n; k++) {
    u64 v;
    if (sg.kind[k] == AK_F64) {
      if (nd < 8) v = dbits(dr[nd++]); else v = st[ns++];
    }
    else {
      if (ni < 6) v = ir[ni++]; else v = st[ns++];
      v &= maskw(ak_width(sg.kind[k]));
    }
    a[k] = v;
  }
  return callee_log(id, sg.n, a);
}

#define RECV_PARAMS u64 i0, u64 i1, u64 i2, u64 i3, u64 i4, u64 i5, double d0, double d1, double d2, double d3, \
  double d4, double d5, double d6, double d7, u64 s0, u64 s1, u64 s2, u64 s3, u64 s4, u64 s5, u64 s6, u64 s7, u64 s8, \
  u64 s9, u64 s10, u64 s11
#define RECV_GATHER \
  u64 ir[6] = { i0, i1, i2, i3, i4, i5 }; \
  double dr[8] = { d0, d1, d2, d3, d4, d5, d6, d7 }; \
  u64 st[12] = { s0, s1, s2, s3, s4, s5, s6, s7, s8, s9, s10, s11 };

template<int ID> static NOSAN __attribute__((noinline)) u64 recvI(RECV_PARAMS) {
  RECV_GATHER
  volatile u64 r = callee_common(ID, ir, dr, st);
  trash_caller_saved();
  return r;
}
template<int ID> static NOSAN __attribute__((noinline)) double recvD(RECV_PARAMS) {
  RECV_GATHER
  volatile u64 r = callee_common(ID, ir, dr, st);
  trash_caller_saved();
  return bitsd(r);
}

static void* g_callee_ptr[NCALLEE_ALL];
template<int ID> struct CalleeInit {
  static void run() {
    g_callee_ptr[ID] = g_sigs[ID].ret == RK_F64 ? (void*)&recvD<ID> : (void*)&recvI<ID>;
    CalleeInit<ID - 1>::run();
  }
};
template<> struct CalleeInit<-1> { static void run() {} };

// ---- x86-64 only helpers with explicit prototypes ----
#define MSABI __attribute__((ms_abi, noinline)) NOSAN
#define SVABI __attribute__((noinline)) NOSAN
static inline void v128_parts(__m128i v, u64* out) { memcpy(out, &v, 16); }
// Win64: 4 positional register arguments (rcx/xmm0, rdx/xmm1, r8/xmm2, r9/xmm3), 32 bytes of shadow space, vectors by reference; gcc saves rsi, rdi and
// xmm6-xmm15 (low 128 bits) around the SysV code that overwrites the caller-saved registers
static MSABI u64 recv_ms0(u64 a, u64 b, u64 c, u64 d, u64 e, u64 f) { u64 v[6] = { a, b, c, d, e, f }; volatile u64 r = callee_log(34, 6, v); trash_caller_saved(); return r; }
static MSABI double recv_ms1(double a, u64 b, double c, u64 d, double e, u64 f, double g) {
  u64 v[7] = { dbits(a), b, dbits(c), d, dbits(e), f, dbits(g) }; volatile u64 r = callee_log(35, 7, v); trash_caller_saved(); return bitsd(r);
}
static MSABI u64 recv_ms2(u32 a, double b, u8 c, double d, u64 e, u16 f, double g, u64 h) {
  u64 v[8] = { a, dbits(b), c, dbits(d), e, f, dbits(g), h }; volatile u64 r = callee_log(36, 8, v); trash_caller_saved(); return r;
}
static MSABI void recv_ms3(double a, double b, double c, double d, double e, double f) {
  u64 v[6] = { dbits(a), dbits(b), dbits(c), dbits(d), dbits(e), dbits(f) }; callee_log(37, 6, v); trash_caller_saved();
}
static MSABI u64 recv_ms4(__m128i a, u64 b, __m128i c, double d, __m128i e) {
  u64 v[8]; v128_parts(a, v); v[2] = b; v128_parts(c, v + 3); v[5] = dbits(d); v128_parts(e, v + 6);
  volatile u64 r = callee_log(38, 8, v); trash_caller_saved(); return r;
}
static MSABI u32 recv_ms5() { volatile u64 r = callee_log(39, 0, nullptr); trash_caller_saved(); return (u32)r; }
// variadic helpers: the unnamed arguments are read with va_arg according to the signature table (integers as 64-bit slots)
static SVABI u64 recv_va(u32 id, ...) {
  const CalleeSig& sg = g_sigs[id];
  u64 v[MAXARGS];
  va_list ap; va_start(ap, id);
  for (int k = 0; k < sg.n; k++) v[k] = sg.kind[k] == AK_F64 ? dbits(va_arg(ap, double)) : (va_arg(ap, u64) & maskw(ak_width(sg.kind[k])));
  va_end(ap);
  volatile u64 r = callee_log(id, sg.n, v); trash_caller_saved(); return r;
}
static MSABI u64 recv_va_ms(u32 id, ...) {
  const CalleeSig& sg = g_sigs[id];
  u64 v[MAXARGS];
  __builtin_ms_va_list ap; __builtin_ms_va_start(ap, id);
  for (int k = 0; k < sg.n; k++) v[k] = sg.kind[k] == AK_F64 ? dbits(__builtin_va_arg(ap, double)) : (__builtin_va_arg(ap, u64) & maskw(ak_width(sg.kind[k])));
  __builtin_ms_va_end(ap);
  volatile u64 r = callee_log(id, sg.n, v); trash_caller_saved(); return r;
}
static SVABI u64 recv_vec0(__m128i a, u64 b, __m128i c) { u64 v[5]; v128_parts(a, v); v[2] = b; v128_parts(c, v + 3); volatile u64 r = callee_log(43, 5, v); trash_caller_saved(); return r; }
static SVABI __m128i recv_vec1(__m128i a, __m128i b, __m128i c, __m128i d, __m128i e, __m128i f, __m128i g, __m128i h, __m128i i) {
  u64 v[18]; v128_parts(a, v); v128_parts(b, v + 2); v128_parts(c, v + 4); v128_parts(d, v + 6); v128_parts(e, v + 8); v128_parts(f, v + 10); v128_parts(g, v + 12);
  v128_parts(h, v + 14); v128_parts(i, v + 16);
  volatile u64 r = callee_log(44, 18, v);
  volatile u64 parts[2]; parts[0] = r; parts[1] = mix64(r);
  trash_caller_saved();
  return _mm_set_epi64x((long long)parts[1], (long long)parts[0]);
}
static SVABI u64 recv_vec2(double d0, double d1, double d2, double d3, double d4, double d5, double d6, double d7, __m128i a, u64 i0, u64 i1, u64 i2, u64 i3, u64 i4, u64 i5,
                           u64 i6, __m128i b) {
  u64 v[19] = { dbits(d0), dbits(d1), dbits(d2), dbits(d3), dbits(d4), dbits(d5), dbits(d6), dbits(d7), 0, 0, i0, i1, i2, i3, i4, i5, i6, 0, 0 };
  v128_parts(a, v + 8); v128_parts(b, v + 17);
  volatile u64 r = callee_log(47, 19, v); trash_caller_saved(); return r;
}
static inline u64 fbits(float f) { u32 x; memcpy(&x, &f, 4); return x; }
static SVABI u64 recv_f32(float a, float b, float c, float d, float e, float f, float g, float h, float i, float j, u64 k, float l) {
  u64 v[12] = { fbits(a), fbits(b), fbits(c), fbits(d), fbits(e), fbits(f), fbits(g), fbits(h), fbits(i), fbits(j), k, fbits(l) };
  volatile u64 r = callee_log(48, 12, v); trash_caller_saved(); return r;
}
static MSABI u64 recv_f32_ms(float a, u64 b, float c, double d, float e, float f) {
  u64 v[6] = { fbits(a), b, fbits(c), dbits(d), fbits(e), fbits(f) };
  volatile u64 r = callee_log(49, 6, v); trash_caller_saved(); return r;
}
static MSABI u64 recv_ms6(__m128i a, u64 b, __m128i c, double d) {
  u64 v[6]; v128_parts(a, v); v[2] = b; v128_parts(c, v + 3); v[5] = dbits(d);
  volatile u64 r = callee_log(50, 6, v); trash_caller_saved(); return r;
}
static void init_callee_ptrs_ext() {
  g_callee_ptr[48] = (void*)&recv_f32; g_callee_ptr[49] = (void*)&recv_f32_ms; g_callee_ptr[50] = (void*)&recv_ms6;
  g_callee_ptr[34] = (void*)&recv_ms0; g_callee_ptr[35] = (void*)&recv_ms1; g_callee_ptr[36] = (void*)&recv_ms2; g_callee_ptr[37] = (void*)&recv_ms3;
  g_callee_ptr[38] = (void*)&recv_ms4; g_callee_ptr[39] = (void*)&recv_ms5; g_callee_ptr[40] = (void*)&recv_va; g_callee_ptr[41] = (void*)&recv_va;
  g_callee_ptr[42] = (void*)&recv_va_ms; g_callee_ptr[43] = (void*)&recv_vec0; g_callee_ptr[44] = (void*)&recv_vec1; g_callee_ptr[45] = (void*)&recvI<45>;
  g_callee_ptr[46] = (void*)&recvI<46>; g_callee_ptr[47] = (void*)&recv_vec2;
}

// ---------------------------------------------------------------------------------------------------------------
// Reference interpreter (unbounded virtual registers, byte-granular definedness tracking)
// ---------------------------------------------------------------------------------------------------------------

// reference for [v]round{pd,ps,sd,ss}: the host instruction itself (same immediate), one 128-bit chunk at a time
__attribute__((target("sse4.1"))) static NOSAN void host_round(int sub, int imm, const u8* in16, u8* out16) {
  if (sub == 0 || sub == 2) {
    __m128d x = _mm_loadu_pd((const double*)in16), r;
    switch (imm & 3) { case 0: r = _mm_round_pd(x, 8); break; case 1: r = _mm_round_pd(x, 9); break; case 2: r = _mm_round_pd(x, 10); break; default: r = _mm_round_pd(x, 11); break; }
    _mm_storeu_pd((double*)out16, r);
  }
  else {
    __m128 x = _mm_loadu_ps((const float*)in16), r;
    switch (imm & 3) { case 0: r = _mm_round_ps(x, 8); break; case 1: r = _mm_round_ps(x, 9); break; case 2: r = _mm_round_ps(x, 10); break; default: r = _mm_round_ps(x, 11); break; }
    _mm_storeu_ps((float*)out16, r);
  }
}

struct IVal { u8 b[64]; u64 def; };

struct RunInput {
  u8 data[DATA_SIZE];
  u64 iargs[20];    // integer arguments a1..a20 (always passed as full 64-bit values: the bits above a narrow parameter are junk)
  u64 dargs[17];    // double arguments (bit patterns)
};

struct RunResult {
  u64 ret = 0;
  std::vector<u8> buf;
  std::vector<CallRec> calls;
  u64 ncalls = 0;
};

// number/kind of function arguments after the buffer pointer per signature class
// (Globals::kMaxFuncArgs = 32 limits a signature to 31 parameters after the buffer pointer)
// isz: parameter size in bytes, +16 = signed (int8/int16/int32 instead of uint8/uint16/uint32)
struct SigClass { int ni; u8 isz[20]; int nd; };
static const int NSIGCLASS = 7;
static inline int psize(u8 t) { return t & 15; }
static inline bool psigned(u8 t) { return (t & 16) != 0; }
static const SigClass kSigClasses[NSIGCLASS] = {
  { 0, {0}, 0 },
  { 3, {8, 4, 8}, 0 },
  { 8, {8, 4, 8, 8, 4, 8, 4, 8}, 9 },
  { 14, {8, 4, 8, 8, 4, 8, 4, 8, 8, 4, 8, 8, 4, 8}, 17 },        // 9 integer and 9 double parameters on the stack (SysV x86-64)
  { 15, {8, 8, 4, 8, 4, 8, 8, 4, 8, 8, 4, 8, 4, 8, 8}, 10 },
  { 4, {8, 4, 8, 8}, 12 },
  // 20 narrow integer parameters (14 of them in 8-byte stack slots whose upper bytes are undefined)
  { 20, {4, 20, 1, 18, 2, 17, 4, 20, 20, 4, 2, 18, 4, 20, 1, 17, 4, 20, 4, 20}, 0 },
};

struct Interp {
  const Program& P;
  std::vector<IVal> v;
  std::vector<u8> buf;
  u8 stk[STK_SIZE];
  u8 stkdef[STK_SIZE];
  std::vector<CallRec> calls;
  u64 ncalls = 0;
  u64 steps = 0;
  int trace_val = -1;
  bool bad = false;          // program not well-defined on this input (generator/shrinker error)
  std::string badmsg;
  int ptrw;

  Interp(const Program& p) : P(p), v(p.vals.size()), buf(BUF_SIZE, 0) {
    ptrw = p.arch == ARCH_X86 ? 4 : 8;
    memset(stk, 0, sizeof stk);
    memset(stkdef, 0, sizeof stkdef);
    for (auto& x : v) { memset(x.b, 0, 64); x.def = 0; }
  }

  void fail(const std::string& m) { if (!bad) { bad = true; badmsg = m; } }

  static inline u64 bytes_mask(int off, int n) { return (n >= 64 ? ~0ull : ((1ull << n) - 1)) << off; }

  // ---- raw access ----
  u64 rd_raw(int vi, int off, int n) {
    IVal& x = v[vi];
    if ((x.def & bytes_mask(off, n)) != bytes_mask(off, n)) fail("read of undefined bytes of v" + std::to_string(vi));
    u64 r = 0;
    memcpy(&r, x.b + off, n > 8 ? 8 : n);
    return r;
  }
  void need(int vi, int off, int n) {
    if ((v[vi].def & bytes_mask(off, n)) != bytes_mask(off, n)) fail("read of undefined bytes of v" + std::to_string(vi));
  }

  // ---- GP ----
  u64 G(int vi, int w) {
    if (P.vals[vi].kind != KIND_G || P.vals[vi].size < w) fail("bad gp read");
    return rd_raw(vi, 0, w) & maskw(w);
  }
  void SG(int vi, int w, u64 x) {
    const ValDef& d = P.vals[vi];
    if (d.kind != KIND_G || d.size < w) { fail("bad gp write"); return; }
    IVal& iv = v[vi];
    x &= maskw(w);
    if (w == 4 && d.size == 8) { memcpy(iv.b, &x, 8); iv.def |= 0xFF; }
    else { memcpy(iv.b, &x, w); iv.def |= bytes_mask(0, w); }
  }

  // ---- memory ----
  u8* mem_ptr(const MemRef& m, int size, bool write) {
    i64 addr = m.off;
    if (m.space == M_CONST) { fail("const pool address taken"); return nullptr; }
    if (m.idx >= 0) {
      u64 iv = G(m.idx, P.vals[m.idx].size < ptrw ? P.vals[m.idx].size : ptrw);
      addr += (i64)(iv << m.shift);
    }
    if (m.space == M_BUF) {
      i64 lim = m.idx >= 0 ? DATA_SIZE : BUF_SIZE;
      if (addr < 0 || addr + size > lim) { fail("buffer access out of range"); return nullptr; }
      return buf.data() + addr;
    }
    if (addr < 0 || addr + size > STK_SIZE) { fail("stack access out of range"); return nullptr; }
    if (write) memset(stkdef + addr, 1, size);
    else for (int i = 0; i < size; i++) if (!stkdef[addr + i]) { fail("read of undefined stack bytes"); break; }
    return stk + addr;
  }
  void mem_rd(const MemRef& m, int size, u8* out) {
    if (m.space == M_CONST) {
      u8 c[64]; const_data(m.off, c); memcpy(out, c, size); return;
    }
    u8* p = mem_ptr(m, size, false);
    if (p) memcpy(out, p, size); else memset(out, 0, size);
  }
  void mem_wr(const MemRef& m, int size, const u8* in) {
    u8* p = mem_ptr(m, size, true);
    if (p) memcpy(p, in, size);
  }
  u64 mem_rd64(const MemRef& m, int w) { u64 x = 0; mem_rd(m, w, (u8*)&x); return x; }
  void mem_wr64(const MemRef& m, int w, u64 x) { mem_wr(m, w, (const u8*)&x); }

  u64 RS(const Src& s, int w) {
    switch (s.t) {
      case S_REG: return G(s.v, w);
      case S_IMM: return (u64)s.imm & maskw(w);
      case S_MEM: return mem_rd64(s.m, w) & maskw(w);
      default: fail("missing source"); return 0;
    }
  }

  // ---- vectors ----
  void VR(int vi, int n, u8* out) {  // read low n bytes
    const ValDef& d = P.vals[vi];
    if ((d.kind != KIND_V && d.kind != KIND_D) || d.size < n) { fail("bad vec read"); memset(out, 0, n); return; }
    need(vi, 0, n);
    memcpy(out, v[vi].b, n);
  }
  void VW(int vi, int n, const u8* in) {  // write n bytes, zero the rest of the value (VEX/EVEX semantics)
    const ValDef& d = P.vals[vi];
    if ((d.kind != KIND_V && d.kind != KIND_D) || d.size < n) { fail("bad vec write"); return; }
    memset(v[vi].b, 0, 64);
    memcpy(v[vi].b, in, n);
    v[vi].def |= bytes_mask(0, d.size);
  }
  void VWpartial(int vi, int n, const u8* in) {  // legacy SSE: upper part preserved (only used when n == size)
    VW(vi, n, in);
  }
  void VSRC(const Src& s, int n, u8* out) {
    if (s.t == S_REG) VR(s.v, n, out);
    else if (s.t == S_MEM) mem_rd(s.m, n, out);
    else { fail("bad vec source"); memset(out, 0, n); }
  }

  // ---- masks ----
  u64 K(int vi, int w) {
    if (P.vals[vi].kind != KIND_K || P.vals[vi].size < w) fail("bad k read");
    return rd_raw(vi, 0, w) & maskw(w);
  }
  u64 KM(int vi, int nbits) {  // mask operand controlling nbits elements
    const ValDef& d = P.vals[vi];
    if (d.kind != KIND_K || d.size * 8 < nbits) { fail("bad mask operand"); return 0; }
    u64 k = K(vi, d.size);
    return nbits >= 64 ? k : (k & ((1ull << nbits) - 1));
  }
  void SK(int vi, u64 x) {
    const ValDef& d = P.vals[vi];
    if (d.kind != KIND_K) { fail("bad k write"); return; }
    x &= maskw(d.size);
    memcpy(v[vi].b, &x, 8);
    v[vi].def |= bytes_mask(0, d.size);
  }

  // ---- D (scalar double bit pattern in the low 8 bytes of a vector register) ----
  u64 D(int vi) {
    const ValDef& d = P.vals[vi];
    if (d.kind != KIND_D && d.kind != KIND_V) fail("bad d read");
    return rd_raw(vi, 0, 8);
  }
  void SD(int vi, u64 x) {
    const ValDef& d = P.vals[vi];
    if (d.kind == KIND_D) { memcpy(v[vi].b, &x, 8); v[vi].def |= 0xFF; }
    else fail("bad d write");
  }

  static bool cond(int cc, u64 a, u64 b, int w, bool test) {
    u64 m = maskw(w);
    a &= m; b &= m;
    if (test) {
      u64 r = a & b;
      switch (cc) {
        case CC_E: return r == 0;
        case CC_NE: return r != 0;
        case CC_S: return (r >> (8 * w - 1)) & 1;
        case CC_NS: return !((r >> (8 * w - 1)) & 1);
        // CF = OF = 0 after test
        case CC_B: return false;
        case CC_AE: return true;
        case CC_BE: return r == 0;
        case CC_A: return r != 0;
        case CC_L: return (r >> (8 * w - 1)) & 1;
        case CC_GE: return !((r >> (8 * w - 1)) & 1);
        case CC_LE: return r == 0 || ((r >> (8 * w - 1)) & 1);
        case CC_G: return r != 0 && !((r >> (8 * w - 1)) & 1);
      }
      return false;
    }
    i64 sa = sextw(a, w), sb = sextw(b, w);
    u64 r = (a - b) & m;
    switch (cc) {
      case CC_E: return a == b;
      case CC_NE: return a != b;
      case CC_B: return a < b;
      case CC_AE: return a >= b;
      case CC_BE: return a <= b;
      case CC_A: return a > b;
      case CC_L: return sa < sb;
      case CC_GE: return sa >= sb;
      case CC_LE: return sa <= sb;
      case CC_G: return sa > sb;
      case CC_S: return (r >> (8 * w - 1)) & 1;
      case CC_NS: return !((r >> (8 * w - 1)) & 1);
    }
    return false;
  }

  static u64 alu(int sub, u64 a, u64 b) {
    switch (sub) {
      case A_ADD: return a + b;
      case A_SUB: return a - b;
      case A_AND: return a & b;
      case A_OR: return a | b;
      default: return a ^ b;
    }
  }

  static u64 shift(int sub, u64 x, unsigned cnt, int w) {
    int bits = w * 8;
    u64 m = maskw(w);
    cnt &= (w == 8 ? 63 : 31);
    x &= m;
    switch (sub) {
      case SH_SHL: return (int)cnt >= bits ? 0 : (x << cnt) & m;
      case SH_SHR: return (int)cnt >= bits ? 0 : (x >> cnt);
      case SH_SAR: return (u64)(sextw(x, w) >> cnt) & m;
      case SH_ROL: cnt %= bits; return cnt ? ((x << cnt) | (x >> (bits - cnt))) & m : x;
      default: cnt %= bits; return cnt ? ((x >> cnt) | (x << (bits - cnt))) & m : x;
    }
  }

  static u64 un(int sub, u64 x, int w) {
    switch (sub) {
      case U_NEG: return (0 - x);
      case U_NOT: return ~x;
      case U_INC: return x + 1;
      case U_DEC: return x - 1;
      default: return w == 8 ? __builtin_bswap64(x) : (u64)__builtin_bswap32((u32)x);
    }
  }

  // vector lane helpers
  static u64 lane(const u8* p, int i, int esz) { u64 x = 0; memcpy(&x, p + i * esz, esz); return x; }
  static void setlane(u8* p, int i, int esz, u64 x) { memcpy(p + i * esz, &x, esz); }

  static int valu_esz(int sub) {
    switch (sub) {
      case VA_PADDB: case VA_PSUBB: case VA_PMINUB: case VA_PCMPEQB: case VA_PSHUFB: case VA_PAVGB: case VA_PADDUSB: return 1;
      case VA_PADDW: case VA_PSUBW: case VA_PMULLW: case VA_PMAXSW: return 2;
      case VA_PADDQ: case VA_PSUBQ: case VA_PUNPCKHQDQ: return 8;
      default: return 4;
    }
  }

  static void valu(int sub, const u8* a, const u8* b, u8* out, int L) {
    int esz = valu_esz(sub);
    int n = L / esz;
    switch (sub) {
      case VA_PXOR: for (int i = 0; i < L; i++) out[i] = a[i] ^ b[i]; return;
      case VA_PAND: for (int i = 0; i < L; i++) out[i] = a[i] & b[i]; return;
      case VA_POR: for (int i = 0; i < L; i++) out[i] = a[i] | b[i]; return;
      case VA_PANDN: for (int i = 0; i < L; i++) out[i] = (u8)(~a[i] & b[i]); return;
      case VA_PUNPCKLDQ:
        for (int l = 0; l < L; l += 16) {
          u8 t[16];
          memcpy(t + 0, a + l + 0, 4); memcpy(t + 4, b + l + 0, 4); memcpy(t + 8, a + l + 4, 4); memcpy(t + 12, b + l + 4, 4);
          memcpy(out + l, t, 16);
        }
        return;
      case VA_PUNPCKHQDQ:
        for (int l = 0; l < L; l += 16) {
          u8 t[16];
          memcpy(t, a + l + 8, 8); memcpy(t + 8, b + l + 8, 8);
          memcpy(out + l, t, 16);
        }
        return;
      case VA_PSHUFB:
        for (int l = 0; l < L; l += 16) {
          u8 t[16];
          for (int i = 0; i < 16; i++) t[i] = (b[l + i] & 0x80) ? 0 : a[l + (b[l + i] & 15)];
          memcpy(out + l, t, 16);
        }
        return;
      default: break;
    }
    u8 t[64];
    for (int i = 0; i < n; i++) {
      u64 x = lane(a, i, esz), y = lane(b, i, esz), r = 0;
      u64 m = maskw(esz);
      switch (sub) {
        case VA_PADDB: case VA_PADDW: case VA_PADDD: case VA_PADDQ: r = x + y; break;
        case VA_PSUBB: case VA_PSUBW: case VA_PSUBD: case VA_PSUBQ: r = x - y; break;
        case VA_PMULLD: case VA_PMULLW: r = x * y; break;
        case VA_PMINUD: case VA_PMINUB: r = x < y ? x : y; break;
        case VA_PMAXSD: case VA_PMAXSW: r = sextw(x, esz) > sextw(y, esz) ? x : y; break;
        case VA_PCMPEQD: case VA_PCMPEQB: r = x == y ? m : 0; break;
        case VA_PCMPGTD: r = sextw(x, esz) > sextw(y, esz) ? m : 0; break;
        case VA_PAVGB: r = (x + y + 1) >> 1; break;
        case VA_PADDUSB: r = x + y > 255 ? 255 : x + y; break;
      }
      setlane(t, i, esz, r & m);
    }
    memcpy(out, t, L);
  }

  static void vshi(int sub, const u8* a, unsigned cnt, u8* out, int L) {
    int esz = (sub == VS_PSLLW || sub == VS_PSRLW || sub == VS_PSRAW) ? 2 : (sub == VS_PSLLQ || sub == VS_PSRLQ) ? 8 : 4;
    int bits = esz * 8;
    int n = L / esz;
    u8 t[64];
    for (int i = 0; i < n; i++) {
      u64 x = lane(a, i, esz), r;
      switch (sub) {
        case VS_PSLLW: case VS_PSLLD: case VS_PSLLQ: r = (int)cnt >= bits ? 0 : x << cnt; break;
        case VS_PSRLW: case VS_PSRLD: case VS_PSRLQ: r = (int)cnt >= bits ? 0 : x >> cnt; break;
        default: r = (u64)(sextw(x, esz) >> ((int)cnt >= bits ? bits - 1 : (int)cnt)); break;
      }
      setlane(t, i, esz, r & maskw(esz));
    }
    memcpy(out, t, L);
  }

  void exec_op(const Op& o) {
    steps++;
    int w = o.w;
    switch (o.opc) {
      case O_NOP: break;
      case O_MOV: SG(o.d, w, RS(o.s, w)); break;
      case O_STORE: mem_wr64(o.s2.m, w, RS(o.s, w)); break;
      case O_ALU: SG(o.d, w, alu(o.sub, G(o.d, w), RS(o.s, w))); break;
      case O_ALUM: { u64 x = mem_rd64(o.s2.m, w); mem_wr64(o.s2.m, w, alu(o.sub, x, RS(o.s, w)) & maskw(w)); break; }
      case O_ADC2: {
        // add/sub d, s ; adc/sbb d2, s2
        u64 m = maskw(w);
        u64 x = G(o.d, w), y = RS(o.s, w);
        u64 hx = G(o.d2, w), hy = RS(o.s2, w);
        if (o.sub == 0) {
          u64 lo = (x + y) & m; u64 carry = lo < x ? 1 : 0;
          SG(o.d, w, lo); SG(o.d2, w, hx + hy + carry);
        }
        else {
          u64 lo = (x - y) & m; u64 borrow = x < y ? 1 : 0;
          SG(o.d, w, lo); SG(o.d2, w, hx - hy - borrow);
        }
        break;
      }
      case O_UN: SG(o.d, w, un(o.sub, G(o.d, w), w)); break;
      case O_UNM: { u64 x = mem_rd64(o.s2.m, w); mem_wr64(o.s2.m, w, un(o.sub, x, w) & maskw(w)); break; }
      case O_SHI: SG(o.d, w, shift(o.sub, G(o.d, w), (unsigned)o.imm, w)); break;
      case O_SHC: { unsigned c = (unsigned)G(o.c, 1); SG(o.d, w, shift(o.sub, G(o.d, w), c, w)); break; }
      case O_IMUL2: SG(o.d, w, G(o.d, w) * RS(o.s, w)); break;
      case O_IMUL3: SG(o.d, w, RS(o.s, w) * (u64)o.imm); break;
      case O_MUL1: {
        // (d2:d) = d * s ; flag: signed
        u64 x = G(o.d, w), y = RS(o.s, w);
        u64 lo, hi;
        if (o.flag) { i128 p = (i128)sextw(x, w) * (i128)sextw(y, w); lo = (u64)p; hi = w == 8 ? (u64)(p >> 64) : (u64)((i64)p >> (8 * w)); }
        else { u128 p = (u128)x * (u128)y; lo = (u64)p; hi = w == 8 ? (u64)(p >> 64) : (u64)((u64)p >> (8 * w)); }
        SG(o.d, w, lo);
        SG(o.d2, w, hi);
        break;
      }
      case O_DIV: {
        // guarded: divisor t = s|1 (unsigned) or ((s>>1)|1) (signed, positive); d2:d / t -> d = quotient, d2 = remainder
        u64 sv = RS(o.s, w);
        u64 x = G(o.d, w);
        if (P.arch == ARCH_A64) {
          // udiv/sdiv never trap: x / 0 = 0, INT_MIN / -1 = INT_MIN ; d2 = remainder (msub), d = quotient
          u64 q;
          if (!o.flag) q = sv ? x / sv : 0;
          else { i64 sa = sextw(x, w), sb = sextw(sv, w); q = sb == 0 ? 0 : (sb == -1 ? (u64)(0 - (u64)sa) : (u64)(sa / sb)); }
          q &= maskw(w);
          SG(o.d2, w, x - q * sv);
          SG(o.d, w, q);
          break;
        }
        if (!o.flag) {
          u64 t = (sv | 1) & maskw(w);
          SG(o.d2, w, 0);
          SG(o.d, w, x / t);
          SG(o.d2, w, x % t);
        }
        else {
          i64 t = (i64)(((sv & maskw(w)) >> 1) | 1);
          i64 sx = sextw(x, w);
          SG(o.d2, w, sx < 0 ? ~0ull : 0);
          SG(o.d, w, (u64)(sx / t));
          SG(o.d2, w, (u64)(sx % t));
        }
        break;
      }
      case O_CMPXCHG: {
        // cmpxchg D, s, acc(c): D = register d or memory s2 ; flag: setz into d2
        u64 acc = G(o.c, w), sv = G(o.a, w);
        bool eq;
        if (o.s2.t == S_MEM) {
          u64 dv = mem_rd64(o.s2.m, w) & maskw(w);
          eq = dv == acc;
          if (eq) mem_wr64(o.s2.m, w, sv); else { mem_wr64(o.s2.m, w, dv); SG(o.c, w, dv); }
        }
        else {
          u64 dv = G(o.d, w);
          eq = dv == acc;
          if (eq) SG(o.d, w, sv); else SG(o.c, w, dv);
        }
        if (o.d2 >= 0) SG(o.d2, 1, eq ? 1 : 0);
        break;
      }
      case O_XCHG: { u64 x = G(o.d, w), y = G(o.a, w); SG(o.d, w, y); SG(o.a, w, x); break; }
      case O_XCHGM: { u64 x = mem_rd64(o.s2.m, w), y = G(o.a, w); mem_wr64(o.s2.m, w, y); SG(o.a, w, x); break; }
      case O_XADD: { u64 x = G(o.d, w), y = G(o.a, w); SG(o.a, w, x); SG(o.d, w, x + y); break; }
      case O_LEA: {
        u64 r = (u64)o.imm;
        if (o.a >= 0) r += G(o.a, w);
        if (o.b >= 0) r += G(o.b, w) << o.sub;
        SG(o.d, w, r);
        break;
      }
      case O_SETCC: { bool c = cond(o.cc, G(o.a, o.w2), RS(o.s, o.w2), o.w2, o.flag); SG(o.d, P.arch == ARCH_A64 ? 4 : 1, c); break; }   // cset w: the whole register
      case O_CMOV: {
        bool c = cond(o.cc, G(o.a, o.w2), RS(o.s, o.w2), o.w2, o.flag);
        u64 sv = RS(o.s2, w);
        u64 dv = G(o.d, w);
        SG(o.d, w, c ? sv : dv);
        break;
      }
      case O_MOVX: { u64 x = RS(o.s, o.w2); SG(o.d, w, o.flag ? (u64)sextw(x, o.w2) : x); break; }
      case O_BITCNT: {
        u64 x = RS(o.s, w); int bits = 8 * w; u64 r;
        if (o.sub == BC_POPCNT) r = __builtin_popcountll(x);
        else if (o.sub == BC_LZCNT) r = x ? (u64)(__builtin_clzll(x) - (64 - bits)) : (u64)bits;
        else r = x ? (u64)__builtin_ctzll(x) : (u64)bits;
        SG(o.d, w, r);
        break;
      }
      case O_HI8: {
        // operations on bits 8..15
        auto hi = [&](int vi) { return (rd_raw(vi, 1, 1)) & 0xFF; };
        auto sethi = [&](int vi, u64 x) { v[vi].b[1] = (u8)x; v[vi].def |= 2; };
        if (P.vals[o.d].kind != KIND_G || P.vals[o.d].size < 2) fail("bad hi8 dst");
        switch (o.sub) {
          case 0: sethi(o.d, (u64)o.imm); break;
          case 1: sethi(o.d, G(o.a, 1)); break;
          case 2: { if (P.vals[o.a].size < 2) fail("bad hi8 src"); SG(o.d, 1, hi(o.a)); break; }
          case 3: { if (P.vals[o.a].size < 2) fail("bad hi8 src"); sethi(o.d, hi(o.d) + hi(o.a)); break; }
          case 4: { u64 l = G(o.d, 1), h = hi(o.d); SG(o.d, 1, h); sethi(o.d, l); break; }
          case 5: { if (P.vals[o.a].size < 2) fail("bad hi8 src"); SG(o.d, 1, G(o.d, 1) ^ hi(o.a)); break; }
          default: sethi(o.d, hi(o.d) ^ G(o.a, 1)); break;
        }
        break;
      }

      case O_BT: {
        // bt/bts/btr/btc d, (c | imm) ; register form: the bit index wraps modulo the operand width ; d2: setc
        int bits = 8 * w;
        u64 x = G(o.d, w);
        unsigned idx = (unsigned)((o.c >= 0 ? G(o.c, w) : (u64)o.imm) % (u64)bits);
        u64 bit = (x >> idx) & 1;
        if (o.sub == 1) x |= 1ull << idx; else if (o.sub == 2) x &= ~(1ull << idx); else if (o.sub == 3) x ^= 1ull << idx;
        if (o.sub) SG(o.d, w, x);
        if (o.d2 >= 0) SG(o.d2, 1, bit);
        break;
      }

      // ---- vectors (w = bytes the instruction operates on) ----
      case O_VMOV: { u8 t[64]; VSRC(o.s, w, t); VW(o.d, w, t); break; }
      case O_VSTORE: { u8 t[64]; VR(o.a, w, t); mem_wr(o.s2.m, w, t); break; }
      case O_VALU: { u8 a[64], b[64], r[64]; VR(o.a, w, a); VSRC(o.s, w, b); valu(o.sub, a, b, r, w); VW(o.d, w, r); break; }
      case O_VSHI: { u8 a[64], r[64]; VR(o.a, w, a); vshi(o.sub, a, (unsigned)o.imm, r, w); VW(o.d, w, r); break; }
      case O_VSHUFD: {
        u8 a[64], r[64]; VSRC(o.s, w, a);
        for (int l = 0; l < w; l += 16)
          for (int i = 0; i < 4; i++) memcpy(r + l + 4 * i, a + l + 4 * ((o.imm >> (2 * i)) & 3), 4);
        VW(o.d, w, r);
        break;
      }
      case O_VBCAST: {
        // broadcast element (w2 = 4/8) from the low lane of a vector / memory / gp register
        u8 e[16] = {0}, r[64];
        if (o.s.t == S_REG && P.vals[o.s.v].kind == KIND_G) { u64 x = G(o.s.v, o.w2); memcpy(e, &x, 8); }
        else VSRC(o.s, o.w2, e);
        for (int i = 0; i < w; i += o.w2) memcpy(r + i, e, o.w2);
        VW(o.d, w, r);
        break;
      }
      case O_VEXTR: {
        // d (w bytes) = a[(imm)*w ...], w2 = source bytes
        u8 a[64]; VR(o.a, o.w2, a);
        VW(o.d, w, a + (int)o.imm * w);
        break;
      }
      case O_VINS: {
        // d = a (w bytes) with chunk imm (w2 bytes) replaced by s
        u8 a[64], b[64]; VR(o.a, w, a); VSRC(o.s, o.w2, b);
        memcpy(a + (int)o.imm * o.w2, b, o.w2);
        VW(o.d, w, a);
        break;
      }
      case O_VFROMG: { u8 r[16] = {0}; u64 x = RS(o.s, o.w2); memcpy(r, &x, o.w2); VW(o.d, 16, r); break; }
      case O_VTOG: { u8 a[16]; VR(o.a, o.w2, a); u64 x = 0; memcpy(&x, a, o.w2); SG(o.d, o.w2, x); break; }
      case O_VPINS: {
        // d = a (xmm) with element imm (w2 bytes) replaced by s (gp or memory)
        u8 a[16]; VR(o.a, 16, a);
        u64 x = RS(o.s, o.w2);
        memcpy(a + (int)o.imm * o.w2, &x, o.w2);
        VW(o.d, 16, a);
        break;
      }
      case O_VPEXT: {
        u8 a[16]; VR(o.a, 16, a);
        u64 x = 0; memcpy(&x, a + (int)o.imm * o.w2, o.w2);
        SG(o.d, o.w2 == 8 ? 8 : 4, x);
        break;
      }
      case O_VMSKB: {
        u8 a[64]; VR(o.a, w, a);
        u64 x = 0;
        for (int i = 0; i < w; i++) x |= (u64)(a[i] >> 7) << i;
        SG(o.d, 4, x);
        break;
      }
      case O_VTERN: {
        // vpternlogd d{k}{z}, a, s, imm ; mask: virtual c or physical register cc loaded from gp value b ; flag: zeroing
        u8 d[64], a[64], b[64], r[64]; VR(o.d, w, d); VR(o.a, w, a); VSRC(o.s, w, b);
        for (int i = 0; i < w; i++) {
          u8 x = 0;
          for (int bit = 0; bit < 8; bit++) {
            int idx = (((d[i] >> bit) & 1) << 2) | (((a[i] >> bit) & 1) << 1) | ((b[i] >> bit) & 1);
            x |= (u8)(((o.imm >> idx) & 1) << bit);
          }
          r[i] = x;
        }
        if (o.c >= 0 || o.cc) {
          int n = w / 4;
          u64 k = o.cc ? (G(o.b, 2) & ((1ull << n) - 1)) : KM(o.c, n);
          for (int i = 0; i < n; i++) if (!((k >> i) & 1)) { if (o.flag) memset(r + 4 * i, 0, 4); else memcpy(r + 4 * i, d + 4 * i, 4); }
        }
        VW(o.d, w, r);
        break;
      }
      case O_VALUK: {
        // d{k}{z} = a op s ; element size from the sub operation (4 or 8) ; flag: zeroing
        u8 a[64], b[64], r[64], d[64];
        VR(o.a, w, a); VSRC(o.s, w, b); valu(o.sub, a, b, r, w);
        int esz = valu_esz(o.sub);
        int n = w / esz;
        u64 k = o.cc ? (G(o.b, 2) & ((1ull << n) - 1)) : KM(o.c, n);
        if (!o.flag) VR(o.d, w, d); else memset(d, 0, 64);
        for (int i = 0; i < n; i++) if ((k >> i) & 1) memcpy(d + i * esz, r + i * esz, esz);
        VW(o.d, w, d);
        break;
      }
      case O_VGATHER: {
        // vpgatherdd d{k}, [buf + a*4 + imm] ; the mask register c is cleared by the instruction
        u8 d[64], ix[64]; VR(o.d, w, d); VR(o.a, w, ix);
        int n = w / 4;
        u64 k = KM(o.c, n);
        for (int i = 0; i < n; i++) if ((k >> i) & 1) {
          MemRef m; m.off = (int)o.imm + 4 * (int)(i32)lane(ix, i, 4);
          if (m.off < 0 || m.off + 4 > DATA_SIZE) { fail("gather index out of range"); break; }
          mem_rd(m, 4, d + 4 * i);
        }
        VW(o.d, w, d);
        SK(o.c, 0);
        break;
      }
      case O_VCMPK: {
        // kd = vpcmp[u]d(a, s, pred) ; flag: unsigned ; c: optional write mask
        u8 a[64], b[64]; VR(o.a, w, a); VSRC(o.s, w, b);
        int n = w / 4;
        u64 r = 0;
        for (int i = 0; i < n; i++) {
          u64 x = lane(a, i, 4), y = lane(b, i, 4);
          bool lt = o.flag ? x < y : sextw(x, 4) < sextw(y, 4);
          bool eq = x == y, c;
          switch (o.imm & 7) {
            case 0: c = eq; break;
            case 1: c = lt; break;
            case 2: c = lt || eq; break;
            case 3: c = false; break;
            case 4: c = !eq; break;
            case 5: c = !lt; break;
            case 6: c = !(lt || eq); break;
            default: c = true; break;
          }
          if (c) r |= 1ull << i;
        }
        if (o.c >= 0) r &= KM(o.c, n);
        if (P.vals[o.d].size * 8 < n) fail("k destination narrower than the compare result");
        SK(o.d, r);
        break;
      }
      case O_VM2V: {
        // vpmovm2d d, k
        int n = w / 4;
        u64 k = KM(o.a, n);
        u8 r[64];
        for (int i = 0; i < n; i++) { u32 x = ((k >> i) & 1) ? 0xFFFFFFFFu : 0; memcpy(r + 4 * i, &x, 4); }
        VW(o.d, w, r);
        break;
      }
      case O_V2M: {
        u8 a[64]; VR(o.a, w, a);
        int n = w / 4; u64 r = 0;
        for (int i = 0; i < n; i++) if (a[4 * i + 3] & 0x80) r |= 1ull << i;
        if (P.vals[o.d].size * 8 < n) fail("k destination narrower than the result");
        SK(o.d, r);
        break;
      }

      // ---- masks ----
      case O_KFROMG: SK(o.d, G(o.a, w)); break;
      case O_KTOG: SG(o.d, w == 8 ? 8 : 4, K(o.a, w)); break;
      case O_KLOAD: SK(o.d, mem_rd64(o.s.m, w) & maskw(w)); break;
      case O_KSTORE: mem_wr64(o.s2.m, w, K(o.a, w)); break;
      case O_KMOV: SK(o.d, K(o.a, w)); break;
      case O_KALU: {
        u64 x = K(o.a, w), y = K(o.b, w), r;
        switch (o.sub) {
          case KA_AND: r = x & y; break;
          case KA_OR: r = x | y; break;
          case KA_XOR: r = x ^ y; break;
          case KA_ANDN: r = ~x & y; break;
          case KA_XNOR: r = ~(x ^ y); break;
          default: r = x + y; break;
        }
        SK(o.d, r & maskw(w));
        break;
      }
      case O_KNOT: SK(o.d, ~K(o.a, w) & maskw(w)); break;
      case O_KSHI: {
        u64 x = K(o.a, w); unsigned c = (unsigned)o.imm & 0xFF; int bits = 8 * w;
        u64 r = (int)c >= bits ? 0 : (o.sub ? x >> c : (x << c) & maskw(w));
        SK(o.d, r);
        break;
      }
      case O_KSET: {
        // kortest a, b ; setcc d  (cc: CC_E -> ZF, CC_NE -> !ZF, CC_B -> CF, CC_AE -> !CF)
        u64 x = K(o.a, w) | K(o.b, w);
        bool zf = x == 0, cf = x == maskw(w);
        bool c = o.cc == CC_E ? zf : o.cc == CC_NE ? !zf : o.cc == CC_B ? cf : !cf;
        SG(o.d, 1, c);
        break;
      }

      // ---- D ----
      case O_DFROMG: SD(o.d, G(o.a, 8)); break;
      case O_DTOG: SG(o.d, 8, D(o.a)); break;
      case O_DLOAD: SD(o.d, mem_rd64(o.s.m, 8)); break;
      case O_DSTORE: mem_wr64(o.s2.m, 8, D(o.a)); break;
      case O_DMOV: SD(o.d, D(o.a)); break;

      case O_CALL: {
        const CalleeSig& sg = g_sigs[o.imm];
        CallRec r; memset(&r, 0, sizeof r);
        r.callee = (u32)o.imm;
        int ne = 0;
        for (int k = 0; k < sg.n; k++) {
          const Src& s = o.args[k];
          u8 kd = sg.kind[k];
          if (kd == AK_F64) r.a[ne++] = s.t == S_IMM ? (u64)s.imm : D(s.v);
          else if (kd == AK_F32) r.a[ne++] = (s.t == S_IMM ? (u64)s.imm : D(s.v)) & 0xFFFFFFFFull;
          else if (kd == AK_V128) { u8 t[16]; VR(s.v, 16, t); memcpy(&r.a[ne], t, 16); ne += 2; }
          else {
            int aw = ak_width(kd);
            u64 x;
            if (s.t == S_IMM) x = (u64)s.imm & maskw(aw);
            else if (P.vals[s.v].size >= aw) x = G(s.v, aw);
            else {
              // a virtual register narrower than the (stack-passed) parameter is extended to the parameter's width: sign extension when both the
              // parameter and the register have a signed type, zero extension otherwise (AsmJit's documented cast rule)
              int vs = P.vals[s.v].size;
              x = G(s.v, vs);
              if (ak_signed(kd) && P.vals[s.v].sgn) x = (u64)sextw(x, vs);
              x &= maskw(aw);
            }
            r.a[ne++] = x;
          }
        }
        r.n = (u32)ne;
        if (calls.size() < 512) calls.push_back(r);
        ncalls++;
        u64 res = callee_result(r.callee, r.n, r.a);
        if (P.arch == ARCH_X86 && sg.ret == RK_F64) res = x87_safe(res);
        if (o.d >= 0) {
          if (sg.ret == RK_F64) SD(o.d, res);
          else if (sg.ret == RK_U64) SG(o.d, 8, res);
          else if (sg.ret == RK_U32) SG(o.d, 4, res);
          else if (sg.ret == RK_V128) { u64 t[2] = { res, mix64(res) }; VW(o.d, 16, (const u8*)t); }
        }
        break;
      }
      // ---- fixed / implicit register classes ----
      case O_BLENDV: {
        // pblendvb / blendvps / blendvpd d, s, <xmm0 = c>: element of s where the top bit of the mask element is set
        u8 d[16], b[16], m[16]; VR(o.d, 16, d); VSRC(o.s, 16, b); VR(o.c, 16, m);
        int es = o.sub == 0 ? 1 : o.sub == 1 ? 4 : 8;
        for (int i = 0; i < 16; i += es) if (m[i + es - 1] & 0x80) memcpy(d + i, b + i, es);
        VW(o.d, 16, d);
        break;
      }
      case O_MULX: {
        // mulx d2(hi), d(lo), s, <edx = c>
        u128 p = (u128)G(o.c, w) * (u128)RS(o.s, w);
        u64 lo = (u64)p & maskw(w), hi = (u64)(p >> (8 * w)) & maskw(w);
        SG(o.d, w, lo); SG(o.d2, w, hi);
        break;
      }
      case O_STR: {
        // [rep] stos / movs / lods ; imm elements of w bytes ; d: final offset of the advanced pointer ; d2: final count (rep)
        int n = (int)o.imm;
        MemRef dst = o.s2.m, src = o.s.m;
        u64 ax = o.sub == 0 ? G(o.a, w) : 0;
        for (int i = 0; i < n; i++) {
          if (o.sub == 0) mem_wr64(dst, w, ax);
          else if (o.sub == 1) { u64 x = mem_rd64(src, w); mem_wr64(dst, w, x); }
          else ax = mem_rd64(src, w);
          dst.off += w; src.off += w;
        }
        if (o.sub == 2) SG(o.a, w, ax);
        if (o.d >= 0) SG(o.d, ptrw, (u64)(o.sub == 2 ? src.off : dst.off));
        if (o.d2 >= 0) SG(o.d2, 4, 0);
        break;
      }
      case O_CX16: {
        // cmpxchg8b / cmpxchg16b [m], <edx = d2>, <eax = d>, <ecx = b>, <ebx = a> ; c: setz
        MemRef lo = o.s2.m, hi = o.s2.m; hi.off += w;
        u64 mlo = mem_rd64(lo, w) & maskw(w), mhi = mem_rd64(hi, w) & maskw(w);
        bool eq = mlo == G(o.d, w) && mhi == G(o.d2, w);
        u64 nlo = G(o.a, w), nhi = G(o.b, w);
        if (eq) { mem_wr64(lo, w, nlo); mem_wr64(hi, w, nhi); }
        else { mem_wr64(lo, w, mlo); mem_wr64(hi, w, mhi); SG(o.d, w, mlo); SG(o.d2, w, mhi); }
        if (o.c >= 0) SG(o.c, 1, eq ? 1 : 0);
        break;
      }
      case O_LAHF: {
        // cmp a, s ; lahf -> bits 8..15 of d = SF:ZF:0:AF:0:PF:1:CF
        int cw = o.w2;
        u64 x = G(o.a, cw), y = RS(o.s, cw), r = (x - y) & maskw(cw);
        u64 f = 2;
        if (x < y) f |= 1;
        if (!(__builtin_popcountll(r & 0xFF) & 1)) f |= 4;
        if ((x ^ y ^ r) & 0x10) f |= 0x10;
        if (r == 0) f |= 0x40;
        if ((r >> (8 * cw - 1)) & 1) f |= 0x80;
        if (P.vals[o.d].kind != KIND_G || P.vals[o.d].size < 2) fail("bad lahf dst");
        v[o.d].b[1] = (u8)f; v[o.d].def |= 2;
        break;
      }
      case O_SAHF: {
        // sahf <ah = bits 8..15 of a> ; setcc d (conditions over CF, ZF, SF only)
        if (P.vals[o.a].kind != KIND_G || P.vals[o.a].size < 2) fail("bad sahf src");
        u64 f = rd_raw(o.a, 1, 1);
        bool cf = f & 1, zf = f & 0x40, sf = f & 0x80, c;
        switch (o.cc) {
          case CC_E: c = zf; break; case CC_NE: c = !zf; break; case CC_B: c = cf; break; case CC_AE: c = !cf; break;
          case CC_BE: c = cf || zf; break; case CC_A: c = !cf && !zf; break; case CC_S: c = sf; break; default: c = !sf; break;
        }
        SG(o.d, 1, c);
        break;
      }
      case O_VROUND: {
        // [v]roundpd / roundps (sub 0 / 1, w bytes) ; [v]roundsd / roundss (sub 2 / 3: low element of s, the rest from a)
        u8 a[64], b[64], r[64], t[16];
        if (o.sub < 2) {
          VSRC(o.s, w, b);
          for (int i = 0; i < w; i += 16) host_round(o.sub, (int)o.imm, b + i, r + i);
          VW(o.d, w, r);
        }
        else {
          int es = o.sub == 2 ? 8 : 4;
          VR(o.a, 16, a); memset(b, 0, 16); VSRC(o.s, es, b);
          host_round(o.sub, (int)o.imm, b, t);
          memcpy(r, a, 16); memcpy(r, t, es);
          VW(o.d, 16, r);
        }
        break;
      }
      case O_MASKMOV: {
        // [v]maskmovdqu a, b, [<edi>] : bytes of a whose mask byte in b has the top bit set
        u8 a[16], m[16]; VR(o.a, 16, a); VR(o.b, 16, m);
        for (int i = 0; i < 16; i++) if (m[i] & 0x80) { MemRef t = o.s2.m; t.off += i; mem_wr(t, 1, a + i); }
        break;
      }
      // ---- AArch64 register lists and write-back addressing ----
      case O_ALD: case O_AST: {
        // args: the register list ; sub: 0 ldN/stN (interleaved), 1 ld1/st1 with several registers, 2 ldNr (replicate), 3 single lane (cc = lane)
        // w2: element size ; flag: 0 no write-back, 1 post-index by the transfer size, 2 post-index by register c ; d: final pointer offset
        bool load = o.opc == O_ALD;
        int n = (int)o.args.size(), es = o.w2, ne = 16 / es;
        u8 r[4][16];
        for (int k = 0; k < n; k++) {
          if (!load || o.sub == 3) VR(o.args[k].v, 16, r[k]); else memset(r[k], 0, 16);
        }
        MemRef m = load ? o.s.m : o.s2.m;
        if (o.b >= 0) m.off = (int)(i64)G(o.b, 8);   // the base is a live pointer register
        int total = 0;
        auto xfer = [&](int k, int e, int off) {
          MemRef t = m; t.off += off;
          if (load) mem_rd(t, es, r[k] + e * es); else mem_wr(t, es, r[k] + e * es);
        };
        if (o.sub == 0) { for (int e = 0; e < ne; e++) for (int k = 0; k < n; k++) { xfer(k, e, total); total += es; } }
        else if (o.sub == 1) { for (int k = 0; k < n; k++) for (int e = 0; e < ne; e++) { xfer(k, e, total); total += es; } }
        else if (o.sub == 2) { for (int k = 0; k < n; k++) { xfer(k, 0, total); for (int e = 1; e < ne; e++) memcpy(r[k] + e * es, r[k], es); total += es; } }
        else { for (int k = 0; k < n; k++) { xfer(k, o.cc, total); total += es; } }
        if (load) for (int k = 0; k < n; k++) VW(o.args[k].v, 16, r[k]);
        u64 after = (u64)(i64)m.off + (o.flag == 1 ? (u64)total : o.flag == 2 ? G(o.c, 8) : 0);
        if (o.b >= 0) SG(o.b, 8, after);
        if (o.d >= 0) SG(o.d, 8, after);
        break;
      }
      case O_ATBL: {
        // tbl / tbx d, { args }, a ; flag: tbx
        int n = (int)o.args.size();
        u8 tab[64], ix[16], r[16];
        for (int k = 0; k < n; k++) VR(o.args[k].v, 16, tab + 16 * k);
        VR(o.a, 16, ix);
        if (o.flag) VR(o.d, 16, r); else memset(r, 0, 16);
        for (int i = 0; i < 16; i++) if (ix[i] < 16 * n) r[i] = tab[ix[i]];
        VW(o.d, 16, r);
        break;
      }
      case O_AMULE: {
        // mul d.T, a.T, b.T[cc] (by element) ; w2: element size 2 / 4
        u8 a[16], b[16], r[16]; VR(o.a, 16, a); VR(o.b, 16, b);
        int es = o.w2; u64 e = lane(b, o.cc, es);
        for (int i = 0; i < 16 / es; i++) setlane(r, i, es, (lane(a, i, es) * e) & maskw(es));
        VW(o.d, 16, r);
        break;
      }
      case O_AIDX: {
        // ldr / str with pre- or post-index write-back: c holds the offset (base = buffer), imm the increment ; flag bit0: store, bit1: pre-index
        u64 off = G(o.c, 8);
        MemRef m; m.off = (int)(i64)(off + ((o.flag & 2) ? (u64)o.imm : 0));
        if (o.flag & 1) mem_wr64(m, w, G(o.a, w)); else SG(o.d, w, mem_rd64(m, w));
        SG(o.c, 8, off + (u64)o.imm);
        break;
      }
      default: fail("unknown op"); break;
    }
  }

  RunResult run(const RunInput& in) {
    RunResult res;
    memcpy(buf.data(), in.data, DATA_SIZE);
    // bind arguments
    const SigClass& sc = kSigClasses[P.sigclass];
    for (size_t i = 0; i < P.argbind.size(); i++) {
      int vi = P.argbind[i];
      if (vi < 0) continue;
      if ((int)i < sc.ni) {
        // a narrow parameter bound to a wider virtual register is zero extended, or sign extended when parameter and register are signed
        int ps = psize(sc.isz[i]), vs = P.vals[vi].size;
        u64 x = in.iargs[i] & maskw(ps);
        if (vs > ps && psigned(sc.isz[i]) && P.vals[vi].sgn) x = (u64)sextw(x, ps);
        SG(vi, vs, x);
      }
      else if (P.vals[vi].kind == KIND_V) {
        // double parameter bound to a wider (128-bit) virtual register: only the low 8 bytes are defined
        memcpy(v[vi].b, &in.dargs[i - sc.ni], 8); v[vi].def |= 0xFF;
      }
      else SD(vi, in.dargs[i - sc.ni]);
    }
    int bi = 0;
    int nb = (int)P.blocks.size();
    u64 guard = 0;
    while (!bad) {
      if (++guard > 2000000) { fail("interpreter step limit"); break; }
      const Block& b = P.blocks[bi];
      if (b.fuel) {
        u64 f = G(P.fuel, 4);
        f = (f - 1) & 0xFFFFFFFFull;
        SG(P.fuel, 4, f);
        if (f & 0x80000000ull) { bi = nb - 1; continue; }
      }
      for (const Op& o : b.ops) { exec_op(o); if (bad) break; }
      if (bad) break;
      if (trace_val >= 0) {
        u64 x = 0; memcpy(&x, v[trace_val].b, 8);
        fprintf(stderr, "[interp] after B%d: v%d=%016llx def=%llx\n", bi, trace_val, (unsigned long long)x, (unsigned long long)v[trace_val].def);
      }
      const Term& t = b.term;
      if (t.kind == T_RET) {
        if (P.retval >= 0) {
          const ValDef& d = P.vals[P.retval];
          res.ret = d.kind == KIND_G ? G(P.retval, d.size) : D(P.retval);
        }
        break;
      }
      if (b.data_after && t.kind != T_JMP && t.kind != T_SWITCH) { fail("block falls through into embedded data"); break; }
      switch (t.kind) {
        case T_FALL: bi = bi + 1; break;
        case T_JMP: bi = t.target; break;
        case T_BR: {
          bool taken;
          if (t.test == 2) taken = (G(t.a, t.w) == 0) == (t.cc == CC_E);
          else if (t.test == 3) taken = (((G(t.a, t.w) >> (t.s.imm & (8 * t.w - 1))) & 1) == 0) == (t.cc == CC_E);
          else taken = cond(t.cc, G(t.a, t.w), RS(t.s, t.w), t.w, t.test);
          bi = taken ? t.target : bi + 1;
          break;
        }
        case T_DEC: { u64 c = (G(t.a, t.w) - 1) & maskw(t.w); SG(t.a, t.w, c); bi = c != 0 ? t.target : bi + 1; break; }
        case T_SWITCH: { u64 i = G(t.a, t.w) & (t.targets.size() - 1); bi = t.targets[i]; break; }
      }
      if (bi >= nb) { fail("fell off the last block"); break; }
    }
    res.buf = buf;
    res.calls = calls;
    res.ncalls = ncalls;
    return res;
  }
};

// ---------------------------------------------------------------------------------------------------------------
// Static read/write sets of an op (liveness measurement, shrinking)
// ---------------------------------------------------------------------------------------------------------------

struct RW { std::vector<int> reads; std::vector<int> kills; std::vector<int> writes; };

static void src_reads(const Src& s, std::vector<int>& rd) {
  if (s.t == S_REG) rd.push_back(s.v);
  if (s.t == S_MEM && s.m.idx >= 0) rd.push_back(s.m.idx);
}

// kills = values completely overwritten without being read; writes = all values written
static void op_rw(const Program& P, const Op& o, RW& rw) {
  rw.reads.clear(); rw.kills.clear(); rw.writes.clear();
  auto R = [&](int v) { if (v >= 0) rw.reads.push_back(v); };
  auto full = [&](int v, int w) {  // write of w bytes to a G value
    if (v < 0) return;
    rw.writes.push_back(v);
    const ValDef& d = P.vals[v];
    if (d.kind != KIND_G || w >= d.size || (w == 4 && d.size == 8)) rw.kills.push_back(v); else rw.reads.push_back(v);
  };
  auto W = [&](int v) { if (v >= 0) { rw.writes.push_back(v); rw.kills.push_back(v); } };
  src_reads(o.s, rw.reads);
  src_reads(o.s2, rw.reads);
  switch (o.opc) {
    case O_MOV: case O_IMUL3: case O_MOVX: case O_BITCNT: full(o.d, o.w); break;
    case O_LEA: R(o.a); R(o.b); full(o.d, o.w); break;
    case O_STORE: break;
    case O_ALU: case O_UN: case O_SHI: case O_IMUL2: R(o.d); rw.writes.push_back(o.d); break;
    case O_SHC: R(o.d); R(o.c); rw.writes.push_back(o.d); break;
    case O_ALUM: case O_UNM: break;
    case O_ADC2: R(o.d); R(o.d2); rw.writes.push_back(o.d); rw.writes.push_back(o.d2); break;
    case O_MUL1: R(o.d); rw.writes.push_back(o.d); full(o.d2, o.w); break;
    case O_DIV: R(o.d); rw.writes.push_back(o.d); full(o.d2, o.w); break;
    case O_CMPXCHG: R(o.d); R(o.a); R(o.c); if (o.d >= 0) rw.writes.push_back(o.d); rw.writes.push_back(o.c); full(o.d2, 1); break;
    case O_XCHG: case O_XADD: R(o.d); R(o.a); rw.writes.push_back(o.d); rw.writes.push_back(o.a); break;
    case O_XCHGM: R(o.a); rw.writes.push_back(o.a); break;
    case O_SETCC: R(o.a); full(o.d, 1); break;
    case O_CMOV: R(o.a); R(o.d); rw.writes.push_back(o.d); break;
    case O_HI8: R(o.d); R(o.a); rw.writes.push_back(o.d); break;
    case O_BT: R(o.d); R(o.c); if (o.sub) rw.writes.push_back(o.d); full(o.d2, 1); break;
    case O_BLENDV: R(o.d); R(o.c); rw.writes.push_back(o.d); break;
    case O_MULX: R(o.c); full(o.d, o.w); full(o.d2, o.w); break;
    case O_STR: if (o.sub == 0) R(o.a); else if (o.sub == 2) full(o.a, o.w); full(o.d, P.arch == ARCH_X86 ? 4 : 8); full(o.d2, 4); break;
    case O_CX16: R(o.d); R(o.d2); R(o.a); R(o.b); rw.writes.push_back(o.d); rw.writes.push_back(o.d2); full(o.c, 1); break;
    case O_LAHF: R(o.a); R(o.d); rw.writes.push_back(o.d); break;
    case O_SAHF: R(o.a); full(o.d, 1); break;
    case O_MASKMOV: R(o.a); R(o.b); break;
    case O_VROUND: if (o.sub >= 2) R(o.a); W(o.d); break;
    case O_ALD: for (const Src& a : o.args) { if (o.sub == 3) rw.reads.push_back(a.v); rw.writes.push_back(a.v); if (o.sub != 3) rw.kills.push_back(a.v); } R(o.c); R(o.b); if (o.b >= 0) rw.writes.push_back(o.b); full(o.d, 8); break;
    case O_AST: for (const Src& a : o.args) rw.reads.push_back(a.v); R(o.c); R(o.b); if (o.b >= 0) rw.writes.push_back(o.b); full(o.d, 8); break;
    case O_ATBL: for (const Src& a : o.args) rw.reads.push_back(a.v); R(o.a); if (o.flag) { R(o.d); rw.writes.push_back(o.d); } else W(o.d); break;
    case O_AMULE: R(o.a); R(o.b); W(o.d); break;
    case O_AIDX: R(o.c); rw.writes.push_back(o.c); if (o.flag & 1) R(o.a); else full(o.d, o.w); break;
    case O_VGATHER: R(o.d); R(o.a); R(o.c); rw.writes.push_back(o.d); rw.writes.push_back(o.c); break;
    case O_VMOV: case O_VBCAST: case O_VFROMG: W(o.d); break;
    case O_VSTORE: R(o.a); break;
    case O_VALU: case O_VSHI: case O_VEXTR: case O_VINS: case O_VPINS: R(o.a); W(o.d); break;
    case O_VSHUFD: W(o.d); break;
    case O_VTOG: R(o.a); full(o.d, o.w2); break;
    case O_VPEXT: R(o.a); full(o.d, o.w2 == 8 ? 8 : 4); break;
    case O_VMSKB: R(o.a); full(o.d, 4); break;
    case O_VTERN: R(o.d); R(o.a); R(o.c); if (o.cc) R(o.b); rw.writes.push_back(o.d); break;
    case O_VALUK: R(o.a); R(o.c); if (o.cc) R(o.b); if (!o.flag) { R(o.d); rw.writes.push_back(o.d); } else W(o.d); break;
    case O_VCMPK: R(o.a); R(o.c); W(o.d); break;
    case O_VM2V: case O_V2M: R(o.a); W(o.d); break;
    case O_KFROMG: R(o.a); W(o.d); break;
    case O_KTOG: R(o.a); full(o.d, o.w == 8 ? 8 : 4); break;
    case O_KLOAD: W(o.d); break;
    case O_KSTORE: R(o.a); break;
    case O_KMOV: case O_KNOT: case O_KSHI: R(o.a); W(o.d); break;
    case O_KALU: R(o.a); R(o.b); W(o.d); break;
    case O_KSET: R(o.a); R(o.b); full(o.d, 1); break;
    case O_DFROMG: R(o.a); W(o.d); break;
    case O_DTOG: R(o.a); full(o.d, 8); break;
    case O_DLOAD: W(o.d); break;
    case O_DSTORE: R(o.a); break;
    case O_DMOV: R(o.a); W(o.d); break;
    case O_CALL:
      for (const Src& a : o.args) src_reads(a, rw.reads);
      if (o.d >= 0) W(o.d);
      break;
    default: break;
  }
}

static void term_reads(const Term& t, std::vector<int>& rd) {
  rd.clear();
  if (t.a >= 0) rd.push_back(t.a);
  src_reads(t.s, rd);
}

static void block_succ(const Program& P, int bi, std::vector<int>& out) {
  out.clear();
  const Block& b = P.blocks[bi];
  int nb = (int)P.blocks.size();
  if (b.fuel) out.push_back(nb - 1);
  switch (b.term.kind) {
    case T_FALL: out.push_back(bi + 1); break;
    case T_JMP: out.push_back(b.term.target); break;
    case T_BR: case T_DEC: out.push_back(b.term.target); out.push_back(bi + 1); break;
    case T_SWITCH: for (int t : b.term.targets) out.push_back(t); break;
    default: break;
  }
}

typedef std::bitset<1024> VSet;

// maximum number of simultaneously live values according to our own liveness analysis of the IR
static int measure_max_live(const Program& P) {
  int nb = (int)P.blocks.size();
  std::vector<VSet> livein(nb), liveout(nb), use(nb), def(nb);
  RW rw; std::vector<int> rd;
  for (int bi = 0; bi < nb; bi++) {
    const Block& b = P.blocks[bi];
    VSet u, d;
    if (b.fuel && P.fuel >= 0) u.set(P.fuel);
    for (const Op& o : b.ops) {
      op_rw(P, o, rw);
      for (int v : rw.reads) if (!d.test(v)) u.set(v);
      for (int v : rw.kills) d.set(v);
    }
    term_reads(b.term, rd);
    for (int v : rd) if (!d.test(v)) u.set(v);
    if (b.term.kind == T_RET && P.retval >= 0 && !d.test(P.retval)) u.set(P.retval);
    use[bi] = u; def[bi] = d;
  }
  bool changed = true;
  std::vector<int> succ;
  while (changed) {
    changed = false;
    for (int bi = nb - 1; bi >= 0; bi--) {
      VSet out;
      block_succ(P, bi, succ);
      for (int s : succ) if (s < nb) out |= livein[s];
      VSet in = use[bi] | (out & ~def[bi]);
      if (in != livein[bi] || out != liveout[bi]) { livein[bi] = in; liveout[bi] = out; changed = true; }
    }
  }
  size_t best = 0;
  for (int bi = 0; bi < nb; bi++) {
    const Block& b = P.blocks[bi];
    VSet live = liveout[bi];
    term_reads(b.term, rd);
    for (int v : rd) live.set(v);
    if (b.term.kind == T_RET && P.retval >= 0) live.set(P.retval);
    best = std::max(best, live.count());
    for (int i = (int)b.ops.size() - 1; i >= 0; i--) {
      op_rw(P, b.ops[i], rw);
      for (int v : rw.kills) live.reset(v);
      for (int v : rw.reads) live.set(v);
      best = std::max(best, live.count());
    }
  }
  return (int)best + 1;  // + buffer pointer
}

// ---------------------------------------------------------------------------------------------------------------
// Program generator
// ---------------------------------------------------------------------------------------------------------------

extern u32 g_avoid_fwd;
struct Profile {
  const char* name;
  u8 arch, mode;
  int ng_lo, ng_hi, nv_lo, nv_hi, nk_lo, nk_hi, nd_lo, nd_hi;
  int ops_lo, ops_hi;
  int w_basic, w_fixed, w_partial, w_mem, w_vec, w_mask, w_d, w_call;
  int blocks_lo, blocks_hi;
  int w_switch;   // weight of switch regions (jump tables)
  int stack_pct;
};

struct Gen {
  Rng& r;
  Program& P;
  const Profile& pf;
  bool a64;
  bool x32;
  int ptrw;
  std::vector<int> temps;  // defined temporaries of the current block
  std::map<int, int> ptr_off;   // AArch64 pointer temporaries of the current block whose offset is statically known
  Block* cur = nullptr;

  Gen(Rng& rr, Program& p, const Profile& f) : r(rr), P(p), pf(f) {
    a64 = f.arch == ARCH_A64;
    x32 = f.arch == ARCH_X86;
    ptrw = x32 ? 4 : 8;
  }

  int new_val(u8 kind, u8 size, bool local, bool dumped) {
    ValDef d; d.kind = kind; d.size = size; d.local = local; d.dumped = dumped;
    P.vals.push_back(d);
    return (int)P.vals.size() - 1;
  }
  int new_temp(u8 kind, u8 size) { int v = new_val(kind, size, true, false); return v; }
  void def_temp(int v) { temps.push_back(v); }

  // candidates: globals and defined temporaries of the current block
  int pick(u8 kind, int minsize, int maxsize = 64, int exact = 0) {
    int cand[MAX_VALS + 64]; int n = 0;
    for (int i = 0; i < (int)P.vals.size() && n < MAX_VALS; i++) {
      const ValDef& d = P.vals[i];
      if (d.kind != kind || d.local || d.half) continue;
      if (i == P.fuel) continue;
      if (exact ? d.size != exact : (d.size < minsize || d.size > maxsize)) continue;
      cand[n++] = i;
    }
    for (int t : temps) {
      const ValDef& d = P.vals[t];
      if (d.kind != kind || d.ptr) continue;
      if (exact ? d.size != exact : (d.size < minsize || d.size > maxsize)) continue;
      if (n < MAX_VALS + 64) cand[n++] = t;
    }
    if (!n) return -1;
    return cand[r.below(n)];
  }
  int pickG(int minsize) { return pick(KIND_G, minsize); }

  int pick_w(bool allow8 = true) {
    static const int ws[] = { 1, 2, 4, 4, 4, 8, 8, 8 };
    for (;;) {
      int w = ws[r.below(8)];
      if (w == 8 && (x32 || !allow8)) continue;
      if (a64 && w < 4) continue;
      return w;
    }
  }

  i64 gen_imm(int w) {
    u64 x;
    switch (r.below(8)) {
      case 0: x = 0; break;
      case 1: x = ~0ull; break;
      case 2: x = 1; break;
      case 3: x = 1ull << (8 * w - 1); break;
      case 4: x = (1ull << (8 * w - 1)) - 1; break;
      case 5: x = r.below(256); break;
      default: x = r.next(); break;
    }
    i64 v = sextw(x & maskw(w), w);
    if (w == 8) v = (i64)(int32_t)v;  // imm32 sign-extended
    return v;
  }

  MemRef gen_mem(int size, bool readonly, int align = 0) {
    MemRef m;
    int sp = (int)r.below(100);
    if (P.use_stack && sp < 15) m.space = M_STK;
    else if (readonly && sp < 25 && !a64) m.space = M_CONST;
    else m.space = M_BUF;
    if (m.space == M_CONST) { m.off = (int)r.below(1 << 20); return m; }
    int lim = m.space == M_STK ? STK_SIZE : DATA_SIZE;
    int al = align ? align : ((a64 || r.chance(3, 4)) ? size : 1);
    if (al > 64) al = 64;
    bool indexed = !a64 && m.space == M_BUF && r.chance(1, 5) && size <= 8 && P.vals.size() < 900;
    int span = 0;
    if (indexed) {
      int src = pickG(1);
      if (src >= 0) {
        int bits = (int)r.range(1, 4);
        m.shift = (u8)r.below(4);
        int t = new_temp(KIND_G, (u8)ptrw);
        Op o1; o1.opc = O_MOVX; o1.w = 4; o1.w2 = 1; o1.d = t; o1.s = SR(src); cur->ops.push_back(o1);
        Op o2; o2.opc = O_ALU; o2.sub = A_AND; o2.w = (u8)(((g_avoid_fwd & 4) && !x32) ? 8 : 4); o2.d = t; o2.s = SI((1 << bits) - 1); cur->ops.push_back(o2);
        def_temp(t);
        m.idx = t;
        span = ((1 << bits) - 1) << m.shift;
      }
    }
    int maxoff = lim - size - span;
    int off = (int)r.below(maxoff + 1);
    off -= off % al;
    m.off = off;
    return m;
  }

  Src gen_src(int w, int dself, bool allow_mem, bool allow_imm = true) {
    int k = (int)r.below(100);
    if (dself >= 0 && k < 8 && P.vals[dself].size >= w) return SR(dself);
    if (allow_imm && k < 35) return SI(gen_imm(w));
    if (allow_mem && !a64 && k < 35 + pf.w_mem * 3 + 10) return SM(gen_mem(w, true));
    int v = pickG(w);
    if (v < 0) return allow_imm ? SI(gen_imm(w)) : Src();
    return SR(v);
  }

  // destination of a w-byte write: prefer exact size / zero-extending, sometimes partial
  int pick_dst(int w, bool want_partial) {
    if (want_partial) {
      int v = pick(KIND_G, w + 1);
      if (v >= 0) return v;
    }
    if (r.chance(1, 6) && P.vals.size() < 900) {  // fresh temporary
      int t = new_temp(KIND_G, (u8)(w == 4 && !x32 && r.chance(1, 3) ? 8 : w));
      return t;
    }
    int v = pick(KIND_G, 0, 64, w);
    if (v < 0 && w == 4 && !x32) v = pick(KIND_G, 0, 64, 8);
    if (v < 0) v = pick(KIND_G, w);
    return v;
  }
  bool is_undefined_temp(int v) {
    if (!P.vals[v].local) return false;
    for (int t : temps) if (t == v) return false;
    return true;
  }
  // after emitting an op that fully defines v
  void defined(int v) { if (P.vals[v].local && is_undefined_temp(v)) def_temp(v); }
  // a destination that is read (RMW / partial) must be defined already
  int pick_rmw(int w, bool want_partial) {
    if (want_partial && !(w == 4 && (g_avoid_fwd & 4))) { int v = pick(KIND_G, w + 1); if (v >= 0) return v; }
    int v = pick(KIND_G, 0, 64, w);
    if (v < 0 && !(w == 4 && (g_avoid_fwd & 4))) v = pick(KIND_G, w);
    if (v >= 0 && w == 4 && (g_avoid_fwd & 4) && P.vals[v].size == 8) return -1;
    return v;
  }

  void push(const Op& o) { cur->ops.push_back(o); }

  bool full_write(int d, int w) { const ValDef& v = P.vals[d]; return w >= v.size || (w == 4 && v.size == 8); }

  // ---- GP classes ----
  bool gen_basic(bool partial) {
    int w = partial ? (r.chance(1, 2) ? 1 : 2) : pick_w();
    if (a64) partial = false;
    Op o; o.w = (u8)w;
    int kind = (int)r.below(a64 ? 12 : 16);
    switch (kind) {
      case 0: case 1: {  // mov
        o.opc = O_MOV;
        o.d = pick_dst(w, partial); if (o.d < 0) return false;
        if (!full_write(o.d, w) && is_undefined_temp(o.d)) return false;
        o.s = gen_src(w, o.d, true);
        if (o.s.t == S_NONE) return false;
        if (o.s.t == S_IMM && w == 8 && r.chance(1, 2)) o.s.imm = (i64)r.next();  // mov r64, imm64
        if (o.s.t == S_REG && o.s.v == o.d && is_undefined_temp(o.d)) return false;
        push(o); if (full_write(o.d, w)) defined(o.d);
        return true;
      }
      case 2: case 3: case 4: {  // alu
        o.opc = O_ALU; o.sub = (u8)r.below(A__N);
        o.d = pick_rmw(w, partial); if (o.d < 0) return false;
        o.s = gen_src(w, o.d, true);
        if (o.s.t == S_NONE) return false;
        if ((g_avoid_fwd & 128) && o.sub == A_AND && o.s.t == S_IMM && ((u64)o.s.imm & maskw(w)) == 0) return false;
        if ((g_avoid_fwd & 2) && o.s.t == S_REG && o.s.v == o.d && w < 4 && P.vals[o.d].size > w && (o.sub == A_SUB || o.sub == A_XOR)) return false;
        push(o); return true;
      }
      case 5: {  // unary
        o.opc = O_UN; o.sub = (u8)r.below(a64 ? 2 : U__N);
        if (o.sub == U_BSWAP) { if (w < 4) w = 4; o.w = (u8)w; partial = false; }
        o.d = pick_rmw(w, partial); if (o.d < 0) return false;
        if (o.sub == U_BSWAP && w == 4 && P.vals[o.d].size != 4 && P.vals[o.d].size != 8) return false;
        push(o); return true;
      }
      case 6: {  // shift by immediate
        o.opc = O_SHI; o.sub = (u8)r.below(a64 ? 3 : SH__N);
        o.d = pick_rmw(w, partial); if (o.d < 0) return false;
        o.imm = r.chance(1, 8) ? 0 : (i64)r.below(a64 ? 8 * w : (w == 8 ? 64 : 32));
        if (a64 && o.imm == 0) o.imm = 1;
        push(o); return true;
      }
      case 7: {  // lea
        if (w < 4) w = 4; o.w = (u8)w;
        o.opc = O_LEA;
        o.a = pickG(w);
        o.b = r.chance(2, 3) ? pickG(w) : -1;
        if (o.a < 0) return false;
        o.sub = (u8)(o.b >= 0 ? r.below(4) : 0);
        o.imm = r.chance(1, 3) ? 0 : (i64)(int32_t)(r.next() & (a64 ? 0xFFF : 0xFFFFFFFF));
        if (a64 && o.a < 0) return false;
        o.d = pick_dst(w, false); if (o.d < 0) return false;
        if (P.vals[o.d].size < w) return false;
        if (!full_write(o.d, w)) return false;
        push(o); defined(o.d); return true;
      }
      case 8: {  // setcc
        o.opc = O_SETCC; o.w2 = (u8)pick_w(); o.cc = (u8)r.below(CC__N); o.flag = (u8)(a64 ? 0 : r.chance(1, 4));
        o.a = pickG(o.w2); if (o.a < 0) return false;
        o.s = gen_src(o.w2, o.a, !o.flag);
        if (o.s.t == S_NONE) return false;
        if (o.flag && o.s.t == S_MEM) return false;
        if (a64) { o.d = pick_dst(4, false); o.w = 4; if (o.d < 0 || !full_write(o.d, 4)) return false; o.w = 1; }
        else {
          o.d = partial || r.chance(1, 2) ? pick(KIND_G, 1) : pick_dst(1, false);
          if (o.d < 0) return false;
          if (P.vals[o.d].size > 1 && is_undefined_temp(o.d)) return false;
        }
        o.w = 1;
        push(o); if (P.vals[o.d].size == 1 || a64) defined(o.d);
        return true;
      }
      case 9: {  // cmov
        if (w < 2) w = 2; o.w = (u8)w;
        o.opc = O_CMOV; o.w2 = (u8)pick_w(); o.cc = (u8)r.below(CC__N); o.flag = (u8)(a64 ? 0 : r.chance(1, 4));
        o.a = pickG(o.w2); if (o.a < 0) return false;
        o.s = gen_src(o.w2, o.a, false);
        if (o.s.t == S_NONE) return false;
        o.d = pick_rmw(w, partial && w == 2); if (o.d < 0) return false;
        o.s2 = gen_src(w, o.d, true, false);
        if (o.s2.t == S_NONE) return false;
        push(o); return true;
      }
      case 10: {  // movzx / movsx
        int wd = a64 ? (r.chance(1, 2) ? 4 : 8) : (x32 ? (r.chance(1, 3) ? 2 : 4) : (int)(r.chance(1, 6) ? 2 : (r.chance(1, 2) ? 4 : 8)));
        int ws = wd == 2 ? 1 : wd == 4 ? (r.chance(1, 2) ? 1 : 2) : (r.chance(1, 3) ? 1 : r.chance(1, 2) ? 2 : 4);
        o.opc = O_MOVX; o.w = (u8)wd; o.w2 = (u8)ws; o.flag = (u8)r.chance(1, 2);
        if (wd == 8 && ws == 4 && !o.flag) { o.w = 4; o.w2 = 4; o.opc = O_MOV; }  // mov r32, r32 zero-extends
        o.s = gen_src(ws, -1, true, false);
        if (o.s.t == S_NONE) return false;
        if (a64 && o.s.t != S_REG) return false;
        o.d = pick_dst(o.w, wd == 2 && partial); if (o.d < 0) return false;
        if (P.vals[o.d].size < o.w) return false;
        if (!full_write(o.d, o.w) && is_undefined_temp(o.d)) return false;
        push(o); if (full_write(o.d, o.w)) defined(o.d);
        return true;
      }
      case 11: {  // imul 2 / 3 operand
        if (w < 2) w = 2; o.w = (u8)w;
        if (r.chance(1, 2) || a64) {
          o.opc = O_IMUL2;
          o.d = pick_rmw(w, partial && w == 2); if (o.d < 0) return false;
          o.s = gen_src(w, o.d, true, false);
          if (o.s.t == S_NONE) return false;
          push(o); return true;
        }
        o.opc = O_IMUL3;
        o.s = gen_src(w, -1, true, false);
        if (o.s.t == S_NONE) return false;
        o.imm = gen_imm(w);
        o.d = pick_dst(w, false); if (o.d < 0) return false;
        if (!full_write(o.d, w)) { if (is_undefined_temp(o.d)) return false; }
        push(o); if (full_write(o.d, w)) defined(o.d);
        return true;
      }
      case 12: {  // add/adc, sub/sbb pair
        if (w < 4) w = 4; o.w = (u8)w;
        o.opc = O_ADC2; o.sub = (u8)r.below(2);
        o.d = pick(KIND_G, 0, 64, w); o.d2 = pick(KIND_G, 0, 64, w);
        if (o.d < 0 || o.d2 < 0 || o.d == o.d2) return false;
        o.s = gen_src(w, -1, false); o.s2 = gen_src(w, -1, false);
        if (o.s.t == S_NONE || o.s2.t == S_NONE) return false;
        // the high half must not depend on the freshly written low half in a way that differs between emit orders
        if (o.s2.t == S_REG && o.s2.v == o.d) return false;
        push(o); return true;
      }
      case 13: {  // xchg / xadd (registers)
        o.opc = r.chance(2, 3) ? O_XCHG : O_XADD;
        o.d = pick(KIND_G, 0, 64, w); o.a = pick(KIND_G, 0, 64, w);
        if (partial) { o.d = pick(KIND_G, w); o.a = pick(KIND_G, w); }
        if (o.d < 0 || o.a < 0) return false;
        if (w == 4 && (P.vals[o.d].size != P.vals[o.a].size)) return false;
        if (o.d == o.a && (o.opc == O_XADD || w == 4)) return false;
        push(o); return true;
      }
      case 14: {  // popcnt / lzcnt / tzcnt
        if (w < 2) w = 2; o.w = (u8)w;
        o.opc = O_BITCNT; o.sub = (u8)r.below(3);
        o.s = gen_src(w, -1, true, false);
        if (o.s.t == S_NONE) return false;
        o.d = pick_dst(w, false); if (o.d < 0) return false;
        if (!full_write(o.d, w) && is_undefined_temp(o.d)) return false;
        push(o); if (full_write(o.d, w)) defined(o.d);
        return true;
      }
      default: {  // high-byte register operations
        if (g_avoid_fwd & 8) return false;
        o.opc = O_HI8; o.sub = (u8)r.below(7); o.w = 1;
        o.d = pick(KIND_G, 2); if (o.d < 0) return false;
        if (o.sub == 1 || o.sub == 6) { o.a = r.chance(1, 3) ? o.d : pickG(1); if (o.a < 0) return false; }
        if (o.sub == 2 || o.sub == 3 || o.sub == 5) { o.a = r.chance(1, 3) ? o.d : pick(KIND_G, 2); if (o.a < 0) return false; }
        // one virtual register seen through two views (AL/AH) by a same-register idiom
        if ((g_avoid_fwd & 2048) && (o.sub == 4 || ((o.sub == 5 || o.sub == 6) && o.a == o.d))) return false;
        o.imm = (i64)r.below(256);
        push(o); return true;
      }
    }
  }

  bool gen_fixed() {
    Op o;
    int kind = (int)r.below(a64 ? 3 : 16);
    int w = pick_w();
    switch (kind) {
      case 0: case 1: {  // shift by CL
        o.opc = O_SHC; o.sub = (u8)r.below(a64 ? 3 : SH__N); o.w = (u8)w;
        o.d = pick_rmw(w, r.chance(1, 4)); if (o.d < 0) return false;
        o.c = pickG(a64 ? w : 1); if (o.c < 0) return false;
        push(o); return true;
      }
      case 2: {  // div / idiv (guarded)
        if (w < (a64 ? 4 : 2)) w = 4;
        o.opc = O_DIV; o.w = (u8)w; o.flag = (u8)r.chance(1, 2);
        o.d = pick(KIND_G, 0, 64, w); o.d2 = pick(KIND_G, 0, 64, w);
        if (o.d < 0 || o.d2 < 0 || o.d == o.d2) return false;
        o.s = gen_src(w, -1, !a64, false);
        if (o.s.t == S_NONE) return false;
        push(o); return true;
      }
      case 3: case 4: {  // mul / imul widening
        if (w < 2) w = 2;
        o.opc = O_MUL1; o.w = (u8)w; o.flag = (u8)r.chance(1, 2);
        o.d = pick(KIND_G, 0, 64, w); o.d2 = pick(KIND_G, 0, 64, w);
        if (o.d < 0 || o.d2 < 0 || o.d == o.d2) return false;
        o.s = gen_src(w, o.d, true, false);
        if (o.s.t == S_NONE) return false;
        if (o.s.t == S_REG && o.s.v == o.d2) return false;
        push(o); return true;
      }
      case 5: case 6: {  // cmpxchg
        if (g_avoid_fwd & 1) return false;
        o.opc = O_CMPXCHG; o.w = (u8)w;
        o.c = pick(KIND_G, 0, 64, w); o.a = pick(KIND_G, w);
        if (o.c < 0 || o.a < 0 || o.a == o.c) return false;
        if (r.chance(1, 2)) {
          o.s2 = SM(gen_mem(w, false));
          if (o.s2.m.idx == o.c) return false;
        }
        else {
          o.d = pick(KIND_G, 0, 64, w);
          if (o.d < 0 || o.d == o.c || o.d == o.a) return false;
        }
        if (r.chance(1, 2)) {
          o.d2 = pick(KIND_G, 1);
          if (o.d2 < 0 || o.d2 == o.c || o.d2 == o.d || o.d2 == o.a) o.d2 = -1;
        }
        push(o); return true;
      }
      case 8: {  // bt / bts / btr / btc (register or immediate bit index; the register form wraps modulo the width)
        if (w < 2) w = 2;
        o.opc = O_BT; o.w = (u8)w; o.sub = (u8)r.below(4);
        o.d = pick(KIND_G, 0, 64, w); if (o.d < 0) o.d = pick(KIND_G, w); if (o.d < 0) return false;
        if ((g_avoid_fwd & 4) && w == 4 && P.vals[o.d].size == 8) return false;
        if (r.chance(2, 3) && !(g_avoid_fwd & 4096)) { o.c = pickG(w); if (o.c < 0) return false; }
        else o.imm = (i64)r.below(256);
        if (r.chance(2, 3)) { o.d2 = pick(KIND_G, 1); if (o.d2 == o.d || o.d2 == o.c) o.d2 = -1; }
        push(o); return true;
      }
      case 9: {  // mulx: implicit edx USE, two OUTs
        if (!g_have_bmi2) return false;
        w = (x32 || r.chance(1, 2)) ? 4 : 8;
        o.opc = O_MULX; o.w = (u8)w;
        o.d = pick_dst(w, false); o.d2 = pick_dst(w, false);
        if (o.d < 0 || o.d2 < 0 || o.d == o.d2 || !full_write(o.d, w) || !full_write(o.d2, w)) return false;
        o.c = pickG(w); if (o.c < 0) return false;
        o.s = gen_src(w, -1, true, false); if (o.s.t == S_NONE) return false;
        push(o); defined(o.d); defined(o.d2); return true;
      }
      case 10: return gen_string();
      case 11: {  // cmpxchg8b / cmpxchg16b: four fixed registers + memory
        w = (x32 || !g_have_cx16 || r.chance(1, 2)) ? 4 : 8;
        o.opc = O_CX16; o.w = (u8)w;
        int q[4];
        for (int i = 0; i < 4; i++) {
          q[i] = pick(KIND_G, 0, 64, w); if (q[i] < 0) return false;
          for (int j = 0; j < i; j++) if (q[j] == q[i]) return false;
        }
        o.d = q[0]; o.d2 = q[1]; o.a = q[2]; o.b = q[3];
        MemRef m; m.off = (int)r.below((DATA_SIZE - 2 * w) / (2 * w) + 1) * 2 * w; o.s2 = SM(m);
        if (r.chance(1, 2)) { o.c = pick(KIND_G, 1); for (int i = 0; i < 4; i++) if (o.c == q[i]) o.c = -1; }
        push(o); return true;
      }
      case 12: {  // cmp + lahf: fixed OUT in AH
        if (!g_have_lahf) return false;
        o.opc = O_LAHF; o.w = 1; o.w2 = (u8)w;
        o.a = pickG(w); if (o.a < 0) return false;
        o.s = gen_src(w, o.a, true); if (o.s.t == S_NONE) return false;
        o.d = pick(KIND_G, 2); if (o.d < 0) return false;
        push(o); return true;
      }
      case 13: {  // sahf + setcc: fixed USE in AH
        if (!g_have_lahf) return false;
        static const u8 ccs[] = { CC_E, CC_NE, CC_B, CC_AE, CC_BE, CC_A, CC_S, CC_NS };
        o.opc = O_SAHF; o.w = 1; o.cc = ccs[r.below(8)];
        o.a = pick(KIND_G, 2); if (o.a < 0) return false;
        o.d = r.chance(1, 2) ? pick(KIND_G, 1) : pick_dst(1, false);
        if (o.d < 0) return false;
        if (P.vals[o.d].size > 1 && is_undefined_temp(o.d)) return false;
        push(o); if (P.vals[o.d].size == 1) defined(o.d);
        return true;
      }
      case 14: return gen_blendv();
      case 15: return gen_maskmov();
      default: {  // xchg with memory
        o.opc = O_XCHGM; o.w = (u8)w;
        o.a = pick(KIND_G, 0, 64, w); if (o.a < 0) return false;
        o.s2 = SM(gen_mem(w, false));
        if (o.s2.m.idx == o.a) return false;
        push(o); return true;
      }
    }
  }

  // a pointer temporary of the current block with a known offset (reused half of the time), or a new one pointing at a random aligned offset
  int take_ptr(int align) {
    if (!ptr_off.empty() && r.chance(1, 2)) {
      int k = (int)r.below(ptr_off.size());
      auto it = ptr_off.begin(); std::advance(it, k);
      return it->first;
    }
    if (P.vals.size() >= 900) return -1;
    int off = (int)r.below((DATA_SIZE - 128) / align) * align + 64;
    int pv = new_temp(KIND_G, 8);
    P.vals[pv].ptr = 1;
    Op mv; mv.opc = O_MOV; mv.w = 8; mv.d = pv; mv.s = SI(off); push(mv); def_temp(pv);
    ptr_off[pv] = off;
    return pv;
  }
  void observe_ptr(int pv) {
    // sometimes a helper call first: the pointer register is caller-saved, so the allocator has to decide whether its home slot is still current
    if (r.chance(1, 3)) gen_call();
    Op st; st.opc = O_STORE; st.w = 8; st.s = SR(pv); MemRef m; m.off = (int)r.below(DATA_SIZE / 8) * 8; st.s2 = SM(m); push(st);
  }

  // AArch64 structure loads / stores / table lookups: the registers of a list must be consecutive physical registers
  bool gen_a64_list(int kind) {
    Op o;
    int n = (int)r.range(1, 4);
    auto list = [&](bool need_defined) -> bool {
      o.args.clear();
      for (int k = 0; k < n; k++) {
        int v = -1;
        for (int tries = 0; tries < 8 && v < 0; tries++) {
          v = pick(KIND_V, 16);
          for (const Src& a : o.args) if (a.v == v) v = -1;
        }
        if (v < 0) return false;
        (void)need_defined;
        o.args.push_back(SR(v));
      }
      return true;
    };
    if (kind == 9) {
      o.opc = O_ATBL; o.flag = (u8)r.chance(1, 3);
      if ((g_avoid_fwd & 256) && n > 1) n = 1;
      if (!list(true)) return false;
      o.d = pick(KIND_V, 16); o.a = pick(KIND_V, 16);
      if (o.d < 0 || o.a < 0) return false;
      push(o); return true;
    }
    bool load = kind != 8;
    o.opc = load ? O_ALD : O_AST;
    static const u8 ess[] = { 1, 2, 4, 8 };
    o.w2 = ess[r.below(4)];
    o.sub = (u8)r.below(4);
    if (!load && o.sub == 2) o.sub = 0;
    if (load && o.sub == 3 && (g_avoid_fwd & 524288)) n = 1;   // lane loads into a list of registers: probe a64-lane-load-list-write-only
    if (o.sub == 3) o.cc = (u8)r.below(16 / o.w2);
    if (!list(true)) return false;
    int total = (o.sub == 0 || o.sub == 1) ? 16 * n : n * o.w2;
    MemRef m; m.off = (int)r.below((DATA_SIZE - total) / o.w2 + 1) * o.w2;
    if (load) o.s = SM(m); else o.s2 = SM(m);
    o.flag = (u8)r.below(3);
    if (o.flag == 2) { o.c = pickG(8); if (o.c < 0) o.flag = 1; }
    if (o.flag && r.chance(1, 2)) {
      // post-index through a pointer register that stays live: the offset it points at is statically known here
      int pv = take_ptr(16);
      if (pv >= 0) {
        int off = ptr_off[pv];
        if (off >= 0 && off + total <= DATA_SIZE) {
          o.b = pv;
          if (load) o.s.m.off = off; else o.s2.m.off = off;
          if (r.chance(1, 3)) gen_call();
          push(o);
          if (o.flag == 1) ptr_off[pv] = off + total; else ptr_off.erase(pv);
          observe_ptr(pv);
          return true;
        }
      }
    }
    if (o.flag && r.chance(2, 3)) { o.d = pick_dst(8, false); if (o.d >= 0 && !full_write(o.d, 8)) o.d = -1; }
    push(o);
    if (o.d >= 0) defined(o.d);
    return true;
  }

  // [rep] stos / movs / lods: fixed memory base registers (edi / esi), fixed eax, rep: fixed ecx given as the extra register
  bool gen_string() {
    Op o; o.opc = O_STR; o.sub = (u8)r.below(3);
    int w = pick_w(); o.w = (u8)w;
    int n = (int)r.range(1, 6); o.imm = n;
    o.flag = (u8)r.chance(1, 2);
    MemRef md, ms;
    md.off = (int)r.below(DATA_SIZE - n * w + 1); ms.off = (int)r.below(DATA_SIZE - n * w + 1);
    if (o.sub != 2) o.s2 = SM(md);
    if (o.sub != 0) o.s = SM(ms);
    if (o.sub == 0) { o.a = pickG(w); if (o.a < 0) return false; }
    if (o.sub == 2) { o.a = pick_dst(w, r.chance(1, 4)); if (o.a < 0 || P.vals[o.a].size < w) return false; if (!full_write(o.a, w) && is_undefined_temp(o.a)) return false; }
    if (r.chance(1, 2)) { o.d = pick_dst(ptrw, false); if (o.d >= 0 && !full_write(o.d, ptrw)) o.d = -1; }
    if (o.flag && r.chance(1, 3)) { o.d2 = pick_dst(4, false); if (o.d2 >= 0 && (!full_write(o.d2, 4) || o.d2 == o.d)) o.d2 = -1; }
    push(o);
    if (o.sub == 2 && full_write(o.a, w)) defined(o.a);
    if (o.d >= 0) defined(o.d);
    if (o.d2 >= 0) defined(o.d2);
    return true;
  }
  // pblendvb / blendvps / blendvpd: the mask is an implicit xmm0
  bool gen_blendv() {
    if (P.mode != MODE_SSE || !g_have_sse41 || a64) return false;
    Op o; o.opc = O_BLENDV; o.sub = (u8)r.below(3); o.w = 16;
    o.d = pick(KIND_V, 16); o.c = pick(KIND_V, 16);
    if (o.d < 0 || o.c < 0) return false;
    if (r.chance(1, 4)) o.s = SM(gen_mem(16, true, 16));
    else { int v = pick(KIND_V, 16); if (v < 0) return false; o.s = SR(v); }
    push(o); return true;
  }
  // [v]maskmovdqu: the destination is an implicit ds:[edi]
  bool gen_maskmov() {
    if (a64) return false;
    Op o; o.opc = O_MASKMOV; o.w = 16;
    o.a = pick(KIND_V, 16); o.b = pick(KIND_V, 16);
    if (o.a < 0 || o.b < 0) return false;
    MemRef m; m.off = (int)r.below(DATA_SIZE - 16 + 1); o.s2 = SM(m);
    push(o); return true;
  }

  bool gen_memop() {
    Op o;
    int w = pick_w();
    o.w = (u8)w;
    if (a64 && r.chance(1, 3) && P.vals.size() < 900) {
      // ldr / str with pre- or post-index write-back through a POINTER REGISTER that stays live (other operations, calls and spills in between):
      // the base is read AND written by the instruction; its value (as an offset) is stored after every use
      o.opc = O_AIDX; o.flag = (u8)r.below(4);
      int pv = take_ptr(w);
      if (pv < 0) return false;
      int off = ptr_off[pv];
      static const int incs[] = { 4, 8, 16, -4, -8, -16, 12, 252, -256 };
      o.imm = 0;
      for (int tries = 0; tries < 12; tries++) {
        int inc = incs[r.below(9)];
        int acc = (o.flag & 2) ? off + inc : off;
        if (acc >= 0 && acc + w <= DATA_SIZE) { o.imm = inc; break; }
      }
      if (!o.imm) { if (off < 0 || off + w > DATA_SIZE) { ptr_off.erase(pv); return false; } o.flag &= 1; o.imm = 8; }
      o.c = pv;
      if (o.flag & 1) { o.a = pickG(w); if (o.a < 0) return false; }
      else { o.d = pick_dst(w, false); if (o.d < 0 || P.vals[o.d].size < w) return false; if (!full_write(o.d, w) && is_undefined_temp(o.d)) return false; }
      if (r.chance(1, 3)) gen_call();
      push(o);
      ptr_off[pv] = off + (int)o.imm;
      if (!(o.flag & 1) && full_write(o.d, w)) defined(o.d);
      observe_ptr(pv);
      return true;
    }
    switch (r.below(a64 ? 2 : 5)) {
      case 0: case 1: {
        o.opc = O_STORE;
        o.s = a64 || r.chance(3, 4) ? Src() : SI(gen_imm(w));
        if (o.s.t == S_NONE) { int v = pickG(w); if (v < 0) return false; o.s = SR(v); }
        o.s2 = SM(gen_mem(w, false));
        push(o); return true;
      }
      case 2: case 3: {
        o.opc = O_ALUM; o.sub = (u8)r.below(A__N);
        o.s = gen_src(w, -1, false);
        if (o.s.t == S_NONE) return false;
        if ((g_avoid_fwd & 64) && o.sub == A_OR && o.s.t == S_IMM && ((u64)o.s.imm & maskw(w)) == maskw(w)) return false;
        o.s2 = SM(gen_mem(w, false));
        push(o); return true;
      }
      default: {
        o.opc = O_UNM; o.sub = (u8)r.below(4);
        o.s2 = SM(gen_mem(w, false));
        push(o); return true;
      }
    }
  }

  // ---- vectors ----
  int maxvec() { return P.mode == MODE_SSE ? 16 : P.mode == MODE_AVX ? 32 : 64; }

  bool gen_vec() {
    Op o;
    int d = pick(KIND_V, 16);
    if (d < 0) return false;
    int dsz = P.vals[d].size;
    int w = dsz;
    if (P.mode != MODE_SSE && w > 16 && r.chance(1, 6)) w = w == 64 && r.chance(1, 2) ? 32 : 16;  // narrower view, upper part zeroed
    o.w = (u8)w; o.d = d;
    auto vsrc = [&](bool allow_mem) -> Src {
      if (allow_mem && !a64 && r.below(100) < 20 + pf.w_mem * 2) return SM(gen_mem(w, true, P.mode == MODE_SSE ? 16 : 0));
      if (r.chance(1, 10) ) return SR(d);
      int v = pick(KIND_V, w); if (v < 0) return Src();
      return SR(v);
    };
    int kind = (int)r.below(a64 ? 11 : 24);
    if (!a64 && kind >= 22) {
      // round with an immediate: vroundpd/ps/sd/ss have no EVEX form, registers 16..31 make the Compiler switch to vrndscale*
      if (!g_have_sse41) return false;
      o.opc = O_VROUND; o.sub = (u8)r.below(4); o.imm = (i64)(8 | r.below(4));
      if (o.sub < 2) {
        if (w > 32) { w = 32; o.w = 32; }
        o.s = vsrc(true); if (o.s.t == S_NONE) return false;
        if (o.s.t == S_REG && P.vals[o.s.v].size < w) return false;
      }
      else {
        o.w = 16; w = 16;
        o.a = (P.mode == MODE_SSE) ? d : pick(KIND_V, 16);
        if (o.a < 0) return false;
        int es = o.sub == 2 ? 8 : 4;
        if (r.chance(1, 4)) o.s = SM(gen_mem(es, true)); else { int v = pick(KIND_V, 16); if (v < 0) return false; o.s = SR(v); }
      }
      push(o); return true;
    }
    if (a64 && kind == 10) {
      // multiply by element: a half-word element restricts the element register to v0..v15
      o.opc = O_AMULE; o.w = 16; o.w2 = (u8)((r.chance(2, 3) && !(g_avoid_fwd & 1048576)) ? 2 : 4); o.cc = (u8)r.below(16 / o.w2);
      o.a = pick(KIND_V, 16); o.b = pick(KIND_V, 16);
      if (o.a < 0 || o.b < 0) return false;
      push(o); return true;
    }
    if (a64 && kind >= 6) return gen_a64_list(kind);
    if (kind == 20) return gen_blendv();
    if (kind == 21) return gen_maskmov();
    switch (kind) {
      case 0: case 1: {
        o.opc = O_VMOV; o.s = vsrc(true); if (o.s.t == S_NONE) return false;
        push(o); return true;
      }
      case 2: {
        o.opc = O_VSTORE; o.a = pick(KIND_V, 16); if (o.a < 0) return false;
        o.w = P.vals[o.a].size; o.d = -1;
        if (r.chance(1, 5) && o.w > 16 && P.mode != MODE_SSE) o.w = 16;
        o.s2 = SM(gen_mem(o.w, false, P.mode == MODE_SSE && r.chance(1, 2) ? 16 : 0));
        push(o); return true;
      }
      case 3: case 4: case 5: case 6: case 7: case 8: {
        o.opc = O_VALU;
        for (;;) {
          o.sub = (u8)r.below(a64 ? 12 : VA__N);
          if (w == 64 && (o.sub == VA_PCMPEQD || o.sub == VA_PCMPGTD || o.sub == VA_PCMPEQB)) continue;
          break;
        }
        o.a = (P.mode == MODE_SSE && !a64) ? d : pick(KIND_V, w);
        if (o.a < 0) return false;
        o.s = vsrc(true); if (o.s.t == S_NONE) return false;
        if ((g_avoid_fwd & 512) && w < dsz && o.a == d && o.s.t == S_REG && o.s.v == d) return false;
        push(o); return true;
      }
      case 9: case 10: {
        o.opc = O_VSHI; o.sub = (u8)r.below(VS__N);
        o.a = (P.mode == MODE_SSE && !a64) ? d : pick(KIND_V, w);
        if (o.a < 0) return false;
        o.imm = r.chance(1, 8) ? (i64)r.below(80) : (i64)r.below(16);
        if (a64) o.imm = 1 + (i64)r.below(7);
        push(o); return true;
      }
      case 11: case 12: {
        o.opc = O_VSHUFD; o.imm = (i64)r.below(256);
        o.s = vsrc(true); if (o.s.t == S_NONE) return false;
        push(o); return true;
      }
      case 13: {  // broadcast
        if (P.mode == MODE_SSE) return false;
        o.opc = O_VBCAST; o.w2 = (u8)(r.chance(1, 2) ? 4 : 8);
        int k = (int)r.below(3);
        if (w == 32 && Rng(r.s ^ 0xBCA57ull).chance(1, 2)) {
          // vbroadcasti128 / vbroadcastf128 ymm, m128 (VEX; rewritten to vbroadcasti32x4 / vbroadcastf32x4 for ymm16..31)
          o.w2 = 16; o.flag = (u8)(1 + Rng(r.s ^ 0xF128ull).below(2));
          o.s = SM(gen_mem(16, true));
          push(o); return true;
        }
        if (k == 0) { int v = pick(KIND_V, 16); if (v < 0) return false; o.s = SR(v); }
        else if (k == 1) o.s = SM(gen_mem(o.w2, true));
        else {
          if (P.mode != MODE_AVX512 || (x32 && o.w2 == 8)) return false;
          int v = pickG(o.w2); if (v < 0) return false; o.s = SR(v);
        }
        push(o); return true;
      }
      case 14: {  // extract a 128/256-bit chunk
        if (P.mode == MODE_SSE) return false;
        o.opc = O_VEXTR;
        o.a = pick(KIND_V, 32); if (o.a < 0) return false;
        o.w2 = P.vals[o.a].size;
        o.w = (u8)(o.w2 == 64 && r.chance(1, 2) ? 32 : 16);
        if (dsz < o.w) return false;
        o.imm = (i64)r.below(o.w2 / o.w);
        if (o.w2 == 32) o.flag = (u8)Rng(r.s ^ 0xE87ull).below(2);   // vextracti128 / vextractf128
        push(o); return true;
      }
      case 15: {  // insert a chunk
        if (P.mode == MODE_SSE || dsz < 32) return false;
        o.opc = O_VINS; o.w = (u8)dsz;
        o.w2 = (u8)(dsz == 64 && r.chance(1, 2) ? 32 : 16);
        o.a = pick(KIND_V, dsz); if (o.a < 0) return false;
        if (r.chance(1, 4)) o.s = SM(gen_mem(o.w2, true));
        else { int v = pick(KIND_V, o.w2); if (v < 0) return false; o.s = SR(v); }
        o.imm = (i64)r.below(dsz / o.w2);
        if (dsz == 32) o.flag = (u8)Rng(r.s ^ 0x125ull).below(2);   // vinserti128 / vinsertf128
        push(o); return true;
      }
      case 16: {  // gp -> vector
        o.opc = O_VFROMG; o.w2 = (u8)((x32 || r.chance(1, 2)) ? 4 : 8); o.w = 16;
        o.s = r.chance(1, 4) ? SM(gen_mem(o.w2, true)) : Src();
        if (o.s.t == S_NONE) { int v = pickG(o.w2); if (v < 0) return false; o.s = SR(v); }
        push(o); return true;
      }
      case 17: {  // vector -> gp
        int k = (int)r.below(3);
        o.a = pick(KIND_V, 16); if (o.a < 0) return false;
        if (k == 0) {
          o.opc = O_VTOG; o.w2 = (u8)((x32 || r.chance(1, 2)) ? 4 : 8);
          o.d = pick_dst(o.w2, false); if (o.d < 0 || P.vals[o.d].size < o.w2) return false;
          if (!full_write(o.d, o.w2) && is_undefined_temp(o.d)) return false;
          push(o); if (full_write(o.d, o.w2)) defined(o.d);
          return true;
        }
        if (k == 1) {
          static const u8 es[] = { 1, 2, 4, 8 };
          o.opc = O_VPEXT; o.w2 = es[r.below(x32 ? 3 : 4)];
          o.imm = (i64)r.below(16 / o.w2);
          int dw = o.w2 == 8 ? 8 : 4;
          o.d = pick_dst(dw, false); if (o.d < 0 || P.vals[o.d].size < dw) return false;
          if (!full_write(o.d, dw) && is_undefined_temp(o.d)) return false;
          push(o); if (full_write(o.d, dw)) defined(o.d);
          return true;
        }
        o.opc = O_VMSKB;
        o.w = P.vals[o.a].size; if (o.w == 64) o.w = (u8)(r.chance(1, 2) ? 16 : 32);
        o.d = pick_dst(4, false); if (o.d < 0 || P.vals[o.d].size < 4) return false;
        if (!full_write(o.d, 4) && is_undefined_temp(o.d)) return false;
        push(o); if (full_write(o.d, 4)) defined(o.d);
        return true;
      }
      case 18: {  // pinsr
        static const u8 es[] = { 1, 2, 4, 8 };
        o.opc = O_VPINS; o.w = 16; o.w2 = es[r.below(x32 ? 3 : 4)];
        o.a = P.mode == MODE_SSE ? d : pick(KIND_V, 16);
        if (o.a < 0) return false;
        o.imm = (i64)r.below(16 / o.w2);
        if (r.chance(1, 4)) o.s = SM(gen_mem(o.w2, true));
        else { int v = pickG(o.w2); if (v < 0) return false; o.s = SR(v); }
        push(o); return true;
      }
      default: {  // vpternlog (AVX-512)
        if (P.mode != MODE_AVX512) return false;
        o.opc = O_VTERN; o.w = (u8)dsz; w = dsz;
        o.a = pick(KIND_V, dsz); if (o.a < 0) return false;
        o.s = vsrc(true); if (o.s.t == S_NONE) return false;
        if (r.chance(1, 4)) { o.a = d; o.s = SR(d); }
        o.imm = r.chance(1, 4) ? (r.chance(1, 2) ? 0xFF : 0x00) : (i64)r.below(256);
        if (o.s.t == S_REG && P.vals[o.s.v].size < dsz) return false;
        push(o); return true;
      }
    }
  }

  bool gen_mask() {
    if (P.mode != MODE_AVX512) return false;
    Op o;
    static const u8 ws[] = { 1, 2, 4, 8 };
    int kind = (int)r.below(17);
    switch (kind) {
      case 0: {
        o.opc = O_KFROMG; o.d = pick(KIND_K, 1); if (o.d < 0) return false;
        o.w = ws[r.below(4)]; if (o.w > P.vals[o.d].size) o.w = P.vals[o.d].size;
        if (x32 && o.w == 8) o.w = 4;
        o.a = pickG(o.w); if (o.a < 0) return false;
        push(o); return true;
      }
      case 1: {
        o.opc = O_KTOG; o.a = pick(KIND_K, 1); if (o.a < 0) return false;
        o.w = ws[r.below(4)]; if (o.w > P.vals[o.a].size) o.w = P.vals[o.a].size;
        if (x32 && o.w == 8) o.w = 4;
        if ((g_avoid_fwd & 16) && o.w == 2) o.w = 1;
        int dw = o.w == 8 ? 8 : 4;
        o.d = pick_dst(dw, false); if (o.d < 0 || P.vals[o.d].size < dw) return false;
        if (!full_write(o.d, dw) && is_undefined_temp(o.d)) return false;
        push(o); if (full_write(o.d, dw)) defined(o.d);
        return true;
      }
      case 2: {
        o.opc = O_KLOAD; o.d = pick(KIND_K, 1); if (o.d < 0) return false;
        o.w = P.vals[o.d].size; if (r.chance(1, 4)) o.w = ws[r.below(4)]; if (o.w > P.vals[o.d].size) o.w = P.vals[o.d].size;
        o.s = SM(gen_mem(o.w, true));
        if (o.s.m.idx >= 0) { o.s.m.idx = -1; o.s.m.shift = 0; }
        push(o); return true;
      }
      case 3: {
        o.opc = O_KSTORE; o.a = pick(KIND_K, 1); if (o.a < 0) return false;
        o.w = P.vals[o.a].size; if (r.chance(1, 4)) o.w = ws[r.below(4)]; if (o.w > P.vals[o.a].size) o.w = P.vals[o.a].size;
        o.s2 = SM(gen_mem(o.w, false));
        push(o); return true;
      }
      case 4: case 5: case 6: case 7: {
        o.d = pick(KIND_K, 1); if (o.d < 0) return false;
        int w = P.vals[o.d].size; if (r.chance(1, 4)) w = ws[r.below(4)]; if (w > P.vals[o.d].size) w = P.vals[o.d].size;
        o.w = (u8)w;
        o.a = r.chance(1, 6) ? o.d : pick(KIND_K, w); if (o.a < 0) return false;
        int k2 = (int)r.below(6);
        if (k2 < 3) { o.opc = O_KALU; o.sub = (u8)r.below(KA__N); o.b = r.chance(1, 6) ? o.a : pick(KIND_K, w); if (o.b < 0) return false; }
        else if (k2 == 3) o.opc = O_KNOT;
        else if (k2 == 4) { o.opc = O_KSHI; o.sub = (u8)r.below(2); o.imm = (i64)r.below(r.chance(1, 6) ? 200 : 8 * w); }
        else o.opc = O_KMOV;
        push(o); return true;
      }
      case 8: {
        o.opc = O_KSET; o.a = pick(KIND_K, 1); if (o.a < 0) return false;
        o.w = P.vals[o.a].size;
        o.b = pick(KIND_K, o.w); if (o.b < 0) return false;
        static const u8 ccs[] = { CC_E, CC_NE, CC_B, CC_AE };
        o.cc = ccs[r.below(4)];
        o.d = pick(KIND_G, 1); if (o.d < 0) return false;
        push(o); return true;
      }
      case 9: case 10: {  // masked vector op
        o.opc = O_VALUK;
        static const u8 subs[] = { VA_PADDD, VA_PADDQ, VA_PSUBD, VA_PSUBQ, VA_PXOR, VA_PAND, VA_POR, VA_PMULLD, VA_PMINUD, VA_PMAXSD };
        o.sub = subs[r.below(10)];
        o.d = pick(KIND_V, 16); if (o.d < 0) return false;
        o.w = P.vals[o.d].size;
        int n = o.w / (o.sub == VA_PADDQ || o.sub == VA_PSUBQ ? 8 : 4);
        if (P.phys_k && r.chance(1, 3)) { o.cc = (u8)P.phys_k; o.b = pickG(2); if (o.b < 0) return false; }
        else { o.c = pick(KIND_K, (n + 7) / 8); if (o.c < 0) return false; }
        o.a = pick(KIND_V, o.w); if (o.a < 0) return false;
        if (r.chance(1, 4)) o.s = SM(gen_mem(o.w, true));
        else { int v = pick(KIND_V, o.w); if (v < 0) return false; o.s = SR(v); }
        if (r.chance(1, 5)) { o.a = o.d; o.s = SR(o.d); }
        o.flag = (u8)r.chance(1, 3);
        push(o); return true;
      }
      case 16: {  // gather: dwords from the data area, indices derived from a vector value, the mask register is consumed
        if (g_avoid_fwd & 8192) return false;
        o.opc = O_VGATHER;
        o.d = pick(KIND_V, 16); if (o.d < 0) return false;
        o.w = P.vals[o.d].size;
        int n = o.w / 4;
        o.c = pick(KIND_K, (n + 7) / 8); if (o.c < 0) return false;
        int src = pick(KIND_V, o.w); if (src < 0 || P.vals.size() > 900) return false;
        int t = new_temp(KIND_V, (u8)o.w);
        Op sh; sh.opc = O_VSHI; sh.sub = VS_PSRLD; sh.w = (u8)o.w; sh.d = t; sh.a = src; sh.imm = 26;   // indices 0..63
        push(sh); def_temp(t);
        o.a = t;
        o.imm = (i64)r.below((DATA_SIZE - 4 - 63 * 4) / 4 + 1) * 4;
        push(o); return true;
      }
      case 14: case 15: {  // masked vpternlog (merge / zero masking, virtual or physical mask register)
        o.opc = O_VTERN;
        o.d = pick(KIND_V, 16); if (o.d < 0) return false;
        o.w = P.vals[o.d].size;
        int n = o.w / 4;
        if (P.phys_k && r.chance(1, 3)) { o.cc = (u8)P.phys_k; o.b = pickG(2); if (o.b < 0) return false; }
        else { o.c = pick(KIND_K, (n + 7) / 8); if (o.c < 0) return false; }
        if (r.chance(1, 2)) { o.a = o.d; o.s = SR(o.d); }
        else {
          o.a = pick(KIND_V, o.w); if (o.a < 0) return false;
          if (r.chance(1, 4)) o.s = SM(gen_mem(o.w, true));
          else { int v = pick(KIND_V, o.w); if (v < 0) return false; o.s = SR(v); }
        }
        o.imm = r.chance(1, 2) ? (r.chance(1, 2) ? 0xFF : 0x00) : (i64)r.below(256);
        if ((g_avoid_fwd & 1024) && (o.imm == 0xFF || o.imm == 0x00)) o.imm = 0x96;
        o.flag = (u8)r.chance(1, 3);
        push(o); return true;
      }
      case 11: {  // compare into mask
        o.opc = O_VCMPK;
        o.a = pick(KIND_V, 16); if (o.a < 0) return false;
        o.w = P.vals[o.a].size;
        int n = o.w / 4;
        o.d = pick(KIND_K, (n + 7) / 8); if (o.d < 0) return false;
        if (r.chance(1, 4)) o.s = SM(gen_mem(o.w, true));
        else { int v = pick(KIND_V, o.w); if (v < 0) return false; o.s = SR(v); }
        o.imm = (i64)r.below(8); o.flag = (u8)r.chance(1, 2);
        if (r.chance(1, 3)) { o.c = pick(KIND_K, (n + 7) / 8); }
        push(o); return true;
      }
      case 12: {
        o.opc = O_VM2V;
        o.d = pick(KIND_V, 16); if (o.d < 0) return false;
        o.w = P.vals[o.d].size;
        o.a = pick(KIND_K, (o.w / 4 + 7) / 8); if (o.a < 0) return false;
        push(o); return true;
      }
      default: {
        o.opc = O_V2M;
        o.a = pick(KIND_V, 16); if (o.a < 0) return false;
        o.w = P.vals[o.a].size;
        o.d = pick(KIND_K, (o.w / 4 + 7) / 8); if (o.d < 0) return false;
        push(o); return true;
      }
    }
  }

  bool gen_d() {
    Op o;
    switch (r.below(5)) {
      case 0: if (x32) return false; o.opc = O_DFROMG; o.d = pick(KIND_D, 8); o.a = pickG(8); if (o.d < 0 || o.a < 0) return false; push(o); return true;
      case 1: {
        if (x32) return false;
        o.opc = O_DTOG; o.a = pick(KIND_D, 8); if (o.a < 0) return false;
        o.d = pick_dst(8, false); if (o.d < 0 || P.vals[o.d].size < 8) return false;
        push(o); defined(o.d); return true;
      }
      case 2: o.opc = O_DLOAD; o.d = pick(KIND_D, 8); if (o.d < 0) return false; o.s = SM(gen_mem(8, true)); push(o); return true;
      case 3: o.opc = O_DSTORE; o.a = pick(KIND_D, 8); if (o.a < 0) return false; o.s2 = SM(gen_mem(8, false)); push(o); return true;
      default: o.opc = O_DMOV; o.d = pick(KIND_D, 8); o.a = pick(KIND_D, 8); if (o.d < 0 || o.a < 0) return false; push(o); return true;
    }
  }

  // immediates passed directly as invoke arguments (InvokeNode::set_arg(i, Imm)): boundary values of every width
  i64 gen_arg_imm() {
    static const u64 kB[] = { 0, 1, ~0ull, 0x7F, 0x80, 0xFF, 0x7FFF, 0x8000, 0xFFFF, 0x7FFFFFFFull, 0x80000000ull, 0xFFFFFFFFull, 0x100000000ull,
                              0x7FFFFFFFFFFFFFFFull, 0x8000000000000000ull, 0xFFFFFFFF80000000ull, 0xFFFFFFFF7FFFFFFFull, 0xFFFFFFFFull - 1, 0x80000001ull,
                              0xC0000000ull, 0xFFFF0000ull };
    const int n = (int)(sizeof(kB) / sizeof(kB[0]));
    int k = (int)r.below(n + 6);
    if (k < n) return (i64)kB[k];
    if (k < n + 2) return (i64)(r.next() & 0xFFFFFFFFull);          // 32-bit pattern, zero-extended
    if (k < n + 3) return (i64)(int32_t)r.next();                     // 32-bit pattern, sign-extended
    return (i64)r.next();
  }

  bool gen_call() {
    Op o; o.opc = O_CALL;
    bool haveD = pick(KIND_D, 8) >= 0;
    bool host = !x32 && !a64;
    for (int tries = 0; tries < 8; tries++) {
      bool big_bias = !strncmp(pf.name, "calls", 5) || !strncmp(pf.name, "x86-calls", 9) || !strncmp(pf.name, "a64-calls", 9);
      int id = (big_bias && r.chance(1, 2)) ? NCALLEE_OLD + (int)r.below(NCALLEE - NCALLEE_OLD) : (int)r.below(NCALLEE);
      // x86-64: ms_abi / variadic / vector / signed-stack-parameter helpers (side stream so that the classic choices stay as they were)
      if (host && r.chance(1, 4)) id = NCALLEE + (int)r.below(NCALLEE_ALL - NCALLEE);
      if (id == 38 && (g_avoid_fwd & 262144)) continue;   // Win64 vector argument (passed by reference) in a stack position: probe indirect-vector-argument-on-stack
      const CalleeSig& sg = g_sigs[id];
      bool ok = true;
      o.args.clear();
      int nd_seen = 0, ni_seen = sg.va ? 1 : 0;   // a variadic helper's named first argument (its id) takes the first integer position
      for (int k = 0; k < sg.n && ok; k++) {
        u8 kd = sg.kind[k];
        int pos = k + (sg.va ? 1 : 0);
        if (kd == AK_F64 || kd == AK_F32) {
          // an immediate is accepted for a floating-point argument only in a stack position (bit pattern)
          bool on_stack = x32 || (host && (sg.conv == CV_MS ? pos >= 4 : nd_seen >= 8));
          nd_seen++;
          if (on_stack && (!haveD || r.chance(1, 3))) { o.args.push_back(SI(gen_arg_imm())); continue; }
          if (!haveD) { ok = false; break; }
          o.args.push_back(SR(pick(KIND_D, 8)));
        }
        else if (kd == AK_V128) {
          int v = pick(KIND_V, 16);
          if (v < 0) { ok = false; break; }
          o.args.push_back(SR(v));
        }
        else {
          int aw = ak_width(kd);
          // stack positions take virtual registers of ANY width (extended by the call lowering); register positions are assigned as they are
          bool on_stack = x32 || (host && (sg.conv == CV_MS ? pos >= 4 : ni_seen >= 6));
          ni_seen++;
          int v = (x32 && aw == 8) ? -1 : ((on_stack && !a64 && r.chance(1, 2)) ? pickG(1) : pickG(aw));
          if (v >= 0 && x32 && P.vals[v].size < aw && aw == 8) v = -1;
          if (v < 0 || r.chance(1, 3)) {
            o.args.push_back(SI(gen_arg_imm()));
          }
          else o.args.push_back(SR(v));
        }
      }
      if (!ok) continue;
      o.imm = id;
      o.d = -1;
      // call target: immediate address, virtual register, memory operand (pointer table behind the argument buffer)
      o.sub = (u8)(a64 ? 0 : (r.chance(1, 3) ? 1 + r.below(2) : 0));
      if (sg.va && (g_avoid_fwd & 131072)) o.sub = 0;   // variadic call through a register / memory operand: probe variadic-call-target-register
      if (sg.ret != RK_VOID && r.chance(3, 4)) {
        if (sg.ret == RK_F64) o.d = pick(KIND_D, 8);
        else if (sg.ret == RK_U64) o.d = x32 ? -1 : pick(KIND_G, 0, 64, 8);
        else if (sg.ret == RK_V128) o.d = pick(KIND_V, 0, 64, 16);
        else o.d = pick(KIND_G, 0, 64, 4);
        if (o.d >= 0 && is_undefined_temp(o.d)) { }
      }
      // x86-32: the ST0 result of a call whose return operand is not assigned stays on the x87 stack (probe x87-return-value-not-popped)
      if (x32 && (g_avoid_fwd & 65536) && sg.ret == RK_F64 && o.d < 0) { o.d = pick(KIND_D, 8); if (o.d < 0) continue; }
      push(o);
      if (o.d >= 0) defined(o.d);
      return true;
    }
    return false;
  }

  void gen_ops(int n) {
    int wsum = pf.w_basic + pf.w_fixed + pf.w_partial + pf.w_mem + pf.w_vec + pf.w_mask + pf.w_d + pf.w_call;
    for (int i = 0; i < n; i++) {
      for (int tries = 0; tries < 6; tries++) {
        int k = (int)r.below(wsum);
        bool ok;
        if ((k -= pf.w_basic) < 0) ok = gen_basic(false);
        else if ((k -= pf.w_fixed) < 0) ok = gen_fixed();
        else if ((k -= pf.w_partial) < 0) ok = gen_basic(true);
        else if ((k -= pf.w_mem) < 0) ok = gen_memop();
        else if ((k -= pf.w_vec) < 0) ok = gen_vec();
        else if ((k -= pf.w_mask) < 0) ok = gen_mask();
        else if ((k -= pf.w_d) < 0) ok = gen_d();
        else ok = gen_call();
        if (ok) break;
      }
    }
  }

  int new_block() {
    P.blocks.emplace_back();
    cur = &P.blocks.back();
    temps.clear(); ptr_off.clear();
    return (int)P.blocks.size() - 1;
  }
  void fill_block(int bi) {
    cur = &P.blocks[bi];
    temps.clear(); ptr_off.clear();
    gen_ops((int)r.range(pf.ops_lo, pf.ops_hi));
  }

  void gen_cond(Term& t) {
    t.kind = T_BR;
    t.w = (u8)pick_w();
    t.cc = (u8)r.below(CC__N);
    t.test = (u8)(a64 ? 0 : r.chance(1, 4));
    t.a = pickG(t.w);
    if (t.a < 0) { t.w = 4; t.a = P.fuel; }
    t.s = gen_src(t.w, t.a, false);
    if (t.s.t == S_NONE) t.s = SI(0);
    // branches that read a register themselves: x86 jecxz (fixed ecx), a64 cbz / cbnz / tbz / tbnz
    Rng q(r.s ^ 0xB7A9C5ull);
    if (t.a != P.fuel && q.chance(1, 6)) {
      if (a64) { t.test = (u8)(q.chance(1, 2) ? 2 : 3); t.cc = (u8)(q.chance(1, 2) ? CC_E : CC_NE); t.s = SI((i64)q.below(8 * t.w)); }
      else if (t.w >= 4) { t.test = 2; t.cc = (u8)(q.chance(1, 2) ? CC_E : CC_NE); t.s = SI(0); }
    }
  }

  // structured regions; blocks are laid out in generation order
  int budget = 0;
  void gen_region(int depth) {
    int items = (int)r.range(1, 3);
    for (int it = 0; it < items; it++) {
      if (budget <= 0) break;
      int k = (int)r.below(9 + pf.w_switch);
      if (depth >= 3 || budget < 3) k = 0;
      if (k < 3) { int b = new_block(); budget--; fill_block(b); }
      else if (k < 5) {  // if-then
        int c = new_block(); budget--; fill_block(c);
        gen_cond(P.blocks[c].term);
        gen_region(depth + 1);
        int join = (int)P.blocks.size();
        P.blocks[c].term.target = join;
        int j = new_block(); budget--; fill_block(j);
      }
      else if (k < 7) {  // if-else
        int c = new_block(); budget--; fill_block(c);
        gen_cond(P.blocks[c].term);
        gen_region(depth + 1);
        int e = new_block(); budget--;  // end of the then-part: jump over the else-part
        P.blocks[e].term.kind = T_JMP;
        P.blocks[c].term.target = (int)P.blocks.size();
        gen_region(depth + 1);
        if ((int)P.blocks.size() == P.blocks[c].term.target) { int b = new_block(); budget--; fill_block(b); }
        P.blocks[e].term.target = (int)P.blocks.size();
        int j = new_block(); budget--; fill_block(j);
      }
      else if (k < 9) {  // counted loop
        int pre = new_block(); budget--; fill_block(pre);
        int cnt = new_val(KIND_G, 4, false, r.chance(1, 2));
        init_counter.push_back(cnt);
        Op o; o.opc = O_MOV; o.w = 4; o.d = cnt; o.s = SI((i64)r.range(1, 4));
        P.blocks[pre].ops.push_back(o);
        int head = (int)P.blocks.size();
        gen_region(depth + 1);
        if ((int)P.blocks.size() == head) { int b = new_block(); budget--; fill_block(b); }
        int latch = new_block(); budget--; fill_block(latch);
        Term& t = P.blocks[latch].term;
        t.kind = T_DEC; t.a = cnt; t.w = 4; t.target = head;
        if (!a64 && Rng(r.s ^ 0x100Bull).chance(1, 4)) t.test = 2;   // x86 loop instruction
      }
      else {  // switch through an annotated jump table
        int s = new_block(); budget--; fill_block(s);
        int n = r.chance(1, 2) ? 2 : 4;
        std::vector<int> starts, ends;
        int ncase = (int)r.range(2, n);
        for (int c = 0; c < ncase; c++) {
          starts.push_back((int)P.blocks.size());
          int b = new_block(); budget--; fill_block(b);
          if (depth < 2 && r.chance(1, 3)) gen_region(depth + 2);
          int e = new_block(); budget--;
          P.blocks[e].term.kind = T_JMP;
          ends.push_back(e);
        }
        int join = (int)P.blocks.size();
        int j = new_block(); budget--; fill_block(j);
        for (int e : ends) P.blocks[e].term.target = join;
        Term& t = P.blocks[s].term;
        t.kind = T_SWITCH; t.w = 4;
        cur = &P.blocks[s]; temps.clear();
        t.a = pickG(4); if (t.a < 0) t.a = P.fuel;
        for (int i = 0; i < n; i++) t.targets.push_back(i < ncase ? starts[i] : (r.chance(1, 3) ? join : starts[r.below(ncase)]));
      }
    }
  }
  std::vector<int> init_counter;
};

static void compute_fuel_flags(Program& P) {
  int nb = (int)P.blocks.size();
  for (auto& b : P.blocks) b.fuel = false;
  for (int bi = 0; bi < nb; bi++) {
    const Term& t = P.blocks[bi].term;
    auto mark = [&](int tgt) { if (tgt <= bi && tgt >= 1 && tgt < nb - 1) P.blocks[tgt].fuel = true; };
    if (t.kind == T_JMP || t.kind == T_BR || t.kind == T_DEC) mark(t.target);
    if (t.kind == T_SWITCH) for (int x : t.targets) mark(x);
  }
}

// removes blocks that cannot be reached from the entry (renumbers targets)
static int prune_unreachable(Program& P) {
  int nb = (int)P.blocks.size();
  std::vector<char> reach(nb, 0);
  std::vector<int> work(1, 0), succ;
  reach[0] = 1;
  while (!work.empty()) {
    int b = work.back(); work.pop_back();
    block_succ(P, b, succ);
    for (int s : succ) if (s >= 0 && s < nb && !reach[s]) { reach[s] = 1; work.push_back(s); }
  }
  reach[nb - 1] = 1;
  std::vector<int> remap(nb, -1);
  std::vector<Block> nbk;
  int removed = 0;
  for (int i = 0; i < nb; i++) {
    if (reach[i]) { remap[i] = (int)nbk.size(); nbk.push_back(P.blocks[i]); } else removed++;
  }
  if (!removed) return 0;
  for (Block& b : nbk) {
    if (b.term.target >= 0) b.term.target = remap[b.term.target];
    for (int& t : b.term.targets) t = remap[t];
  }
  P.blocks.swap(nbk);
  return removed;
}

// shape: body block terminators given as a list of (kind, target) for systematic CFG enumeration
struct ShapeSpec { int n; int kind[5]; int target[5]; };

static bool decode_shape(u64 idx, ShapeSpec& sp) {
  // enumerates n = 1..5 ; per block one of: FALL, JMP j (j in 1..n), BR j (j in 1..n)
  for (int n = 1; n <= 5; n++) {
    u64 per = 1 + 2 * (u64)n;
    u64 cnt = 1;
    for (int i = 0; i < n; i++) cnt *= per;
    if (idx < cnt) {
      sp.n = n;
      for (int i = 0; i < n; i++) {
        u64 c = idx % per; idx /= per;
        if (c == 0) { sp.kind[i] = T_FALL; sp.target[i] = 0; }
        else if (c <= (u64)n) { sp.kind[i] = T_JMP; sp.target[i] = (int)c; }
        else { sp.kind[i] = T_BR; sp.target[i] = (int)(c - n); }
      }
      return true;
    }
    idx -= cnt;
  }
  return false;
}
static u64 shape_count() {
  u64 tot = 0;
  for (int n = 1; n <= 5; n++) { u64 c = 1; for (int i = 0; i < n; i++) c *= 1 + 2 * (u64)n; tot += c; }
  return tot;
}

static bool g_keep_unreachable = true;
// constructs the generator avoids (set by the Python side when the corresponding probe shows a defect)
enum : u32 { AV_CMPXCHG = 1, AV_SAMEREG_NARROW = 2, AV_RMW32_ON64 = 4, AV_HI8 = 8, AV_KMOVW_TOG = 16, AV_VECARG_AVX512 = 32, AV_OR_MEM_M1 = 64, AV_AND_ZERO = 128, AV_A64_TBL_MULTI = 256, AV_SAMEREG_NARROW_VEC = 512, AV_TERN_MASKED = 1024, AV_HINT_VIEWS = 2048, AV_BT_REGIDX = 4096, AV_GATHER = 8192, AV_NARROW_PARAM_WIDE_VREG = 16384, AV_A64_LR = 32768, AV_X87_LEAK = 65536, AV_VA_TARGET = 131072, AV_INDIRECT_VEC_STACK = 262144, AV_A64_LANE_LIST = 524288, AV_A64_HELEM = 1048576 };
u32 g_avoid_fwd = 0;
#define g_avoid g_avoid_fwd

static Program gen_program(Rng& r, const Profile& pf, i64 shape_idx) {
  Program P;
  P.arch = pf.arch; P.mode = pf.mode; P.profile = pf.name;
  Gen g(r, P, pf);
  bool x32 = pf.arch == ARCH_X86, a64 = pf.arch == ARCH_A64;

  // ---- values ----
  P.fuel = g.new_val(KIND_G, 4, false, r.chance(1, 2));
  int ng = (int)r.range(pf.ng_lo, pf.ng_hi), nv = (int)r.range(pf.nv_lo, pf.nv_hi);
  int nk = (int)r.range(pf.nk_lo, pf.nk_hi), nd = (int)r.range(pf.nd_lo, pf.nd_hi);
  for (int i = 0; i < ng; i++) {
    static const u8 szs[] = { 1, 2, 4, 4, 8, 8, 8, 4 };
    u8 sz = szs[r.below(8)];
    if (x32 && sz == 8) sz = 4;
    if (a64 && sz < 4) sz = 4;
    int vi = g.new_val(KIND_G, sz, false, r.chance(3, 4));
    // a quarter of the general purpose registers get a signed type id (matters when a narrower one is extended for a parameter)
    if (!a64 && Rng(r.s ^ 0x51A7EDull).chance(1, 4)) P.vals[vi].sgn = 1;
  }
  for (int i = 0; i < nv; i++) {
    u8 sz = 16;
    if (P.mode == MODE_AVX) sz = r.chance(1, 2) ? 32 : 16;
    if (P.mode == MODE_AVX512) sz = r.chance(1, 2) ? 64 : (r.chance(1, 2) ? 32 : 16);
    g.new_val(KIND_V, sz, false, r.chance(3, 4));
  }
  for (int i = 0; i < nk; i++) {
    static const u8 szs[] = { 8, 8, 8, 4, 2, 2, 1, 8 };
    g.new_val(KIND_K, szs[r.below(8)], false, r.chance(3, 4));
  }
  for (int i = 0; i < nd; i++) g.new_val(KIND_D, 8, false, r.chance(3, 4));
  P.use_stack = !a64 && (int)r.below(100) < pf.stack_pct;
  P.sigclass = (u8)r.below(3);
  if (r.chance(1, 3)) P.sigclass = (u8)(3 + r.below(a64 ? 3 : 4));   // many parameters: most of them arrive on the stack (a64: 32/64-bit parameters only)
  P.preserved_fp = !a64 && r.chance(1, 4);
  P.cconv = (u8)r.below(4);
  P.fuel_init = (int)r.range(6, 40);
  if (P.mode == MODE_AVX512 && !x32 && r.chance(1, 2)) P.phys_k = (int)r.range(1, 7);

  // ---- entry block ----
  int entry = g.new_block();
  const SigClass& sc = kSigClasses[P.sigclass];
  P.argbind.assign(sc.ni + sc.nd, -1);
  // many narrow integer parameters, all live on entry (more than there are registers), bound to equal or wider virtual registers
  if (!a64 && sc.ni >= 14 && r.chance(1, 2)) {
    for (int a = 0; a < sc.ni && P.vals.size() < 240; a++) {
      int ps = psize(sc.isz[a]);
      if (x32 && ps == 8) continue;
      if ((g_avoid_fwd & 16384) && ps < 4) continue;
      int vs = ps;
      if (!(g_avoid_fwd & 16384) && r.chance(1, 2)) { vs = x32 ? 4 : (r.chance(2, 3) ? 8 : 4); if (vs < ps) vs = ps; }
      int vi = g.new_val(KIND_G, (u8)vs, false, true);
      P.vals[vi].sgn = psigned(sc.isz[a]);
      P.argbind[a] = vi;
    }
  }
  // double parameters bound to a 128-bit virtual register (wider than the parameter): a stack-passed one cannot use the caller's slot as its home
  if (!a64 && sc.nd > 0 && !((g_avoid_fwd & 32) && P.mode == MODE_AVX512)) {
    for (int a = sc.nd - 1; a >= 0 && P.vals.size() < 240; a--) {
      if (!r.chance(a >= 8 || x32 ? 1 : 0, 2) && !r.chance(1, 8)) continue;
      int vi = g.new_val(KIND_V, 16, false, true);
      P.vals[vi].half = 1;
      P.argbind[sc.ni + a] = vi;
    }
    // sometimes every double parameter is live on entry: more parameters than vector registers, so some stay on / move within the stack
    if (sc.nd >= 10 && r.chance(1, 2)) {
      for (int a = 0; a < sc.nd && P.vals.size() < 250; a++) {
        if (P.argbind[sc.ni + a] >= 0) continue;
        P.argbind[sc.ni + a] = g.new_val(KIND_D, 8, false, true);
      }
    }
  }
  {
    Block& b = P.blocks[entry];
    Op o; o.opc = O_MOV; o.w = 4; o.d = P.fuel; o.s = SI(P.fuel_init); b.ops.push_back(o);
    std::vector<int> order;
    for (int i = 1; i < (int)P.vals.size(); i++) order.push_back(i);
    for (int i = (int)order.size() - 1; i > 0; i--) std::swap(order[i], order[r.below(i + 1)]);
    for (int vi : order) {
      const ValDef& d = P.vals[vi];
      Op q;
      if (d.half) continue;   // bound to a parameter above
      if (std::find(P.argbind.begin(), P.argbind.end(), vi) != P.argbind.end()) continue;
      if (d.kind == KIND_G) {
        // function argument?
        bool bound = false;
        if (r.chance(1, 3)) {
          bool wider_ok = r.chance(1, 2) && !(g_avoid_fwd & 16384);
          for (int a = 0; a < sc.ni; a++) {
            int ps = psize(sc.isz[a]);
            if (P.argbind[a] >= 0 || !(ps == d.size || (wider_ok && ps < d.size))) continue;
            if (x32 && ps == 8) continue;
            if ((g_avoid_fwd & 16384) && ps < 4) continue;
            P.argbind[a] = vi; P.vals[vi].sgn = psigned(sc.isz[a]); bound = true; break;
          }
        }
        if (bound) continue;
        q.opc = O_MOV; q.w = d.size; q.d = vi;
        if (r.chance(1, 4)) { q.s = SI(g.gen_imm(d.size)); if (d.size == 8 && r.chance(1, 2)) q.s.imm = (i64)r.next(); }
        else { MemRef m; m.off = (int)r.below(DATA_SIZE / 8) * 8; q.s = SM(m); }
      }
      else if (d.kind == KIND_V) { q.opc = O_VMOV; q.w = d.size; q.d = vi; MemRef m; m.off = (int)r.below((DATA_SIZE - d.size) / 16 + 1) * 16; q.s = SM(m); }
      else if (d.kind == KIND_K) { q.opc = O_KLOAD; q.w = d.size; q.d = vi; MemRef m; m.off = (int)r.below(DATA_SIZE / 8) * 8; q.s = SM(m); }
      else {
        bool bound = false;
        if (r.chance(1, 2) && !((g_avoid_fwd & 32) && P.mode == MODE_AVX512)) for (int a = 0; a < sc.nd; a++) if (P.argbind[sc.ni + a] < 0 && r.chance(1, 2)) { P.argbind[sc.ni + a] = vi; bound = true; break; }
        if (bound) continue;
        q.opc = O_DLOAD; q.d = vi; MemRef m; m.off = (int)r.below(DATA_SIZE / 8) * 8; q.s = SM(m);
      }
      b.ops.push_back(q);
    }
    if (P.use_stack) {
      int cw = x32 ? 4 : 8;
      for (int off = 0; off < STK_SIZE; off += cw) {
        Op s; s.opc = O_STORE; s.w = (u8)cw; s.s = SI((i64)(int32_t)r.next()); MemRef m; m.space = M_STK; m.off = off; s.s2 = SM(m);
        b.ops.push_back(s);
      }
    }
  }

  // ---- body ----
  if (shape_idx >= 0) {
    ShapeSpec sp;
    decode_shape((u64)shape_idx, sp);
    char nm[64]; snprintf(nm, sizeof nm, "shape:%lld", (long long)shape_idx); P.shape = nm;
    int first = (int)P.blocks.size();
    for (int i = 0; i < sp.n; i++) { int b = g.new_block(); g.fill_block(b); }
    for (int i = 0; i < sp.n; i++) {
      Term& t = P.blocks[first + i].term;
      g.cur = &P.blocks[first + i]; g.temps.clear();
      if (sp.kind[i] == T_JMP) { t.kind = T_JMP; t.target = first + sp.target[i] - 1; }
      else if (sp.kind[i] == T_BR) { g.gen_cond(t); t.target = first + sp.target[i] - 1; }
    }
  }
  else {
    g.budget = (int)r.range(pf.blocks_lo, pf.blocks_hi);
    while (g.budget > 0) g.gen_region(0);
    // extra edges (possibly irreducible)
    int nb = (int)P.blocks.size();
    int extra = (int)r.below(3);
    for (int e = 0; e < extra && nb > 2; e++) {
      int b = 1 + (int)r.below(nb - 1);
      if (P.blocks[b].term.kind != T_FALL) continue;
      g.cur = &P.blocks[b]; g.temps.clear();
      g.gen_cond(P.blocks[b].term);
      P.blocks[b].term.target = 1 + (int)r.below(nb);  // may be the final block (index nb)
    }
    P.shape = "random";
    // early returns: some unconditional jumps become "ret" in the middle of the function
    for (size_t b = 1; b < P.blocks.size(); b++)
      if (P.blocks[b].term.kind == T_JMP && r.chance(1, 8)) { P.blocks[b].term = Term(); P.blocks[b].term.kind = T_RET; }
  }
  // data embedded inside the function: behind unconditional jumps, annotated jumps and non-final rets
  for (size_t b = 1; b < P.blocks.size(); b++) {
    u8 k = P.blocks[b].term.kind;
    if ((k == T_JMP || k == T_RET || k == T_SWITCH) && r.chance(1, 6)) { P.blocks[b].data_after = (u8)r.range(1, 6); P.blocks[b].data_kind = (u8)r.below(2); }
  }
  P.tables_inside = r.chance(1, 2);
  for (int c : g.init_counter) {
    Op o; o.opc = O_MOV; o.w = 4; o.d = c; o.s = SI(1);
    P.blocks[entry].ops.push_back(o);
  }

  // ---- final block: dump + ret ----
  int fin = g.new_block();
  {
    Block& b = P.blocks[fin];
    for (int vi = 0; vi < (int)P.vals.size(); vi++) {
      const ValDef& d = P.vals[vi];
      if (d.local || !d.dumped || vi >= MAX_VALS) continue;
      Op q; MemRef m; m.off = DUMP_OFF + vi * 64;
      if (d.kind == KIND_G) { q.opc = O_STORE; q.w = d.size; q.s = SR(vi); q.s2 = SM(m); }
      else if (d.kind == KIND_V && d.half) { q.opc = O_DSTORE; q.a = vi; q.s2 = SM(m); }
      else if (d.kind == KIND_V) { q.opc = O_VSTORE; q.w = d.size; q.a = vi; q.s2 = SM(m); }
      else if (d.kind == KIND_K) { q.opc = O_KSTORE; q.w = d.size; q.a = vi; q.s2 = SM(m); }
      else { q.opc = O_DSTORE; q.a = vi; q.s2 = SM(m); }
      b.ops.push_back(q);
    }
    b.term.kind = T_RET;
    if (r.chance(1, 4)) { b.data_after = (u8)r.range(1, 8); b.data_kind = (u8)r.below(2); }   // data between the final ret and end_func()
    // return value
    g.cur = &b; g.temps.clear();
    int rv = -1;
    if (r.chance(1, 5) && !a64) rv = g.pick(KIND_D, 8);
    if (rv < 0) rv = g.pick(KIND_G, x32 ? 1 : 1);
    if (rv < 0) rv = P.fuel;
    P.retval = rv;
  }
  // targets that point past the body go to the final block
  for (auto& b : P.blocks) {
    if (b.term.target >= fin) b.term.target = fin;
    for (int& t : b.term.targets) if (t >= fin) t = fin;
  }
  compute_fuel_flags(P);
  if (!g_keep_unreachable) {
    // pruning can only remove retreating edges, never add them; recompute the fuel checks afterwards
    while (prune_unreachable(P)) compute_fuel_flags(P);
  }
  return P;
}

// ---------------------------------------------------------------------------------------------------------------
// Serialisation (witnesses)
// ---------------------------------------------------------------------------------------------------------------

static std::string fmt_mem(const MemRef& m) {
  char b[96];
  const char* sp = m.space == M_BUF ? "buf" : m.space == M_STK ? "stk" : "const";
  if (m.idx >= 0) snprintf(b, sizeof b, "[%s+v%d<<%d+%d]", sp, m.idx, m.shift, m.off);
  else snprintf(b, sizeof b, "[%s+%d]", sp, m.off);
  return b;
}
static std::string fmt_src(const Src& s) {
  char b[64];
  switch (s.t) {
    case S_REG: snprintf(b, sizeof b, "v%d", s.v); return b;
    case S_IMM: snprintf(b, sizeof b, "#%lld", (long long)s.imm); return b;
    case S_MEM: return fmt_mem(s.m);
    default: return "-";
  }
}
static std::string fmt_op(const Op& o) {
  char b[256];
  snprintf(b, sizeof b, "%s.%d w=%d w2=%d cc=%d f=%d d=%d d2=%d a=%d b=%d c=%d imm=%lld s=%s s2=%s",
           kOpNames[o.opc], o.sub, o.w, o.w2, o.cc, o.flag, o.d, o.d2, o.a, o.b, o.c, (long long)o.imm,
           fmt_src(o.s).c_str(), fmt_src(o.s2).c_str());
  std::string r = b;
  if (!o.args.empty()) { r += " args="; for (const Src& a : o.args) r += fmt_src(a) + ","; }
  return r;
}
static std::string serialise(const Program& P) {
  std::string s;
  char b[256];
  static const char* archs[] = { "x64", "x86", "a64" };
  snprintf(b, sizeof b, "program arch=%s mode=%d profile=%s shape=%s sig=%d cconv=%d ret=v%d fuel=v%d stack=%d physk=%d fp=%d tabin=%d\n", archs[P.arch], P.mode,
           P.profile.c_str(), P.shape.c_str(), P.sigclass, P.cconv, P.retval, P.fuel, (int)P.use_stack, P.phys_k, (int)P.preserved_fp, (int)P.tables_inside);
  s += b;
  s += "vals:";
  for (size_t i = 0; i < P.vals.size(); i++) {
    const ValDef& d = P.vals[i];
    snprintf(b, sizeof b, " v%zu=%c%d%s%s", i, "gvdk"[d.kind], d.size * 8, d.half ? "h" : (d.ptr ? "p" : (d.local ? "t" : (d.sgn ? "s" : ""))), d.dumped ? "*" : "");
    s += b;
  }
  s += "\nargs:";
  for (size_t i = 0; i < P.argbind.size(); i++) { snprintf(b, sizeof b, " a%zu=v%d", i, P.argbind[i]); s += b; }
  s += "\n";
  for (size_t bi = 0; bi < P.blocks.size(); bi++) {
    const Block& bl = P.blocks[bi];
    snprintf(b, sizeof b, "B%zu%s%s:\n", bi, bl.fuel ? " (fuel)" : "", bl.data_after ? (bl.data_kind ? " (+random data after)" : " (+trap data after)") : "");
    s += b;
    for (const Op& o : bl.ops) { s += "  "; s += fmt_op(o); s += "\n"; }
    const Term& t = bl.term;
    static const char* tk[] = { "fall", "jmp", "br", "dec", "switch", "ret" };
    snprintf(b, sizeof b, "  -> %s cc=%d w=%d test=%d a=v%d s=%s target=B%d", tk[t.kind], t.cc, t.w, t.test, t.a, fmt_src(t.s).c_str(), t.target);
    s += b;
    for (int x : t.targets) { snprintf(b, sizeof b, " B%d", x); s += b; }
    s += "\n";
  }
  return s;
}

static u64 program_hash(const Program& P) {
  std::string s = serialise(P);
  return fnv1a(s.data(), s.size());
}

// ---------------------------------------------------------------------------------------------------------------
// x86 / x86-64 emitter: builds the program through x86::Compiler exactly as a user would
// ---------------------------------------------------------------------------------------------------------------

class ErrH : public ErrorHandler {
public:
  Error err = Error::kOk;
  std::string msg;
  void handle_error(Error e, const char* m, BaseEmitter*) override {
    if (err == Error::kOk) { err = e; msg = m ? m : ""; }
  }
};

struct DataRange { Label lab; int size; bool inside; };

struct EmitStats {
  int loads = 0, saves = 0, moves = 0, swaps = 0, rm_subst = 0;
  int user_insts = 0;
  bool nontrivial() const { return loads + saves + moves + swaps + rm_subst > 0; }
};

struct NodeRec { BaseNode* node; u32 optypes; InstId inst_id; };
// user instructions whose instruction id was changed by the allocator's rewrite step (x86: VEX form -> EVEX form because a register 16..31 / a mask was assigned)
static std::map<std::pair<u32, u32>, u64> g_id_rewrites;

static inline u32 optypes_of(const InstNode* n) {
  u32 t = 0;
  size_t c = n->op_count();
  for (size_t i = 0; i < c && i < 6; i++) t |= (u32(n->op(i).op_type()) & 7u) << (4 * i);
  return t;
}

static void collect_ra_stats(BaseBuilder& cb, const std::vector<NodeRec>& recs, EmitStats& st, BaseNode* from = nullptr, BaseNode* to = nullptr) {
  for (BaseNode* n = from ? from : cb.first_node(); n && n != to; n = n->next()) {
    if (!n->is_inst()) continue;
    const char* c = n->inline_comment();
    if (!c) continue;
    if (!strncmp(c, "<LOAD>", 6)) st.loads++;
    else if (!strncmp(c, "<SAVE>", 6)) st.saves++;
    else if (!strncmp(c, "<MOVE>", 6)) st.moves++;
    else if (!strncmp(c, "<SWAP>", 6)) st.swaps++;
  }
  for (const NodeRec& r : recs) {
    if (!r.node->is_inst()) continue;
    u32 now = optypes_of(r.node->as<InstNode>());
    if (r.node->as<InstNode>()->inst_id() != r.inst_id) g_id_rewrites[std::make_pair((u32)r.inst_id, (u32)r.node->as<InstNode>()->inst_id())]++;
    for (int i = 0; i < 6; i++) {
      u32 a = (r.optypes >> (4 * i)) & 7, b = (now >> (4 * i)) & 7;
      if (a == u32(OperandType::kReg) && b == u32(OperandType::kMem)) st.rm_subst++;
    }
  }
}

static const InstId kJcc[CC__N] = { x86::Inst::kIdJe, x86::Inst::kIdJne, x86::Inst::kIdJb, x86::Inst::kIdJae, x86::Inst::kIdJbe,
  x86::Inst::kIdJa, x86::Inst::kIdJl, x86::Inst::kIdJge, x86::Inst::kIdJle, x86::Inst::kIdJg, x86::Inst::kIdJs, x86::Inst::kIdJns };
static const InstId kSetcc[CC__N] = { x86::Inst::kIdSete, x86::Inst::kIdSetne, x86::Inst::kIdSetb, x86::Inst::kIdSetae, x86::Inst::kIdSetbe,
  x86::Inst::kIdSeta, x86::Inst::kIdSetl, x86::Inst::kIdSetge, x86::Inst::kIdSetle, x86::Inst::kIdSetg, x86::Inst::kIdSets, x86::Inst::kIdSetns };
static const InstId kCmovcc[CC__N] = { x86::Inst::kIdCmove, x86::Inst::kIdCmovne, x86::Inst::kIdCmovb, x86::Inst::kIdCmovae, x86::Inst::kIdCmovbe,
  x86::Inst::kIdCmova, x86::Inst::kIdCmovl, x86::Inst::kIdCmovge, x86::Inst::kIdCmovle, x86::Inst::kIdCmovg, x86::Inst::kIdCmovs, x86::Inst::kIdCmovns };

struct VAluIds { InstId sse, avx, evex; };
static const VAluIds kVAlu[VA__N] = {
  { x86::Inst::kIdPaddb, x86::Inst::kIdVpaddb, x86::Inst::kIdVpaddb }, { x86::Inst::kIdPaddw, x86::Inst::kIdVpaddw, x86::Inst::kIdVpaddw },
  { x86::Inst::kIdPaddd, x86::Inst::kIdVpaddd, x86::Inst::kIdVpaddd }, { x86::Inst::kIdPaddq, x86::Inst::kIdVpaddq, x86::Inst::kIdVpaddq },
  { x86::Inst::kIdPsubb, x86::Inst::kIdVpsubb, x86::Inst::kIdVpsubb }, { x86::Inst::kIdPsubw, x86::Inst::kIdVpsubw, x86::Inst::kIdVpsubw },
  { x86::Inst::kIdPsubd, x86::Inst::kIdVpsubd, x86::Inst::kIdVpsubd }, { x86::Inst::kIdPsubq, x86::Inst::kIdVpsubq, x86::Inst::kIdVpsubq },
  { x86::Inst::kIdPxor, x86::Inst::kIdVpxor, x86::Inst::kIdVpxord }, { x86::Inst::kIdPand, x86::Inst::kIdVpand, x86::Inst::kIdVpandd },
  { x86::Inst::kIdPor, x86::Inst::kIdVpor, x86::Inst::kIdVpord }, { x86::Inst::kIdPandn, x86::Inst::kIdVpandn, x86::Inst::kIdVpandnd },
  { x86::Inst::kIdPmulld, x86::Inst::kIdVpmulld, x86::Inst::kIdVpmulld }, { x86::Inst::kIdPmullw, x86::Inst::kIdVpmullw, x86::Inst::kIdVpmullw },
  { x86::Inst::kIdPminud, x86::Inst::kIdVpminud, x86::Inst::kIdVpminud }, { x86::Inst::kIdPmaxsd, x86::Inst::kIdVpmaxsd, x86::Inst::kIdVpmaxsd },
  { x86::Inst::kIdPminub, x86::Inst::kIdVpminub, x86::Inst::kIdVpminub }, { x86::Inst::kIdPmaxsw, x86::Inst::kIdVpmaxsw, x86::Inst::kIdVpmaxsw },
  { x86::Inst::kIdPcmpeqd, x86::Inst::kIdVpcmpeqd, 0 }, { x86::Inst::kIdPcmpgtd, x86::Inst::kIdVpcmpgtd, 0 },
  { x86::Inst::kIdPcmpeqb, x86::Inst::kIdVpcmpeqb, 0 }, { x86::Inst::kIdPunpckldq, x86::Inst::kIdVpunpckldq, x86::Inst::kIdVpunpckldq },
  { x86::Inst::kIdPunpckhqdq, x86::Inst::kIdVpunpckhqdq, x86::Inst::kIdVpunpckhqdq }, { x86::Inst::kIdPshufb, x86::Inst::kIdVpshufb, x86::Inst::kIdVpshufb },
  { x86::Inst::kIdPavgb, x86::Inst::kIdVpavgb, x86::Inst::kIdVpavgb }, { x86::Inst::kIdPaddusb, x86::Inst::kIdVpaddusb, x86::Inst::kIdVpaddusb },
};
static const InstId kVShiSse[VS__N] = { x86::Inst::kIdPsllw, x86::Inst::kIdPslld, x86::Inst::kIdPsllq, x86::Inst::kIdPsrlw, x86::Inst::kIdPsrld,
  x86::Inst::kIdPsrlq, x86::Inst::kIdPsraw, x86::Inst::kIdPsrad };
static const InstId kVShiAvx[VS__N] = { x86::Inst::kIdVpsllw, x86::Inst::kIdVpslld, x86::Inst::kIdVpsllq, x86::Inst::kIdVpsrlw, x86::Inst::kIdVpsrld,
  x86::Inst::kIdVpsrlq, x86::Inst::kIdVpsraw, x86::Inst::kIdVpsrad };

static inline int widx(int w) { return w == 1 ? 0 : w == 2 ? 1 : w == 4 ? 2 : 3; }
static const InstId kKmov[4] = { x86::Inst::kIdKmovb, x86::Inst::kIdKmovw, x86::Inst::kIdKmovd, x86::Inst::kIdKmovq };
static const InstId kKalu[KA__N][4] = {
  { x86::Inst::kIdKandb, x86::Inst::kIdKandw, x86::Inst::kIdKandd, x86::Inst::kIdKandq },
  { x86::Inst::kIdKorb, x86::Inst::kIdKorw, x86::Inst::kIdKord, x86::Inst::kIdKorq },
  { x86::Inst::kIdKxorb, x86::Inst::kIdKxorw, x86::Inst::kIdKxord, x86::Inst::kIdKxorq },
  { x86::Inst::kIdKandnb, x86::Inst::kIdKandnw, x86::Inst::kIdKandnd, x86::Inst::kIdKandnq },
  { x86::Inst::kIdKxnorb, x86::Inst::kIdKxnorw, x86::Inst::kIdKxnord, x86::Inst::kIdKxnorq },
  { x86::Inst::kIdKaddb, x86::Inst::kIdKaddw, x86::Inst::kIdKaddd, x86::Inst::kIdKaddq },
};
static const InstId kKnot[4] = { x86::Inst::kIdKnotb, x86::Inst::kIdKnotw, x86::Inst::kIdKnotd, x86::Inst::kIdKnotq };
static const InstId kKshl[4] = { x86::Inst::kIdKshiftlb, x86::Inst::kIdKshiftlw, x86::Inst::kIdKshiftld, x86::Inst::kIdKshiftlq };
static const InstId kKshr[4] = { x86::Inst::kIdKshiftrb, x86::Inst::kIdKshiftrw, x86::Inst::kIdKshiftrd, x86::Inst::kIdKshiftrq };
static const InstId kKortest[4] = { x86::Inst::kIdKortestb, x86::Inst::kIdKortestw, x86::Inst::kIdKortestd, x86::Inst::kIdKortestq };

struct X86Emitter {
  x86::Compiler& cc;
  const Program& P;
  bool is64;
  std::vector<Reg> regs;
  x86::Gp bufp;
  x86::Mem stk;
  std::vector<Label> labels;
  struct Table { Label lab; std::vector<int> targets; };
  std::vector<Table> tables;
  std::vector<NodeRec> recs;
  std::vector<Label> data_labels;   // labels that start data (jump tables, constant pool)
  std::vector<DataRange> dranges;   // the same with sizes (-1: constant pool, extends to the next range / end of code)
  bool sse, avx512;
  FuncNode* func_node = nullptr;
  // several functions built with ONE Compiler: virtual registers created for an earlier function are reused by the later ones (same kind / size / signedness)
  std::map<u32, std::vector<Reg>>* pool = nullptr;
  std::map<u32, size_t> pool_used;
  bool pooled(u32 key, Reg& out) {
    if (!pool) return false;
    std::vector<Reg>& v = (*pool)[key];
    size_t& u = pool_used[key];
    if (u < v.size()) { out = v[u++]; return true; }
    return false;
  }
  void to_pool(u32 key, const Reg& r) { if (pool) { (*pool)[key].push_back(r); pool_used[key]++; } }

  X86Emitter(x86::Compiler& c, const Program& p) : cc(c), P(p) {
    is64 = p.arch == ARCH_X64;
    sse = p.mode == MODE_SSE;
    avx512 = p.mode == MODE_AVX512;
  }

  void rec() {
    BaseNode* n = cc.cursor();
    if (n && n->is_inst()) recs.push_back(NodeRec{ n, optypes_of(n->as<InstNode>()), n->as<InstNode>()->inst_id() });
  }
  void E(InstId id) { cc.emit(id); rec(); }
  void E(InstId id, const Operand_& a) { cc.emit(id, a); rec(); }
  void E(InstId id, const Operand_& a, const Operand_& b) { cc.emit(id, a, b); rec(); }
  void E(InstId id, const Operand_& a, const Operand_& b, const Operand_& c) { cc.emit(id, a, b, c); rec(); }
  void E(InstId id, const Operand_& a, const Operand_& b, const Operand_& c, const Operand_& d) { cc.emit(id, a, b, c, d); rec(); }
  void E(InstId id, const Operand_& a, const Operand_& b, const Operand_& c, const Operand_& d, const Operand_& e) { cc.emit(id, a, b, c, d, e); rec(); }

  x86::Gp g(int v, int w) const {
    const x86::Gp& r = regs[v].as<x86::Gp>();
    switch (w) {
      case 1: return r.r8();
      case 2: return r.r16();
      case 4: return r.r32();
      default: return r.r64();
    }
  }
  x86::Gp gptr(int v) const { return is64 ? regs[v].as<x86::Gp>().r64() : regs[v].as<x86::Gp>().r32(); }
  x86::Vec vv(int v, int w) const {
    const x86::Vec& r = regs[v].as<x86::Vec>();
    return w == 16 ? r.xmm() : w == 32 ? r.ymm() : r.zmm();
  }
  x86::KReg kk(int v) const { return regs[v].as<x86::KReg>(); }

  x86::Mem mem(const MemRef& m, int size) {
    x86::Mem r;
    if (m.space == M_CONST) {
      u8 c[64]; const_data(m.off, c);
      r = cc.new_const(ConstPoolScope::kLocal, c, (size_t)size);
      if (data_labels.empty() || true) {
        Label l; l.set_id(r.base_id());
        bool seen = false;
        for (const Label& x : data_labels) if (x.id() == l.id()) seen = true;
        if (!seen) { data_labels.push_back(l); dranges.push_back(DataRange{ l, -1, false }); }
      }
    }
    else if (m.space == M_STK) {
      r = stk.clone_adjusted(m.off);
      if (m.idx >= 0) r.set_index(gptr(m.idx), m.shift);
    }
    else {
      if (m.idx >= 0) r = x86::ptr(bufp, gptr(m.idx), m.shift, m.off);
      else r = x86::ptr(bufp, m.off);
    }
    r.set_size((u32)size);
    return r;
  }

  Operand src(const Src& s, int w) {
    switch (s.t) {
      case S_REG: return g(s.v, w);
      case S_IMM: return Imm(s.imm);
      case S_MEM: return mem(s.m, w);
      default: return Operand();
    }
  }
  Operand vsrc(const Src& s, int w) {
    if (s.t == S_REG) return vv(s.v, w);
    return mem(s.m, w);
  }

  InstId vmov_rr(int w) const { return sse ? x86::Inst::kIdMovdqa : (w == 64 ? x86::Inst::kIdVmovdqa32 : x86::Inst::kIdVmovdqa); }
  InstId vmov_m(int w) const { return sse ? x86::Inst::kIdMovdqu : (w == 64 ? x86::Inst::kIdVmovdqu32 : x86::Inst::kIdVmovdqu); }

  void emit_cmp(int a, const Src& s, int w, bool test) {
    E(test ? x86::Inst::kIdTest : x86::Inst::kIdCmp, g(a, w), src(s, w));
  }

  void emit_op(const Op& o) {
    using namespace x86;
    int w = o.w;
    switch (o.opc) {
      case O_NOP: break;
      case O_MOV: E(Inst::kIdMov, g(o.d, w), src(o.s, w)); break;
      case O_STORE: E(Inst::kIdMov, mem(o.s2.m, w), src(o.s, w)); break;
      case O_ALU: case O_ALUM: {
        static const InstId ids[] = { Inst::kIdAdd, Inst::kIdSub, Inst::kIdAnd, Inst::kIdOr, Inst::kIdXor };
        if (o.opc == O_ALU) E(ids[o.sub], g(o.d, w), src(o.s, w));
        else E(ids[o.sub], mem(o.s2.m, w), src(o.s, w));
        break;
      }
      case O_ADC2:
        E(o.sub ? Inst::kIdSub : Inst::kIdAdd, g(o.d, w), src(o.s, w));
        E(o.sub ? Inst::kIdSbb : Inst::kIdAdc, g(o.d2, w), src(o.s2, w));
        break;
      case O_UN: case O_UNM: {
        static const InstId ids[] = { Inst::kIdNeg, Inst::kIdNot, Inst::kIdInc, Inst::kIdDec, Inst::kIdBswap };
        if (o.opc == O_UN) E(ids[o.sub], g(o.d, w)); else E(ids[o.sub], mem(o.s2.m, w));
        break;
      }
      case O_SHI: case O_SHC: {
        static const InstId ids[] = { Inst::kIdShl, Inst::kIdShr, Inst::kIdSar, Inst::kIdRol, Inst::kIdRor };
        if (o.opc == O_SHI) E(ids[o.sub], g(o.d, w), Imm(o.imm)); else E(ids[o.sub], g(o.d, w), g(o.c, 1));
        break;
      }
      case O_IMUL2: E(Inst::kIdImul, g(o.d, w), src(o.s, w)); break;
      case O_IMUL3: E(Inst::kIdImul, g(o.d, w), src(o.s, w), Imm(o.imm)); break;
      case O_MUL1: E(o.flag ? Inst::kIdImul : Inst::kIdMul, g(o.d2, w), g(o.d, w), src(o.s, w)); break;
      case O_DIV: {
        Gp t = w == 2 ? cc.new_gp16("divt") : w == 4 ? cc.new_gp32("divt") : cc.new_gp64("divt");
        E(Inst::kIdMov, t, src(o.s, w));
        if (!o.flag) {
          E(Inst::kIdOr, t, Imm(1));
          E(Inst::kIdXor, g(o.d2, w), g(o.d2, w));
          E(Inst::kIdDiv, g(o.d2, w), g(o.d, w), t);
        }
        else {
          E(Inst::kIdShr, t, Imm(1));
          E(Inst::kIdOr, t, Imm(1));
          E(w == 2 ? Inst::kIdCwd : w == 4 ? Inst::kIdCdq : Inst::kIdCqo, g(o.d2, w), g(o.d, w));
          E(Inst::kIdIdiv, g(o.d2, w), g(o.d, w), t);
        }
        break;
      }
      case O_CMPXCHG:
        if (o.s2.t == S_MEM) E(Inst::kIdCmpxchg, mem(o.s2.m, w), g(o.a, w), g(o.c, w));
        else E(Inst::kIdCmpxchg, g(o.d, w), g(o.a, w), g(o.c, w));
        if (o.d2 >= 0) E(Inst::kIdSete, g(o.d2, 1));
        break;
      case O_XCHG: E(Inst::kIdXchg, g(o.d, w), g(o.a, w)); break;
      case O_XCHGM: E(Inst::kIdXchg, mem(o.s2.m, w), g(o.a, w)); break;
      case O_XADD: E(Inst::kIdXadd, g(o.d, w), g(o.a, w)); break;
      case O_LEA: {
        int aw = is64 ? w : 4;
        Mem m = o.b >= 0 ? ptr(g(o.a, aw), g(o.b, aw), o.sub, (int32_t)o.imm) : ptr(g(o.a, aw), (int32_t)o.imm);
        E(Inst::kIdLea, g(o.d, w), m);
        break;
      }
      case O_SETCC: emit_cmp(o.a, o.s, o.w2, o.flag); E(kSetcc[o.cc], g(o.d, 1)); break;
      case O_CMOV: emit_cmp(o.a, o.s, o.w2, o.flag); E(kCmovcc[o.cc], g(o.d, w), src(o.s2, w)); break;
      case O_MOVX:
        if (o.flag && w == 8 && o.w2 == 4) E(Inst::kIdMovsxd, g(o.d, 8), src(o.s, 4));
        else E(o.flag ? Inst::kIdMovsx : Inst::kIdMovzx, g(o.d, w), src(o.s, o.w2));
        break;
      case O_BITCNT: {
        static const InstId ids[] = { Inst::kIdPopcnt, Inst::kIdLzcnt, Inst::kIdTzcnt };
        E(ids[o.sub], g(o.d, w), src(o.s, w));
        break;
      }
      case O_BT: {
        static const InstId ids[] = { Inst::kIdBt, Inst::kIdBts, Inst::kIdBtr, Inst::kIdBtc };
        if (o.c >= 0) E(ids[o.sub], g(o.d, w), g(o.c, w)); else E(ids[o.sub], g(o.d, w), Imm(o.imm & 0xFF));
        if (o.d2 >= 0) E(Inst::kIdSetb, g(o.d2, 1));
        break;
      }
      case O_VGATHER:
        cc.k(kk(o.c));
        E(Inst::kIdVpgatherdd, vv(o.d, w), x86::ptr(bufp, vv(o.a, w), 2, (int32_t)o.imm));
        break;
      case O_HI8: {
        Gp dh = regs[o.d].as<Gp>().r8_hi();
        switch (o.sub) {
          case 0: E(Inst::kIdMov, dh, Imm(o.imm)); break;
          case 1: E(Inst::kIdMov, dh, g(o.a, 1)); break;
          case 2: E(Inst::kIdMov, g(o.d, 1), regs[o.a].as<Gp>().r8_hi()); break;
          case 3: E(Inst::kIdAdd, dh, regs[o.a].as<Gp>().r8_hi()); break;
          case 4: E(Inst::kIdXchg, g(o.d, 1), dh); break;
          case 5: E(Inst::kIdXor, g(o.d, 1), regs[o.a].as<Gp>().r8_hi()); break;
          default: E(Inst::kIdXor, dh, g(o.a, 1)); break;
        }
        break;
      }

      case O_VMOV:
        if (o.s.t == S_REG) E(vmov_rr(w), vv(o.d, w), vv(o.s.v, w));
        else E(vmov_m(w), vv(o.d, w), mem(o.s.m, w));
        break;
      case O_VSTORE: E(vmov_m(w), mem(o.s2.m, w), vv(o.a, w)); break;
      case O_VALU: {
        const VAluIds& id = kVAlu[o.sub];
        if (sse) E(id.sse, vv(o.d, w), vsrc(o.s, w));
        else E(w == 64 ? id.evex : id.avx, vv(o.d, w), vv(o.a, w), vsrc(o.s, w));
        break;
      }
      case O_VSHI:
        if (sse) E(kVShiSse[o.sub], vv(o.d, w), Imm(o.imm));
        else E(kVShiAvx[o.sub], vv(o.d, w), vv(o.a, w), Imm(o.imm));
        break;
      case O_VSHUFD: E(sse ? Inst::kIdPshufd : Inst::kIdVpshufd, vv(o.d, w), vsrc(o.s, w), Imm(o.imm)); break;
      case O_VBCAST: {
        if (o.w2 == 16) { E(o.flag == 2 ? Inst::kIdVbroadcastf128 : Inst::kIdVbroadcasti128, vv(o.d, w), mem(o.s.m, 16)); break; }
        InstId id = o.w2 == 4 ? Inst::kIdVpbroadcastd : Inst::kIdVpbroadcastq;
        if (o.s.t == S_MEM) E(id, vv(o.d, w), mem(o.s.m, o.w2));
        else if (P.vals[o.s.v].kind == KIND_G) E(id, vv(o.d, w), g(o.s.v, o.w2));
        else E(id, vv(o.d, w), vv(o.s.v, 16));
        break;
      }
      case O_VEXTR: {
        InstId id = o.w2 == 32 ? (o.flag ? Inst::kIdVextractf128 : Inst::kIdVextracti128) : (w == 16 ? Inst::kIdVextracti32x4 : Inst::kIdVextracti64x4);
        E(id, vv(o.d, w), vv(o.a, o.w2), Imm(o.imm));
        break;
      }
      case O_VINS: {
        InstId id = w == 32 ? (o.flag ? Inst::kIdVinsertf128 : Inst::kIdVinserti128) : (o.w2 == 16 ? Inst::kIdVinserti32x4 : Inst::kIdVinserti64x4);
        E(id, vv(o.d, w), vv(o.a, w), vsrc(o.s, o.w2), Imm(o.imm));
        break;
      }
      case O_VFROMG: {
        InstId id = o.w2 == 4 ? (sse ? Inst::kIdMovd : Inst::kIdVmovd) : (sse ? Inst::kIdMovq : Inst::kIdVmovq);
        E(id, vv(o.d, 16), src(o.s, o.w2));
        break;
      }
      case O_VTOG: {
        InstId id = o.w2 == 4 ? (sse ? Inst::kIdMovd : Inst::kIdVmovd) : (sse ? Inst::kIdMovq : Inst::kIdVmovq);
        E(id, g(o.d, o.w2), vv(o.a, 16));
        break;
      }
      case O_VPINS: {
        static const InstId s_[] = { Inst::kIdPinsrb, Inst::kIdPinsrw, Inst::kIdPinsrd, Inst::kIdPinsrq };
        static const InstId a_[] = { Inst::kIdVpinsrb, Inst::kIdVpinsrw, Inst::kIdVpinsrd, Inst::kIdVpinsrq };
        Operand so = o.s.t == S_MEM ? Operand(mem(o.s.m, o.w2)) : Operand(g(o.s.v, o.w2 == 8 ? 8 : 4));
        if (sse) E(s_[widx(o.w2)], vv(o.d, 16), so, Imm(o.imm));
        else E(a_[widx(o.w2)], vv(o.d, 16), vv(o.a, 16), so, Imm(o.imm));
        break;
      }
      case O_VPEXT: {
        static const InstId s_[] = { Inst::kIdPextrb, Inst::kIdPextrw, Inst::kIdPextrd, Inst::kIdPextrq };
        static const InstId a_[] = { Inst::kIdVpextrb, Inst::kIdVpextrw, Inst::kIdVpextrd, Inst::kIdVpextrq };
        E((sse ? s_ : a_)[widx(o.w2)], g(o.d, o.w2 == 8 ? 8 : 4), vv(o.a, 16), Imm(o.imm));
        break;
      }
      case O_VMSKB: E(sse ? Inst::kIdPmovmskb : Inst::kIdVpmovmskb, g(o.d, 4), vv(o.a, w)); break;
      case O_VTERN:
        if (o.cc) { E(Inst::kIdKmovw, x86::k(o.cc), g(o.b, 4)); cc.k(x86::k(o.cc)); }
        else if (o.c >= 0) cc.k(kk(o.c));
        if ((o.cc || o.c >= 0) && o.flag) cc.z();
        E(Inst::kIdVpternlogd, vv(o.d, w), vv(o.a, w), vsrc(o.s, w), Imm(o.imm));
        break;
      case O_VALUK: {
        if (o.cc) { E(Inst::kIdKmovw, x86::k(o.cc), g(o.b, 4)); cc.k(x86::k(o.cc)); }
        else cc.k(kk(o.c));
        if (o.flag) cc.z();
        E(kVAlu[o.sub].evex, vv(o.d, w), vv(o.a, w), vsrc(o.s, w));
        break;
      }
      case O_VCMPK:
        if (o.c >= 0) cc.k(kk(o.c));
        E(o.flag ? Inst::kIdVpcmpud : Inst::kIdVpcmpd, kk(o.d), vv(o.a, w), vsrc(o.s, w), Imm(o.imm));
        break;
      case O_VM2V: E(Inst::kIdVpmovm2d, vv(o.d, w), kk(o.a)); break;
      case O_V2M: E(Inst::kIdVpmovd2m, kk(o.d), vv(o.a, w)); break;

      case O_KFROMG: E(kKmov[widx(w)], kk(o.d), g(o.a, w == 8 ? 8 : 4)); break;
      case O_KTOG: E(kKmov[widx(w)], g(o.d, w == 8 ? 8 : 4), kk(o.a)); break;
      case O_KLOAD: E(kKmov[widx(w)], kk(o.d), mem(o.s.m, w)); break;
      case O_KSTORE: E(kKmov[widx(w)], mem(o.s2.m, w), kk(o.a)); break;
      case O_KMOV: E(kKmov[widx(w)], kk(o.d), kk(o.a)); break;
      case O_KALU: E(kKalu[o.sub][widx(w)], kk(o.d), kk(o.a), kk(o.b)); break;
      case O_KNOT: E(kKnot[widx(w)], kk(o.d), kk(o.a)); break;
      case O_KSHI: E((o.sub ? kKshr : kKshl)[widx(w)], kk(o.d), kk(o.a), Imm(o.imm)); break;
      case O_KSET: E(kKortest[widx(w)], kk(o.a), kk(o.b)); E(kSetcc[o.cc], g(o.d, 1)); break;

      case O_DFROMG: E(sse ? Inst::kIdMovq : Inst::kIdVmovq, vv(o.d, 16), g(o.a, 8)); break;
      case O_DTOG: E(sse ? Inst::kIdMovq : Inst::kIdVmovq, g(o.d, 8), vv(o.a, 16)); break;
      case O_DLOAD: E(sse ? Inst::kIdMovsd : Inst::kIdVmovsd, vv(o.d, 16), mem(o.s.m, 8)); break;
      case O_DSTORE: E(sse ? Inst::kIdMovsd : Inst::kIdVmovsd, mem(o.s2.m, 8), vv(o.a, 16)); break;
      case O_DMOV: E(sse ? Inst::kIdMovaps : Inst::kIdVmovaps, vv(o.d, 16), vv(o.a, 16)); break;

      case O_BLENDV: {
        static const InstId ids[] = { Inst::kIdPblendvb, Inst::kIdBlendvps, Inst::kIdBlendvpd };
        E(ids[o.sub], vv(o.d, 16), vsrc(o.s, 16), vv(o.c, 16));
        break;
      }
      case O_MULX: E(Inst::kIdMulx, g(o.d2, w), g(o.d, w), src(o.s, w), g(o.c, w)); break;
      case O_STR: {
        int n = (int)o.imm;
        Gp pd, ps, cnt;
        if (o.sub != 2) { pd = cc.new_gp_ptr("str_dst"); E(Inst::kIdLea, pd, x86::ptr(bufp, o.s2.m.off)); }
        if (o.sub != 0) { ps = cc.new_gp_ptr("str_src"); E(Inst::kIdLea, ps, x86::ptr(bufp, o.s.m.off)); }
        Mem md = x86::ptr(pd); md.set_size((u32)w);
        Mem ms = x86::ptr(ps); ms.set_size((u32)w);
        static const InstId ids[] = { Inst::kIdStos, Inst::kIdMovs, Inst::kIdLods };
        int reps = o.flag ? 1 : n;
        if (o.flag) { cnt = cc.new_gp_ptr("str_cnt"); E(Inst::kIdMov, cnt, Imm(n)); }
        for (int i = 0; i < reps; i++) {
          if (o.flag) cc.rep(cnt);
          if (o.sub == 0) E(ids[0], md, g(o.a, w));
          else if (o.sub == 1) E(ids[1], md, ms);
          else E(ids[2], g(o.a, w), ms);
        }
        if (o.d >= 0) { Gp pp = o.sub == 2 ? ps : pd; E(Inst::kIdSub, pp, bufp); E(Inst::kIdMov, gptr(o.d), pp); }
        if (o.d2 >= 0) E(Inst::kIdMov, g(o.d2, 4), cnt.r32());
        break;
      }
      case O_CX16: {
        Mem m = mem(o.s2.m, 2 * w);
        E(w == 8 ? Inst::kIdCmpxchg16b : Inst::kIdCmpxchg8b, m, g(o.d2, w), g(o.d, w), g(o.b, w), g(o.a, w));
        if (o.c >= 0) E(Inst::kIdSete, g(o.c, 1));
        break;
      }
      case O_LAHF: emit_cmp(o.a, o.s, o.w2, false); E(Inst::kIdLahf, regs[o.d].as<Gp>().r8_hi()); break;
      case O_SAHF: E(Inst::kIdSahf, regs[o.a].as<Gp>().r8_hi()); E(kSetcc[o.cc], g(o.d, 1)); break;
      case O_VROUND: {
        static const InstId s_[] = { Inst::kIdRoundpd, Inst::kIdRoundps, Inst::kIdRoundsd, Inst::kIdRoundss };
        static const InstId a_[] = { Inst::kIdVroundpd, Inst::kIdVroundps, Inst::kIdVroundsd, Inst::kIdVroundss };
        if (o.sub < 2) {
          if (sse) E(s_[o.sub], vv(o.d, 16), vsrc(o.s, 16), Imm(o.imm)); else E(a_[o.sub], vv(o.d, w), vsrc(o.s, w), Imm(o.imm));
        }
        else {
          Operand so = o.s.t == S_MEM ? Operand(mem(o.s.m, o.sub == 2 ? 8 : 4)) : Operand(vv(o.s.v, 16));
          if (sse) E(s_[o.sub], vv(o.d, 16), so, Imm(o.imm)); else E(a_[o.sub], vv(o.d, 16), vv(o.a, 16), so, Imm(o.imm));
        }
        break;
      }
      case O_MASKMOV: {
        Gp pd = cc.new_gp_ptr("mm_dst"); E(Inst::kIdLea, pd, x86::ptr(bufp, o.s2.m.off));
        E(sse ? Inst::kIdMaskmovdqu : Inst::kIdVmaskmovdqu, vv(o.a, 16), vv(o.b, 16), x86::ptr(pd));
        break;
      }
      case O_CALL: {
        const CalleeSig& sg = g_sigs[o.imm];
        FuncSignature sig(!is64 ? ((o.imm & 1) ? CallConvId::kStdCall : CallConvId::kCDecl) : (sg.conv == CV_MS ? CallConvId::kX64Windows : CallConvId::kCDecl));
        sig.set_ret(sg.ret == RK_VOID ? TypeId::kVoid : sg.ret == RK_U32 ? TypeId::kUInt32 : sg.ret == RK_U64 ? TypeId::kUInt64 : sg.ret == RK_V128 ? TypeId::kInt32x4 : TypeId::kFloat64);
        static const TypeId tids[] = { TypeId::kUInt8, TypeId::kUInt16, TypeId::kUInt32, TypeId::kUInt64, TypeId::kFloat64, TypeId::kInt8, TypeId::kInt16, TypeId::kInt32,
                                       TypeId::kInt64, TypeId::kInt32x4, TypeId::kFloat32 };
        int first = 0;
        if (sg.va) { sig.add_arg(TypeId::kUInt32); sig.set_va_index(1); first = 1; }   // f(uint32 id, ...)
        for (int k = 0; k < sg.n; k++) sig.add_arg(tids[sg.kind[k]]);
        InvokeNode* inv = nullptr;
        u64 target = is64 ? (u64)(uintptr_t)g_callee_ptr[o.imm] : (u64)(0x08000000u + (u32)o.imm * 64);
        if (o.sub == 1) {
          // through a virtual register
          Gp t = cc.new_gp_ptr("callee");
          E(Inst::kIdMov, t, Imm(target));
          cc.invoke(Out(inv), t, sig);
        }
        else if (o.sub == 2) {
          // through memory: the harness keeps a table of helper addresses right behind the argument buffer
          Mem m = x86::ptr(bufp, BUF_SIZE + (is64 ? 8 : 4) * (int)o.imm);
          m.set_size(is64 ? 8 : 4);
          cc.invoke(Out(inv), m, sig);
        }
        else cc.invoke(Out(inv), imm(target), sig);
        if (!inv) break;
        if (sg.va) inv->set_arg(0, Imm((i64)o.imm));
        for (int k = 0; k < sg.n; k++) {
          const Src& a = o.args[k];
          if (a.t == S_IMM && !is64 && sg.kind[k] == AK_U64) {
            // a 64-bit integer argument of a 32-bit target is a pack of two 32-bit values: both halves are assigned
            inv->set_arg(first + k, 0, Imm((i64)(u32)a.imm));
            inv->set_arg(first + k, 1, Imm((i64)(u32)((u64)a.imm >> 32)));
          }
          else if (a.t == S_IMM) inv->set_arg(first + k, Imm(a.imm));
          else if (sg.kind[k] == AK_V128) inv->set_arg(first + k, vv(a.v, 16));
          else inv->set_arg(first + k, regs[a.v]);
        }
        if (o.d >= 0) { if (sg.ret == RK_V128) inv->set_ret(0, vv(o.d, 16)); else inv->set_ret(0, regs[o.d]); }
        break;
      }
      default: break;
    }
  }

  void emit_term(int bi) {
    using namespace x86;
    const Term& t = P.blocks[bi].term;
    switch (t.kind) {
      case T_FALL: break;
      case T_JMP: cc.jmp(labels[t.target]); break;
      case T_BR:
        if (t.test == 2) {
          // jecxz only reaches +-127 bytes: branch to a jmp next to it
          Label skip = cc.new_label();
          if (t.cc == CC_E) { Label near = cc.new_label(); cc.jecxz(g(t.a, t.w), near); cc.jmp(skip); cc.bind(near); cc.jmp(labels[t.target]); }
          else {
            // nothing but one jmp between jecxz and its target (the allocator may put moves in front of the jmp to the real target)
            Label zero = cc.new_label(), far = cc.new_label();
            cc.jecxz(g(t.a, t.w), zero); cc.jmp(far); cc.bind(zero); cc.jmp(skip); cc.bind(far); cc.jmp(labels[t.target]);
          }
          cc.bind(skip);
          break;
        }
        emit_cmp(t.a, t.s, t.w, t.test); cc.emit(kJcc[t.cc], labels[t.target]);
        break;
      case T_DEC:
        if (t.test == 2) {
          Label skip = cc.new_label(), near = cc.new_label();
          cc.loop(g(t.a, t.w), near); cc.jmp(skip); cc.bind(near); cc.jmp(labels[t.target]); cc.bind(skip);
          break;
        }
        E(Inst::kIdSub, g(t.a, t.w), Imm(1)); cc.jnz(labels[t.target]);
        break;
      case T_SWITCH: {
        Table tb; tb.lab = cc.new_label(); tb.targets = t.targets;
        Gp idx = cc.new_gp_ptr("sw_idx"), base = cc.new_gp_ptr("sw_base"), tgt = cc.new_gp_ptr("sw_tgt");
        E(Inst::kIdMov, idx.r32(), g(t.a, 4));
        E(Inst::kIdAnd, idx.r32(), Imm((i64)t.targets.size() - 1));
        E(Inst::kIdLea, base, x86::ptr(tb.lab));
        if (is64) E(Inst::kIdMovsxd, tgt, x86::dword_ptr(base, idx, 2));
        else E(Inst::kIdMov, tgt, x86::dword_ptr(base, idx, 2));
        E(Inst::kIdAdd, tgt, base);
        JumpAnnotation* ann = cc.new_jump_annotation();
        std::set<int> seen;
        for (int x : t.targets) if (seen.insert(x).second) ann->add_label(labels[x]);
        cc.jmp(tgt, ann);
        tables.push_back(tb);
        data_labels.push_back(tb.lab);
        break;
      }
      case T_RET:
        if (P.retval >= 0) cc.ret(regs[P.retval]); else cc.ret();
        break;
    }
  }

  void build() {
    using namespace x86;
    // signature
    static const CallConvId cconvs32[] = { CallConvId::kCDecl, CallConvId::kStdCall, CallConvId::kFastCall, CallConvId::kCDecl };
    FuncSignature sig(is64 ? CallConvId::kCDecl : cconvs32[P.cconv & 3]);
    if (P.retval < 0) sig.set_ret(TypeId::kVoid);
    else {
      const ValDef& d = P.vals[P.retval];
      sig.set_ret(d.kind == KIND_D ? TypeId::kFloat64 : d.size == 1 ? TypeId::kUInt8 : d.size == 2 ? TypeId::kUInt16 : d.size == 4 ? TypeId::kUInt32 : TypeId::kUInt64);
    }
    sig.add_arg(TypeId::kUIntPtr);
    const SigClass& sc = kSigClasses[P.sigclass];
    for (int i = 0; i < sc.ni; i++) {
      int ps = psize(sc.isz[i]); bool sg = psigned(sc.isz[i]);
      sig.add_arg(ps == 1 ? (sg ? TypeId::kInt8 : TypeId::kUInt8) : ps == 2 ? (sg ? TypeId::kInt16 : TypeId::kUInt16) :
                  (ps == 4 || !is64) ? (sg ? TypeId::kInt32 : TypeId::kUInt32) : TypeId::kUInt64);
    }
    for (int i = 0; i < sc.nd; i++) sig.add_arg(TypeId::kFloat64);

    FuncNode* fn = cc.add_func(sig);
    if (!fn) return;
    func_node = fn;
    if (P.mode >= MODE_AVX) fn->frame().set_avx_enabled();
    if (P.mode >= MODE_AVX512) fn->frame().set_avx512_enabled();
    if (P.preserved_fp) fn->frame().set_preserved_fp();
    if (P.phys_k) {
      // the program writes a physical mask register itself: keep the allocator away from it when it also has virtual mask registers
      bool has_virt_k = false;
      for (const ValDef& d : P.vals) if (d.kind == KIND_K) has_virt_k = true;
      if (has_virt_k) fn->frame().add_unavailable_regs(RegGroup::kMask, Support::bit_mask<RegMask>(uint32_t(P.phys_k)));
    }

    bufp = cc.new_gp_ptr("buf");
    regs.resize(P.vals.size());
    for (size_t i = 0; i < P.vals.size(); i++) {
      const ValDef& d = P.vals[i];
      char nm[24]; snprintf(nm, sizeof nm, "v%zu", i);
      u32 pkey = ((u32)d.kind << 16) | ((u32)d.size << 8) | d.sgn;
      if (pooled(pkey, regs[i])) continue;
      switch (d.kind) {
        case KIND_G:
          if (d.sgn) regs[i] = cc.new_gp(d.size == 1 ? TypeId::kInt8 : d.size == 2 ? TypeId::kInt16 : d.size == 4 ? TypeId::kInt32 : TypeId::kInt64, nm);
          else regs[i] = d.size == 1 ? cc.new_gp8(nm) : d.size == 2 ? cc.new_gp16(nm) : d.size == 4 ? cc.new_gp32(nm) : cc.new_gp64(nm);
          break;
        case KIND_V: regs[i] = d.size == 16 ? cc.new_xmm(nm) : d.size == 32 ? cc.new_ymm(nm) : cc.new_zmm(nm); break;
        case KIND_D: regs[i] = cc.new_xmm_sd(nm); break;
        default: regs[i] = d.size == 1 ? cc.new_kb(nm) : d.size == 2 ? cc.new_kw(nm) : d.size == 4 ? cc.new_kd(nm) : cc.new_kq(nm); break;
      }
      to_pool(pkey, regs[i]);
    }
    fn->set_arg(0, bufp);
    for (size_t i = 0; i < P.argbind.size(); i++) if (P.argbind[i] >= 0) fn->set_arg(1 + i, regs[P.argbind[i]]);
    if (P.use_stack) stk = cc.new_stack(STK_SIZE, 16, "user_stack");

    int nb = (int)P.blocks.size();
    labels.resize(nb);
    for (int i = 0; i < nb; i++) labels[i] = cc.new_label();
    for (int bi = 0; bi < nb; bi++) {
      if (bi > 0) cc.bind(labels[bi]);
      const Block& b = P.blocks[bi];
      if (b.fuel) {
        E(Inst::kIdSub, g(P.fuel, 4), Imm(1));
        cc.js(labels[nb - 1]);
      }
      for (const Op& o : b.ops) emit_op(o);
      emit_term(bi);
      if (b.data_after) {
        Label dl = cc.new_label();
        cc.bind(dl);
        for (int i = 0; i < b.data_after; i++) cc.embed_uint32(embedded_word(P.arch, b.data_kind, bi, i));
        dranges.push_back(DataRange{ dl, 4 * b.data_after, true });
        data_labels.push_back(dl);
      }
    }
    if (P.tables_inside) emit_tables(true);
    cc.end_func();
    if (!P.tables_inside) emit_tables(false);
  }
  void emit_tables(bool inside) {
    for (const Table& tb : tables) {
      cc.bind(tb.lab);
      for (int x : tb.targets) cc.embed_label_delta(labels[x], tb.lab, 4);
      dranges.push_back(DataRange{ tb.lab, 4 * (int)tb.targets.size(), inside });
    }
  }
};

// ---------------------------------------------------------------------------------------------------------------
// Compile + native execution in a forked child
// ---------------------------------------------------------------------------------------------------------------

static const int NINPUTS_MAX = 16;
static const int BATCH_MAX = 32;
static const u32 CALLCAP = 160;

struct ShmSlot {
  volatile u32 done;
  u32 ncalls;
  u32 clobber;       // callee-saved registers that differ after the return (x86-64 native execution)
  u64 ret;
  CallRec calls[CALLCAP];
  u8 buf[BUF_SIZE];
};
struct Shm {
  volatile u32 progress;        // input index inside the program being executed
  volatile u32 progress_item;   // index of the program (batch item) being executed
  volatile u64 crash_rip, crash_addr, crash_sig, fn_base;
  volatile u32 stage;           // isolated runs: 0 compiling, 1 executing generated code, 2 done
  ShmSlot slot[NINPUTS_MAX * BATCH_MAX];
};

static Shm* g_shm = nullptr;
static u8* g_jitbuf = nullptr;   // argument buffer with guard pages on both sides

static void init_exec_env() {
  g_shm = (Shm*)mmap(nullptr, sizeof(Shm), PROT_READ | PROT_WRITE, MAP_SHARED | MAP_ANONYMOUS, -1, 0);
  size_t pg = 4096;
  size_t sz = (BUF_SIZE + 8 * NCALLEE_ALL + pg - 1) / pg * pg;
  u8* p = (u8*)mmap(nullptr, sz + 2 * pg, PROT_READ | PROT_WRITE, MAP_PRIVATE | MAP_ANONYMOUS, -1, 0);
  mprotect(p, pg, PROT_NONE);
  mprotect(p + pg + sz, pg, PROT_NONE);
  g_jitbuf = p + pg;
  if (g_shm == MAP_FAILED || p == MAP_FAILED) { fprintf(stderr, "mmap failed\n"); exit(3); }
}

// The generated x86-64 function is entered through a small assembly trampoline instead of a C++ call: the trampoline places the
// arguments (SysV: 6 integer registers, 8 vector registers, the rest on the stack in argument order), fills every callee-saved
// register (rbx, rbp, r12-r15) with a sentinel and records them and rsp after the return.
struct Tramp64 {
  u64 fn;            // 0
  u64 ireg[6];       // 8
  u64 xmm[8][2];     // 56
  u64 nstack;        // 184
  u64 stack[40];     // 192
  u64 sent_in[6];    // 512
  u64 sent_out[6];   // 560
  u64 ret_rax;       // 608
  u64 ret_xmm0;      // 616
  u64 rsp_saved;     // 624
  u64 rsp_call;      // 632
  u64 rsp_out;       // 640
};
static_assert(offsetof(Tramp64, nstack) == 184 && offsetof(Tramp64, stack) == 192 && offsetof(Tramp64, sent_in) == 512 && offsetof(Tramp64, sent_out) == 560 &&
              offsetof(Tramp64, ret_rax) == 608 && offsetof(Tramp64, rsp_saved) == 624 && offsetof(Tramp64, rsp_out) == 640, "trampoline layout");
extern "C" {
  Tramp64* ra_tramp_ctx __attribute__((used));
  void ra_tramp64(Tramp64*);
}
asm(R"ASM(
.text
.globl ra_tramp64
.type ra_tramp64,@function
ra_tramp64:
  push %rbx
  push %rbp
  push %r12
  push %r13
  push %r14
  push %r15
  push %rdi
  mov %rdi, ra_tramp_ctx(%rip)
  mov %rsp, 624(%rdi)
  mov 184(%rdi), %rcx
  lea 15(,%rcx,8), %rax
  and $-16, %rax
  sub %rax, %rsp
  xor %edx, %edx
1:
  cmp %rcx, %rdx
  jae 2f
  mov 192(%rdi,%rdx,8), %rax
  mov %rax, (%rsp,%rdx,8)
  inc %rdx
  jmp 1b
2:
  mov %rsp, 632(%rdi)
  movdqu 56(%rdi), %xmm0
  movdqu 72(%rdi), %xmm1
  movdqu 88(%rdi), %xmm2
  movdqu 104(%rdi), %xmm3
  movdqu 120(%rdi), %xmm4
  movdqu 136(%rdi), %xmm5
  movdqu 152(%rdi), %xmm6
  movdqu 168(%rdi), %xmm7
  mov 512(%rdi), %rbx
  mov 520(%rdi), %rbp
  mov 528(%rdi), %r12
  mov 536(%rdi), %r13
  mov 544(%rdi), %r14
  mov 552(%rdi), %r15
  mov 0(%rdi), %r11
  mov 16(%rdi), %rsi
  mov 24(%rdi), %rdx
  mov 32(%rdi), %rcx
  mov 40(%rdi), %r8
  mov 48(%rdi), %r9
  mov 8(%rdi), %rdi
  xor %eax, %eax
  call *%r11
  mov ra_tramp_ctx(%rip), %rdi
  mov %rax, 608(%rdi)
  movq %xmm0, 616(%rdi)
  mov %rbx, 560(%rdi)
  mov %rbp, 568(%rdi)
  mov %r12, 576(%rdi)
  mov %r13, 584(%rdi)
  mov %r14, 592(%rdi)
  mov %r15, 600(%rdi)
  mov %rsp, 640(%rdi)
  mov 624(%rdi), %rsp
  cld
  pop %rdi
  pop %r15
  pop %r14
  pop %r13
  pop %r12
  pop %rbp
  pop %rbx
  ret
.size ra_tramp64, .-ra_tramp64
)ASM");

static const char* const kX64Preserved[6] = { "rbx", "rbp", "r12", "r13", "r14", "r15" };

// returns the function's result; *clobber gets one bit per callee-saved register that changed (bit 6: rsp)
static NOSAN u64 call_native(void* fn, int sigclass, bool retd, u8* buf, const RunInput& in, u32* clobber) {
  static Tramp64 t;
  const SigClass& sc = kSigClasses[sigclass];
  int ni = 0, nd = 0; t.nstack = 0;
  t.ireg[ni++] = (u64)(uintptr_t)buf;
  // integer parameters are passed as full 64-bit values: the bits above a narrow parameter are junk (legal), in registers and in stack slots alike
  for (int a = 0; a < sc.ni; a++) { if (ni < 6) t.ireg[ni++] = in.iargs[a]; else t.stack[t.nstack++] = in.iargs[a]; }
  for (int a = 0; a < sc.nd; a++) { if (nd < 8) { t.xmm[nd][0] = in.dargs[a]; t.xmm[nd][1] = 0x7777777777777777ull; nd++; } else t.stack[t.nstack++] = in.dargs[a]; }
  for (; ni < 6; ni++) t.ireg[ni] = 0xE1E1E1E1E1E1E1E1ull;
  for (; nd < 8; nd++) { t.xmm[nd][0] = 0xE2E2E2E2E2E2E2E2ull; t.xmm[nd][1] = 0xE2E2E2E2E2E2E2E2ull; }
  for (int i = 0; i < 6; i++) t.sent_in[i] = 0x5E5E0000C0DE0000ull + (u64)i * 0x0101;
  t.fn = (u64)(uintptr_t)fn;
  ra_tramp64(&t);
  u32 c = 0;
  for (int i = 0; i < 6; i++) if (t.sent_out[i] != t.sent_in[i]) c |= 1u << i;
  if (t.rsp_out != t.rsp_call) c |= 1u << 6;
  if (clobber) *clobber = c;
  return retd ? t.ret_xmm0 : t.ret_rax;
}

enum { EX_OK = 0, EX_CRASH, EX_HANG, EX_WATCHDOG, EX_FORKFAIL, EX_UNSUPPORTED, EX_PRESERVED };

struct ExecOutcome { int status = EX_OK; int sig = 0; int at_input = -1; u64 rip_off = 0, addr = 0; std::string note; };

static NOSAN void child_crash_handler(int sig, siginfo_t* si, void* uc_) {
  ucontext_t* uc = (ucontext_t*)uc_;
  g_shm->crash_sig = (u64)sig;
  g_shm->crash_addr = (u64)(uintptr_t)si->si_addr;
  g_shm->crash_rip = (u64)uc->uc_mcontext.gregs[REG_RIP];
  _exit(100 + (sig & 31));
}

static NOSAN void install_crash_handlers() {
  static u8 altstack[65536];
  stack_t ss; ss.ss_sp = altstack; ss.ss_size = sizeof altstack; ss.ss_flags = 0;
  sigaltstack(&ss, nullptr);
  struct sigaction sa; memset(&sa, 0, sizeof sa);
  sa.sa_sigaction = child_crash_handler; sa.sa_flags = SA_SIGINFO | SA_ONSTACK | SA_NODEFER;
  sigaction(SIGSEGV, &sa, nullptr); sigaction(SIGBUS, &sa, nullptr); sigaction(SIGILL, &sa, nullptr); sigaction(SIGFPE, &sa, nullptr);
  sigaction(SIGTRAP, &sa, nullptr);
  signal(SIGABRT, SIG_DFL); signal(SIGPROF, SIG_DFL); signal(SIGALRM, SIG_DFL);
}

struct ExecItem {
  void* fn = nullptr;
  const Program* P = nullptr;
  const std::vector<RunInput>* inputs = nullptr;
  int slot_base = 0;
  ExecOutcome eo;
};

// Runs all items in ONE forked child (a fork of an ASan process is expensive); if the child dies while executing
// item p, that item gets the crash/hang outcome and a new child continues with item p+1.
static void exec_native_batch(std::vector<ExecItem>& items) {
  int base = 0;
  for (ExecItem& it : items) {
    it.slot_base = base;
    int n = (int)it.inputs->size();
    for (int k = 0; k < n; k++) { g_shm->slot[base + k].done = 0; g_shm->slot[base + k].ncalls = 0; }
    base += n;
  }
  size_t start = 0;
  while (start < items.size()) {
    g_shm->progress = 0;
    g_shm->progress_item = (u32)start;
    fflush(stdout); fflush(stderr);
    pid_t pid = fork();
    if (pid < 0) { for (size_t i = start; i < items.size(); i++) items[i].eo.status = EX_FORKFAIL; return; }
    if (pid == 0) {
      install_crash_handlers();
      alarm(120);
      for (size_t p = start; p < items.size(); p++) {
        ExecItem& it = items[p];
        g_shm->progress_item = (u32)p;
        g_shm->fn_base = (u64)(uintptr_t)it.fn;
        // CPU-time limit per program
        struct itimerval tv; memset(&tv, 0, sizeof tv); tv.it_value.tv_sec = 2;
        setitimer(ITIMER_PROF, &tv, nullptr);
        const Program& P = *it.P;
        bool retd = P.retval >= 0 && P.vals[P.retval].kind == KIND_D;
        int n = (int)it.inputs->size();
        for (int k = 0; k < n; k++) {
          g_shm->progress = (u32)k;
          ShmSlot& s = g_shm->slot[it.slot_base + k];
          memset(g_jitbuf, 0, BUF_SIZE);
          memcpy(g_jitbuf, (*it.inputs)[k].data, DATA_SIZE);
          memcpy(g_jitbuf + BUF_SIZE, g_callee_ptr, sizeof g_callee_ptr);   // helper address table for calls through memory
          g_log = s.calls; g_logn = &s.ncalls; g_logcap = CALLCAP;
          s.clobber = 0;
          s.ret = call_native(it.fn, P.sigclass, retd, g_jitbuf, (*it.inputs)[k], &s.clobber);
          memcpy(s.buf, g_jitbuf, BUF_SIZE);
          s.done = 1;
        }
      }
      _exit(0);
    }
    int st = 0;
    while (waitpid(pid, &st, 0) < 0 && errno == EINTR) {}
    if (WIFEXITED(st) && WEXITSTATUS(st) == 0) return;
    size_t p = g_shm->progress_item;
    if (p < start || p >= items.size()) p = start;
    ExecOutcome& out = items[p].eo;
    out.at_input = (int)g_shm->progress;
    if (WIFSIGNALED(st)) {
      out.sig = WTERMSIG(st);
      out.status = out.sig == SIGPROF ? EX_HANG : out.sig == SIGALRM ? EX_WATCHDOG : EX_CRASH;
    }
    else if (WIFEXITED(st) && WEXITSTATUS(st) >= 100) {
      out.status = EX_CRASH; out.sig = (int)g_shm->crash_sig;
      out.rip_off = g_shm->crash_rip - g_shm->fn_base; out.addr = g_shm->crash_addr;
    }
    else { out.status = EX_CRASH; out.sig = -1; }
    start = p + 1;
  }
}

struct Compiled {
  void* fn = nullptr;
  void* base = nullptr;   // what has to be released (one JIT block can hold several functions; only the first one owns it)
  Error err = Error::kOk;
  std::string errmsg;
  std::string stage;
  EmitStats st;
  std::vector<u8> code;   // compile-only: .text bytes
  size_t code_end = 0;    // offset where data (tables / constant pool) starts
  std::string data_json = "[]";  // [[offset, size, inside-the-function], ...] of every data range in the code
  size_t code_size = 0;
  size_t debug_log_bytes = 0;   // size of the RA debug output (programs compiled with kRADebugAll + logger)
};

static JitRuntime* g_rt = nullptr;

static std::string data_ranges_json(CodeHolder& code, const std::vector<DataRange>& dr) {
  std::string s = "[";
  for (const DataRange& d : dr) {
    if (!code.is_label_bound(d.lab)) continue;
    if (s.size() > 1) s += ",";
    s += "[" + std::to_string((size_t)code.label_offset(d.lab)) + "," + std::to_string(d.size) + "," + (d.inside ? "1" : "0") + "]";
  }
  return s + "]";
}


static bool g_trace = false;
static int g_trace_val = -1;

// x86-32 programs are relocated to this fixed low address and executed through the far-call gate
static const u32 G32_BASE = 0x08000000u, G32_SIZE = 4u << 20, G32_THUNK = 0x2000, G32_ENTRY = 0x2400, G32_EXIT = 0x2800, G32_CTX = 0x3000, G32_CODE = 0x10000;

// Builds the programs as consecutive functions of ONE x86::Compiler / CodeHolder (one finalize), optionally sharing virtual registers between them.
// On failure every `out` carries the error. x86-64: the functions are added to the JIT runtime as one block (outs[0]->base owns it).
static bool compile_x86_multi(const std::vector<const Program*>& Ps, const std::vector<Compiled*>& outs, bool annotate, bool radebug, bool share_vregs) {
  const Program& P0 = *Ps[0];
  auto fail_all = [&](Error e, const std::string& msg, const char* stage) { for (Compiled* o : outs) { o->err = e; o->errmsg = msg; o->stage = stage; } return false; };
  if (g_trace) for (const Program* P : Ps) { fprintf(stderr, "--- compiling ---\n%s\n", serialise(*P).c_str()); fflush(stderr); }
  CodeHolder code;
  ErrH eh;
  Error e;
  if (P0.arch == ARCH_X64) e = code.init(g_rt->environment(), g_rt->cpu_features());
  else { Environment env(Arch::kX86); e = code.init(env, CpuInfo::host().features(), (u64)G32_BASE + G32_CODE); }
  if (e != Error::kOk) return fail_all(e, "", "init");
  code.set_error_handler(&eh);
  FileLogger flog(stderr);
  if (g_trace) { flog.add_flags(FormatFlags::kMachineCode); code.set_logger(&flog); }
  x86::Compiler cc(&code);
  if (annotate) cc.add_diagnostic_options(DiagnosticOptions::kRAAnnotate);
  // a share of the programs is compiled the way a user debugs the allocator: every RA diagnostic option on, output into a logger
  StringLogger dlog;
  if (radebug) { cc.add_diagnostic_options(DiagnosticOptions::kRADebugAll); if (!g_trace) code.set_logger(&dlog); }
  std::map<u32, std::vector<Reg>> pool;
  std::vector<std::unique_ptr<X86Emitter>> ems;
  for (const Program* P : Ps) {
    ems.emplace_back(new X86Emitter(cc, *P));
    if (share_vregs) ems.back()->pool = &pool;
    ems.back()->build();
    if (eh.err != Error::kOk) return fail_all(eh.err, eh.msg, "emit");
  }
  e = cc.finalize();
  if (e != Error::kOk || eh.err != Error::kOk) return fail_all(e != Error::kOk ? e : eh.err, eh.msg, "finalize");
  for (size_t i = 0; i < Ps.size(); i++) {
    Compiled& out = *outs[i];
    X86Emitter& em = *ems[i];
    out.st.user_insts = (int)em.recs.size();
    BaseNode* from = Ps.size() > 1 ? (BaseNode*)em.func_node : nullptr;
    BaseNode* to = (Ps.size() > 1 && i + 1 < Ps.size()) ? (BaseNode*)ems[i + 1]->func_node : nullptr;
    collect_ra_stats(cc, em.recs, out.st, from, to);
    out.code_size = code.code_size();
    out.debug_log_bytes = dlog.data_size();
  }
  if (P0.arch == ARCH_X64) {
    void* base = nullptr;
    e = g_rt->add(&base, &code);
    if (e != Error::kOk) return fail_all(e, "", "jit-add");
    for (size_t i = 0; i < Ps.size(); i++) {
      Compiled& out = *outs[i];
      out.fn = (u8*)base + (Ps.size() > 1 ? code.label_offset(ems[i]->func_node->label()) : 0);
      out.base = i == 0 ? base : nullptr;
    }
  }
  else {
    Compiled& out = *outs[0];
    X86Emitter& em = *ems[0];
    code.flatten();
    code.resolve_cross_section_fixups();
    e = code.relocate_to_base((u64)G32_BASE + G32_CODE);
    if (e != Error::kOk) return fail_all(e, "", "relocate");
    const CodeBuffer& tb = code.text_section()->buffer();
    out.code.assign(tb.data(), tb.data() + tb.size());
    size_t end = tb.size();
    for (const Label& l : em.data_labels) {
      if (code.is_label_bound(l)) end = std::min(end, (size_t)code.label_offset(l));
    }
    out.code_end = end;
    out.data_json = data_ranges_json(code, em.dranges);
  }
  return true;
}

static bool compile_x86(const Program& P, Compiled& out, bool annotate, bool radebug = false) {
  std::vector<const Program*> ps(1, &P);
  std::vector<Compiled*> os(1, &out);
  return compile_x86_multi(ps, os, annotate, radebug, false);
}

// ---------------------------------------------------------------------------------------------------------------
// Inputs
// ---------------------------------------------------------------------------------------------------------------

static void make_inputs(Rng& r, int n, std::vector<RunInput>& out) {
  out.resize(n);
  for (int k = 0; k < n; k++) {
    RunInput& in = out[k];
    u64 fill;
    switch (k) {
      case 0: memset(in.data, 0, DATA_SIZE); fill = 0; break;
      case 1: memset(in.data, 0xFF, DATA_SIZE); fill = ~0ull; break;
      case 2: for (int i = 0; i < DATA_SIZE; i++) in.data[i] = (i & 7) == 7 ? 0x80 : 0; fill = 0x8000000000000000ull; break;
      case 3: for (int i = 0; i < DATA_SIZE; i++) in.data[i] = (i & 7) == 7 ? 0x7F : 0xFF; fill = 0x7FFFFFFFFFFFFFFFull; break;
      case 4: for (int i = 0; i < DATA_SIZE; i++) in.data[i] = (i & 7) == 0 ? (u8)(1 + (i >> 3) % 5) : 0; fill = 1; break;
      case 5: for (int i = 0; i < DATA_SIZE; i++) in.data[i] = (u8)((i & 3) == 3 ? 0x80 : 0x00); fill = 0x80000000ull; break;
      default: {
        int style = (int)r.below(3);
        for (int i = 0; i < DATA_SIZE; i += 8) {
          u64 x = r.next();
          if (style == 1) x &= r.next();
          if (style == 2 && r.chance(1, 2)) x = r.below(16);
          memcpy(in.data + i, &x, 8);
        }
        fill = 2;
        break;
      }
    }
    for (int i = 0; i < 20; i++) in.iargs[i] = fill == 2 ? (r.chance(1, 4) ? r.below(64) : r.next()) : fill + (fill == 1 ? i : 0);
    for (int i = 0; i < 17; i++) in.dargs[i] = fill == 2 ? r.next() : (fill ^ ((u64)i << 52));
  }
}

// ---------------------------------------------------------------------------------------------------------------
// Differential check of one program
// ---------------------------------------------------------------------------------------------------------------

struct Verdict {
  int kind = 0;  // 0 ok, 1 mismatch, 2 crash, 3 hang, 4 finalize error, 5 harness (bad program / watchdog / fork)
  int input = -1;
  std::string what;
};

static std::string describe_mem_diff(const Program& P, const u8* exp, const u8* got) {
  for (int i = 0; i < BUF_SIZE; i++) {
    if (exp[i] != got[i]) {
      char b[200];
      if (i < DATA_SIZE) snprintf(b, sizeof b, "memory differs at data offset %d: expected %02x got %02x", i, exp[i], got[i]);
      else {
        int vi = (i - DUMP_OFF) / 64;
        const ValDef& d = P.vals[vi < (int)P.vals.size() ? vi : 0];
        int sz = d.size;
        std::string e = hexstr(exp + DUMP_OFF + vi * 64, sz), g = hexstr(got + DUMP_OFF + vi * 64, sz);
        snprintf(b, sizeof b, "final value v%d (%c%d) differs at byte %d: expected %s got %s", vi, "gvdk"[d.kind], sz * 8, (i - DUMP_OFF) % 64,
                 e.substr(0, 64).c_str(), g.substr(0, 64).c_str());
      }
      return b;
    }
  }
  return "";
}

static u64 ret_mask(const Program& P) {
  if (P.retval < 0) return 0;
  const ValDef& d = P.vals[P.retval];
  return d.kind == KIND_D ? ~0ull : maskw(d.size);
}

struct Counters {
  u64 programs = 0, evaluations = 0, inputs_run = 0, nontrivial = 0, compile_errors = 0;
  u64 loads = 0, saves = 0, moves = 0, swaps = 0, rm_subst = 0, user_insts = 0, calls_logged = 0, dyn_ops = 0;
  int max_live = 0, max_vals = 0;
  std::map<std::string, u64> by_profile, by_shape_kind, ops_by_kind, term_by_kind;
  std::set<u64> distinct_nontrivial, distinct_all, shapes_seen;
  std::map<int, u64> live_hist;
  u64 fuel_exhausted = 0;
};

static bool reference_run(const Program& P, const std::vector<RunInput>& inputs, std::vector<RunResult>& ref, Counters* ctr, Verdict& v) {
  ref.resize(inputs.size());
  for (size_t k = 0; k < inputs.size(); k++) {
    Interp it(P);
    if (g_trace_val >= 0 && inputs.size() == 1) it.trace_val = g_trace_val;
    ref[k] = it.run(inputs[k]);
    if (it.bad) { v.kind = 5; v.input = (int)k; v.what = "generated program is not well-defined: " + it.badmsg; return false; }
    if (ctr) { ctr->dyn_ops += it.steps; ctr->calls_logged += it.ncalls; }
  }
  return true;
}

static Verdict compare_results(const Program& P, const std::vector<RunInput>& inputs, const std::vector<RunResult>& ref, const ExecItem& item) {
  Verdict v;
  const ExecOutcome& eo = item.eo;
  if (eo.status == EX_FORKFAIL || eo.status == EX_WATCHDOG) { v.kind = 5; v.what = eo.status == EX_FORKFAIL ? "fork failed" : "wall-clock watchdog in child"; return v; }
  u64 rm = ret_mask(P);
  for (size_t k = 0; k < inputs.size(); k++) {
    const ShmSlot& s = g_shm->slot[item.slot_base + k];
    if (!s.done) {
      v.input = (int)k;
      char b[200];
      if (eo.status == EX_UNSUPPORTED) { v.kind = 6; v.what = "executor: unsupported " + eo.note; return v; }
      if (eo.status == EX_PRESERVED) { v.kind = 7; v.what = eo.note + " (input " + std::to_string(k) + ")"; return v; }
      if (eo.status == EX_CRASH && !eo.note.empty()) { v.kind = 2; char ob[24]; snprintf(ob, sizeof ob, "0x%llx", (unsigned long long)eo.rip_off); v.what = "generated code faults: " + eo.note + " at code offset " + ob + " on input " + std::to_string(k); return v; }
      if (eo.status == EX_HANG && !eo.note.empty()) { v.kind = 3; v.what = "generated code did not terminate (" + eo.note + ") on input " + std::to_string(k); return v; }
      if (eo.status == EX_HANG) { v.kind = 3; snprintf(b, sizeof b, "generated code did not terminate (CPU-time limit) on input %zu", k); }
      else if (eo.status == EX_OK) { v.kind = 5; snprintf(b, sizeof b, "no result recorded for input %zu although the child exited normally", k); }
      else { v.kind = 2; snprintf(b, sizeof b, "generated code crashed with signal %d at code offset 0x%llx (fault address 0x%llx) on input %zu", eo.sig,
                     (unsigned long long)eo.rip_off, (unsigned long long)eo.addr, k); }
      v.what = b;
      return v;
    }
    const RunResult& e = ref[k];
    char b[256];
    if (P.arch == ARCH_X64 && s.clobber) {
      std::string names;
      for (int i = 0; i < 6; i++) if (s.clobber & (1u << i)) names += std::string(" ") + kX64Preserved[i];
      if (s.clobber & 64) names += " rsp";
      v.kind = 7; v.input = (int)k; v.what = "registers the callee must preserve (rbx, rbp, r12-r15, rsp) differ after the return:" + names + " (input " + std::to_string(k) + ")";
      return v;
    }
    bool st0_ret = P.arch == ARCH_X86 && P.retval >= 0 && P.vals[P.retval].kind == KIND_D;
    if (st0_ret ? x87_quiet(s.ret) != x87_quiet(e.ret) : (s.ret & rm) != (e.ret & rm)) {
      snprintf(b, sizeof b, "return value differs on input %zu: expected %016llx got %016llx (mask %016llx)", k, (unsigned long long)(e.ret & rm),
               (unsigned long long)(s.ret & rm), (unsigned long long)rm);
      v.kind = 1; v.input = (int)k; v.what = b; return v;
    }
    if (s.ncalls != e.ncalls) {
      snprintf(b, sizeof b, "number of helper calls differs on input %zu: expected %llu got %u", k, (unsigned long long)e.ncalls, s.ncalls);
      v.kind = 1; v.input = (int)k; v.what = b; return v;
    }
    size_t nc = std::min<size_t>(e.calls.size(), CALLCAP);
    for (size_t c = 0; c < nc; c++) {
      const CallRec& x = e.calls[c]; const CallRec& y = s.calls[c];
      if (x.callee != y.callee || memcmp(x.a, y.a, sizeof x.a) != 0) {
        int ai = 0; for (int i = 0; i < MAXARGS; i++) if (x.a[i] != y.a[i]) { ai = i; break; }
        snprintf(b, sizeof b, "helper call #%zu differs on input %zu: expected callee %u arg%d=%016llx, got callee %u arg%d=%016llx", c, k, x.callee, ai,
                 (unsigned long long)x.a[ai], y.callee, ai, (unsigned long long)y.a[ai]);
        v.kind = 1; v.input = (int)k; v.what = b; return v;
      }
    }
    if (memcmp(e.buf.data(), s.buf, BUF_SIZE) != 0) {
      v.kind = 1; v.input = (int)k;
      v.what = describe_mem_diff(P, e.buf.data(), s.buf) + " on input " + std::to_string(k);
      return v;
    }
  }
  return v;
}

static Verdict check_program(const Program& P, const std::vector<RunInput>& inputs, Compiled& comp, Counters* ctr, bool annotate);

// runs one x86-64 program on the inputs (own child process); used by the shrinker and the probes
static Verdict check_program_x64(const Program& P, const std::vector<RunInput>& inputs, Compiled& comp, Counters* ctr, bool annotate) {
  Verdict v;
  std::vector<RunResult> ref;
  // reference results first: a program that is not well-defined is a harness error, never a violation
  if (!reference_run(P, inputs, ref, ctr, v)) return v;
  if (!compile_x86(P, comp, annotate)) {
    v.kind = 4;
    v.what = "Compiler " + comp.stage + " failed: " + std::string(DebugUtils::error_as_string(comp.err)) + " (" + comp.errmsg + ")";
    return v;
  }
  std::vector<ExecItem> items(1);
  items[0].fn = comp.fn; items[0].P = &P; items[0].inputs = &inputs;
  exec_native_batch(items);
  if (comp.base) g_rt->release(comp.base);
  return compare_results(P, inputs, ref, items[0]);
}

// ---------------------------------------------------------------------------------------------------------------
// Shrinking: drop ops / simplify terminators while the same kind of failure persists on the failing input
// ---------------------------------------------------------------------------------------------------------------

static Program shrink_program(const Program& P0, const RunInput& input, int fail_kind, int budget, int& attempts) {
  Program best = P0;
  std::vector<RunInput> one(1, input);
  auto still_fails = [&](const Program& Q) -> bool {
    attempts++;
    Compiled c;
    Verdict v = check_program(Q, one, c, nullptr, false);
    return v.kind == fail_kind;
  };
  auto op_refs = [&](const Program& Q, const Op& o, int v) -> bool {
    RW rw; op_rw(Q, o, rw);
    for (int x : rw.reads) if (x == v) return true;
    for (int x : rw.writes) if (x == v) return true;
    return false;
  };
  auto delete_value = [&](const Program& Q0, int v, Program& Q) -> bool {
    Q = Q0;
    bool any = false;
    for (Block& b : Q.blocks) {
      std::vector<Op> keep;
      for (const Op& o : b.ops) { if (op_refs(Q0, o, v)) any = true; else keep.push_back(o); }
      b.ops.swap(keep);
      std::vector<int> rd; term_reads(b.term, rd);
      for (int x : rd) if (x == v) { b.term = Term(); b.data_after = 0; any = true; break; }
    }
    for (int& a : Q.argbind) if (a == v) { a = -1; any = true; }
    if (any) { compute_fuel_flags(Q); if (!g_keep_unreachable) { while (prune_unreachable(Q)) compute_fuel_flags(Q); } }
    return any;
  };
  for (int round = 0; round < 3 && attempts < budget; round++) {
    bool progress = false;
    for (int v = (int)best.vals.size() - 1; v >= 0 && attempts < budget; v--) {
      if (v == best.fuel || v == best.retval) continue;
      Program Q;
      if (!delete_value(best, v, Q)) continue;
      if (still_fails(Q)) { best = Q; progress = true; }
    }
    if (!progress) break;
  }
  // chunked removal of ops (ddmin-like), block by block from the end
  for (int pass = 0; pass < 3 && attempts < budget; pass++) {
    bool progress = false;
    for (int bi = (int)best.blocks.size() - 1; bi >= 0 && attempts < budget; bi--) {
      int n = (int)best.blocks[bi].ops.size();
      for (int chunk = std::max(1, n / 2); chunk >= 1 && attempts < budget; chunk /= 2) {
        for (int i = (int)best.blocks[bi].ops.size() - chunk; i >= 0 && attempts < budget; i -= chunk) {
          Program Q = best;
          auto& ops = Q.blocks[bi].ops;
          ops.erase(ops.begin() + i, ops.begin() + i + chunk);
          if (still_fails(Q)) { best = Q; progress = true; }
        }
        if (chunk == 1) break;
      }
    }
    // simplify terminators: conditional branch / dec / switch -> fall through
    for (int bi = 0; bi + 1 < (int)best.blocks.size() && attempts < budget; bi++) {
      Term& t = best.blocks[bi].term;
      if (t.kind == T_BR || t.kind == T_DEC || t.kind == T_SWITCH || t.kind == T_JMP) {
        Program Q = best;
        Q.blocks[bi].term = Term();
        Q.blocks[bi].data_after = 0;
        compute_fuel_flags(Q);
        if (!g_keep_unreachable) { while (prune_unreachable(Q)) compute_fuel_flags(Q); }
        if (Q.blocks.size() != best.blocks.size()) { if (still_fails(Q)) { best = Q; progress = true; } break; }
        if (still_fails(Q)) { best = Q; progress = true; }
      }
    }
    if (!progress) break;
  }
  return best;
}

// ---------------------------------------------------------------------------------------------------------------
// Profiles
// ---------------------------------------------------------------------------------------------------------------

//                name           arch      mode         ng       nv      nk      nd     ops     basic fixed part mem vec mask d call  blocks  sw stk
static const Profile kProfilesX64[] = {
  { "gp-small",    ARCH_X64, MODE_SSE,    1, 6,    0, 0,   0, 0,   0, 0,   3, 10,  10, 3, 3, 3, 0, 0, 0, 1,   1, 6,   1, 20 },
  { "gp-pressure", ARCH_X64, MODE_SSE,    18, 60,  0, 0,   0, 0,   0, 0,   6, 20,  10, 2, 3, 4, 0, 0, 0, 1,   3, 12,  1, 20 },
  { "gp-fixed",    ARCH_X64, MODE_SSE,    10, 26,  0, 0,   0, 0,   0, 0,   5, 16,  4, 10, 2, 2, 0, 0, 0, 1,   2, 10,  1, 20 },
  { "partial",     ARCH_X64, MODE_SSE,    8, 30,   0, 0,   0, 0,   0, 0,   5, 16,  4, 2, 12, 2, 0, 0, 0, 1,   2, 10,  1, 20 },
  { "mem",         ARCH_X64, MODE_SSE,    16, 40,  0, 0,   0, 0,   0, 0,   5, 16,  5, 2, 2, 10, 0, 0, 0, 1,   2, 10,  1, 60 },
  { "vec-sse",     ARCH_X64, MODE_SSE,    4, 10,   8, 30,  0, 0,   0, 3,   5, 16,  3, 1, 1, 2, 12, 0, 1, 1,   2, 10,  1, 30 },
  { "vec-avx",     ARCH_X64, MODE_AVX,    4, 10,   8, 36,  0, 0,   0, 3,   5, 16,  3, 1, 1, 2, 12, 0, 1, 1,   2, 10,  1, 30 },
  { "avx512",      ARCH_X64, MODE_AVX512, 4, 12,   10, 60, 3, 16,  0, 3,   5, 16,  3, 1, 1, 2, 8, 8, 1, 1,    2, 10,  1, 30 },
  { "calls",       ARCH_X64, MODE_AVX,    8, 30,   2, 12,  0, 0,   2, 10,  4, 12,  5, 1, 1, 2, 3, 0, 3, 8,    2, 8,   1, 30 },
  { "calls512",    ARCH_X64, MODE_AVX512, 8, 24,   4, 40,  2, 10,  2, 10,  4, 12,  4, 1, 1, 1, 3, 3, 2, 8,    2, 8,   1, 30 },
  { "calls-stack", ARCH_X64, MODE_AVX,    20, 44,  0, 6,   0, 0,   6, 14,  3, 9,   4, 1, 1, 4, 1, 0, 2, 10,   2, 7,   1, 100 },
  { "jumptable",   ARCH_X64, MODE_SSE,    6, 30,   0, 0,   0, 0,   0, 0,   3, 10,  8, 2, 2, 2, 0, 0, 0, 1,    4, 14,  10, 20 },
  { "huge",        ARCH_X64, MODE_AVX512, 60, 110, 30, 60, 4, 12,  4, 16,  4, 10,  8, 2, 2, 3, 5, 3, 1, 1,    3, 8,   1, 30 },
  { "mixed",       ARCH_X64, MODE_AVX512, 10, 30,  6, 30,  2, 9,   1, 6,   5, 14,  6, 3, 3, 3, 5, 4, 1, 2,    3, 12,  2, 40 },
};
static const int kNProfilesX64 = sizeof(kProfilesX64) / sizeof(kProfilesX64[0]);
// tiny single-class profiles (selected with --profile; used for debugging the harness and for replays)
static const Profile kProfilesDbg[] = {
  { "dbg-basic",   ARCH_X64, MODE_SSE,    3, 6,  0, 0,  0, 0,  0, 0,  1, 4,  1, 0, 0, 0, 0, 0, 0, 0,  1, 1, 0, 0 },
  { "dbg-fixed",   ARCH_X64, MODE_SSE,    3, 6,  0, 0,  0, 0,  0, 0,  1, 4,  0, 1, 0, 0, 0, 0, 0, 0,  1, 1, 0, 0 },
  { "dbg-partial", ARCH_X64, MODE_SSE,    3, 6,  0, 0,  0, 0,  0, 0,  1, 4,  0, 0, 1, 0, 0, 0, 0, 0,  1, 1, 0, 0 },
  { "dbg-mem",     ARCH_X64, MODE_SSE,    3, 6,  0, 0,  0, 0,  0, 0,  1, 4,  0, 0, 0, 1, 0, 0, 0, 0,  1, 1, 0, 50 },
  { "dbg-sse",     ARCH_X64, MODE_SSE,    2, 4,  2, 5,  0, 0,  0, 0,  1, 4,  0, 0, 0, 0, 1, 0, 0, 0,  1, 1, 0, 0 },
  { "dbg-avx",     ARCH_X64, MODE_AVX,    2, 4,  2, 5,  0, 0,  0, 0,  1, 4,  0, 0, 0, 0, 1, 0, 0, 0,  1, 1, 0, 0 },
  { "dbg-avx512",  ARCH_X64, MODE_AVX512, 2, 4,  2, 5,  0, 0,  0, 0,  1, 4,  0, 0, 0, 0, 1, 0, 0, 0,  1, 1, 0, 0 },
  { "dbg-mask",    ARCH_X64, MODE_AVX512, 2, 4,  2, 5,  2, 5,  0, 0,  1, 4,  0, 0, 0, 0, 0, 1, 0, 0,  1, 1, 0, 0 },
  { "dbg-d",       ARCH_X64, MODE_SSE,    2, 4,  0, 0,  0, 0,  2, 4,  1, 4,  0, 0, 0, 0, 0, 0, 1, 0,  1, 1, 0, 0 },
  { "dbg-calls",   ARCH_X64, MODE_SSE,    3, 8,  0, 0,  0, 0,  2, 4,  1, 3,  0, 0, 0, 0, 0, 0, 0, 1,  1, 1, 0, 0 },
  { "dbg-cfg",     ARCH_X64, MODE_SSE,    3, 6,  0, 0,  0, 0,  0, 0,  0, 2,  1, 0, 0, 0, 0, 0, 0, 0,  3, 10, 3, 0 },
};
// relative frequency of the x64 profiles in a random batch
static const int kProfileFreqX64[] = { 2, 3, 3, 3, 3, 2, 2, 3, 3, 2, 3, 2, 1, 3 };

static const Profile kProfilesShape[] = {
  { "shape-tiny",     ARCH_X64, MODE_SSE, 2, 5,   0, 0, 0, 0, 0, 0,  1, 5,  10, 3, 3, 3, 0, 0, 0, 1,  0, 0, 0, 20 },
  { "shape-medium",   ARCH_X64, MODE_SSE, 8, 14,  0, 2, 0, 0, 0, 1,  2, 6,  8, 4, 3, 3, 2, 0, 0, 1,   0, 0, 0, 20 },
  { "shape-pressure", ARCH_X64, MODE_AVX, 18, 30, 0, 20, 0, 0, 0, 2, 2, 7,  8, 3, 3, 3, 4, 0, 1, 1,   0, 0, 0, 20 },
};

static const Profile kProfilesX86[] = {
  { "x86-gp",        ARCH_X86, MODE_SSE,    4, 24,  0, 0,   0, 0,  0, 0,  4, 14,  10, 4, 4, 4, 0, 0, 0, 1,  2, 10, 1, 30 },
  { "x86-partial",   ARCH_X86, MODE_SSE,    6, 16,  0, 0,   0, 0,  0, 0,  4, 14,  4, 4, 12, 3, 0, 0, 0, 1,  2, 8,  1, 30 },
  { "x86-vec-sse",   ARCH_X86, MODE_SSE,    3, 8,   6, 20,  0, 0,  0, 3,  4, 14,  3, 1, 1, 2, 12, 0, 1, 1,  2, 8,  1, 30 },
  { "x86-vec-avx",   ARCH_X86, MODE_AVX,    3, 8,   6, 20,  0, 0,  0, 3,  4, 14,  3, 1, 1, 2, 12, 0, 1, 1,  2, 8,  1, 30 },
  { "x86-avx512",    ARCH_X86, MODE_AVX512, 3, 8,   6, 20,  3, 12, 0, 2,  4, 14,  3, 1, 1, 2, 8, 8, 1, 1,   2, 8,  1, 30 },
  { "x86-calls",     ARCH_X86, MODE_SSE,    5, 16,  2, 8,   0, 0,  2, 8,  4, 10,  5, 1, 1, 2, 3, 0, 3, 8,   2, 8,  1, 30 },
  { "x86-jumptable", ARCH_X86, MODE_SSE,    4, 16,  0, 0,   0, 0,  0, 0,  3, 8,   8, 2, 2, 2, 0, 0, 0, 1,   4, 12, 10, 20 },
};
static const int kNProfilesX86 = sizeof(kProfilesX86) / sizeof(kProfilesX86[0]);

static const Profile& pick_profile_x64(u64 index) {
  int tot = 0;
  for (int i = 0; i < kNProfilesX64; i++) tot += kProfileFreqX64[i];
  int k = (int)(index % tot);
  for (int i = 0; i < kNProfilesX64; i++) { k -= kProfileFreqX64[i]; if (k < 0) return kProfilesX64[i]; }
  return kProfilesX64[0];
}

// jecxz / loop only reach +-127 bytes: when the code the allocator inserts pushes their target out of range, finalize reports InvalidDisplacement.
// That is an error return, not a wrong program - such compiles are counted as inconclusive.
static bool has_short_range_branch(const Program& P) {
  if (P.arch == ARCH_A64) return false;
  for (const Block& b : P.blocks) if ((b.term.kind == T_BR || b.term.kind == T_DEC) && b.term.test == 2) return true;
  return false;
}

static void count_program(Counters& c, const Program& P) {
  c.programs++;
  c.by_profile[P.profile]++;
  c.max_vals = std::max(c.max_vals, (int)P.vals.size());
  for (const Block& b : P.blocks) {
    for (const Op& o : b.ops) {
      c.ops_by_kind[kOpNames[o.opc]]++;
      if (o.opc == O_CALL) {
        const CalleeSig& sg = g_sigs[o.imm];
        c.ops_by_kind[o.sub == 1 ? "call-target-in-register" : o.sub == 2 ? "call-target-in-memory" : "call-target-immediate"]++;
        if (sg.conv == CV_MS) c.ops_by_kind["call-ms_abi-callee"]++;
        if (sg.va) c.ops_by_kind["call-variadic-callee"]++;
        if (sg.ret == RK_V128) c.ops_by_kind["call-vector-return"]++;
        for (int k = 0; k < sg.n; k++) {
          if (sg.kind[k] == AK_V128) c.ops_by_kind["call-vector-argument"]++;
          else if (sg.kind[k] == AK_F32) c.ops_by_kind["call-float32-argument"]++;
          else if (ak_int(sg.kind[k]) && o.args[k].t == S_REG && P.vals[o.args[k].v].size < ak_width(sg.kind[k]))
            c.ops_by_kind[ak_signed(sg.kind[k]) && P.vals[o.args[k].v].sgn ? "call-stack-argument-sign-extended-from-narrower-register" : "call-stack-argument-zero-extended-from-narrower-register"]++;
        }
      }
      if (o.opc == O_STR && o.flag) c.ops_by_kind["str-with-rep-prefix"]++;
    }
    static const char* tk[] = { "fall", "jmp", "br", "dec-loop", "switch", "ret" };
    c.term_by_kind[tk[b.term.kind]]++;
    if (b.fuel) c.term_by_kind["fuel-check"]++;
    if (b.term.kind == T_BR && b.term.test == 2) c.term_by_kind[P.arch == ARCH_A64 ? "br-cbz/cbnz" : "br-jecxz"]++;
    if (b.term.kind == T_BR && b.term.test == 3) c.term_by_kind["br-tbz/tbnz"]++;
    if (b.term.kind == T_DEC && b.term.test == 2) c.term_by_kind["dec-loop-instruction"]++;
  }
}

// canonical CFG shape: terminator kinds + targets (ignores operations)
static u64 cfg_shape_hash(const Program& P) {
  std::string s;
  for (const Block& b : P.blocks) {
    s += (char)('a' + b.term.kind);
    s += std::to_string(b.term.target) + ",";
    for (int t : b.term.targets) s += std::to_string(t) + ";";
    s += b.fuel ? "F" : "-";
  }
  return fnv1a(s.data(), s.size());
}

static bool cfg_has_irreducible_hint(const Program& P) {
  // a retreating edge whose target does not dominate the source is the classical sign; cheap approximation:
  // count retreating edges that are not dec-loop latches
  int nb = (int)P.blocks.size();
  for (int bi = 0; bi < nb; bi++) {
    const Term& t = P.blocks[bi].term;
    if ((t.kind == T_BR || t.kind == T_JMP) && t.target <= bi) return true;
  }
  return false;
}

struct ViolationOut { std::string key, what, witness; u64 index; int input; int count = 1; };
static void add_violation(std::vector<ViolationOut>& viols, const std::string& key, const std::string& what, const std::string& witness, u64 index) {
  ViolationOut vo; vo.key = key; vo.what = what; vo.witness = witness; vo.index = index; vo.input = -1;
  viols.push_back(vo);
}

static std::string json_map(const std::map<std::string, u64>& m) {
  std::string s = "{";
  bool first = true;
  for (auto& kv : m) { if (!first) s += ","; first = false; s += jstr(kv.first) + ":" + std::to_string(kv.second); }
  return s + "}";
}

static std::string input_to_string(const RunInput& in) {
  std::string s = "data=" + hexstr(in.data, DATA_SIZE) + " iargs=";
  for (int i = 0; i < 20; i++) { char b[32]; snprintf(b, sizeof b, "%llx,", (unsigned long long)in.iargs[i]); s += b; }
  s += " dargs=";
  for (int i = 0; i < 17; i++) { char b[32]; snprintf(b, sizeof b, "%llx,", (unsigned long long)in.dargs[i]); s += b; }
  return s;
}

// @@A64-SECTION@@
// ---------------------------------------------------------------------------------------------------------------
// AArch64 emitter (compile only: there is no AArch64 CPU here, nothing is executed)
// ---------------------------------------------------------------------------------------------------------------

struct A64Emitter {
  a64::Compiler& cc;
  const Program& P;
  std::vector<Reg> regs;
  a64::Gp bufp;
  std::vector<Label> labels;
  struct Table { Label lab; std::vector<int> targets; };
  std::vector<Table> tables;
  std::vector<Label> data_labels;
  std::vector<DataRange> dranges;
  std::vector<NodeRec> recs;

  A64Emitter(a64::Compiler& c, const Program& p) : cc(c), P(p) {}

  a64::Gp g(int v, int w) const { const a64::Gp& r = regs[v].as<a64::Gp>(); return w == 8 ? r.x() : r.w(); }
  a64::Vec q(int v) const { return regs[v].as<a64::Vec>().q(); }
  a64::Vec dreg(int v) const { return regs[v].as<a64::Vec>().d(); }

  a64::Gp tmp(int w) { return w == 8 ? cc.new_gp64("t") : cc.new_gp32("t"); }

  static a64::CondCode cond(int cc_) {
    static const a64::CondCode m[CC__N] = { a64::CondCode::kEQ, a64::CondCode::kNE, a64::CondCode::kLO, a64::CondCode::kHS, a64::CondCode::kLS,
      a64::CondCode::kHI, a64::CondCode::kLT, a64::CondCode::kGE, a64::CondCode::kLE, a64::CondCode::kGT, a64::CondCode::kMI, a64::CondCode::kPL };
    return m[cc_];
  }

  a64::Mem mem(const MemRef& m, int size) {
    if (m.off % size == 0 && m.off / size < 4096) return a64::ptr(bufp, m.off);
    a64::Gp t = cc.new_gp64("addr");
    cc.mov(t, Imm(m.off));
    return a64::ptr(bufp, t);
  }

  a64::Gp srcreg(const Src& s, int w) {
    if (s.t == S_REG) return g(s.v, w);
    a64::Gp t = tmp(w);
    if (s.t == S_IMM) cc.mov(t, Imm(w == 4 ? (i64)(u32)s.imm : s.imm));
    else cc.ldr(t, mem(s.m, w));
    return t;
  }

  void emit_cmp(int a, const Src& s, int w) {
    if (s.t == S_IMM && (u64)s.imm < 4096) cc.cmp(g(a, w), Imm(s.imm));
    else cc.cmp(g(a, w), srcreg(s, w));
  }

  void emit_op(const Op& o) {
    int w = o.w < 4 ? 4 : o.w;
    switch (o.opc) {
      case O_MOV:
        if (P.vals[o.d].ptr) { cc.add(g(o.d, 8), bufp, Imm(o.s.imm)); break; }   // pointer temporary: buffer address + offset
        if (o.s.t == S_REG) cc.mov(g(o.d, w), g(o.s.v, w));
        else if (o.s.t == S_IMM) cc.mov(g(o.d, w), Imm(w == 4 ? (i64)(u32)o.s.imm : o.s.imm));
        else cc.ldr(g(o.d, w), mem(o.s.m, w));
        break;
      case O_STORE:
        if (o.s.t == S_REG && P.vals[o.s.v].ptr) { a64::Gp t = cc.new_gp64("po"); cc.sub(t, g(o.s.v, 8), bufp); cc.str(t, mem(o.s2.m, 8)); break; }   // observe a pointer as its offset
        cc.str(srcreg(o.s, w), mem(o.s2.m, w));
        break;
      case O_ALU: {
        a64::Gp d = g(o.d, w);
        if (o.s.t == S_IMM && (u64)o.s.imm < 4096 && o.sub <= A_SUB) { if (o.sub == A_ADD) cc.add(d, d, Imm(o.s.imm)); else cc.sub(d, d, Imm(o.s.imm)); break; }
        a64::Gp s = srcreg(o.s, w);
        switch (o.sub) {
          case A_ADD: cc.add(d, d, s); break;
          case A_SUB: cc.sub(d, d, s); break;
          case A_AND: cc.and_(d, d, s); break;
          case A_OR: cc.orr(d, d, s); break;
          default: cc.eor(d, d, s); break;
        }
        break;
      }
      case O_UN: if (o.sub == U_NEG) cc.neg(g(o.d, w), g(o.d, w)); else cc.mvn(g(o.d, w), g(o.d, w)); break;
      case O_SHI: {
        a64::Gp d = g(o.d, w);
        u32 n = (u32)o.imm % (8 * w); if (!n) n = 1;
        if (o.sub == SH_SHL) cc.lsl(d, d, Imm(n)); else if (o.sub == SH_SHR) cc.lsr(d, d, Imm(n)); else cc.asr(d, d, Imm(n));
        break;
      }
      case O_SHC: {
        a64::Gp d = g(o.d, w), c = g(o.c, w);
        if (o.sub == SH_SHL) cc.lsl(d, d, c); else if (o.sub == SH_SHR) cc.lsr(d, d, c); else cc.asr(d, d, c);
        break;
      }
      case O_IMUL2: cc.mul(g(o.d, w), g(o.d, w), srcreg(o.s, w)); break;
      case O_DIV: {
        a64::Gp t = tmp(w), s = srcreg(o.s, w);
        if (o.flag) cc.sdiv(t, g(o.d, w), s); else cc.udiv(t, g(o.d, w), s);
        cc.msub(g(o.d2, w), t, s, g(o.d, w));
        cc.mov(g(o.d, w), t);
        break;
      }
      case O_LEA: {
        a64::Gp d = g(o.d, w);
        if (o.b >= 0) cc.add(d, g(o.a, w), g(o.b, w), a64::lsl(o.sub)); else cc.mov(d, g(o.a, w));
        if (o.imm & 0xFFF) cc.add(d, d, Imm(o.imm & 0xFFF));
        break;
      }
      case O_SETCC: emit_cmp(o.a, o.s, o.w2 < 4 ? 4 : o.w2); cc.cset(g(o.d, 4), cond(o.cc)); break;
      case O_CMOV: emit_cmp(o.a, o.s, o.w2 < 4 ? 4 : o.w2); cc.csel(g(o.d, w), srcreg(o.s2, w), g(o.d, w), cond(o.cc)); break;
      case O_MOVX: {
        a64::Gp s = g(o.s.v, 4);
        if (!o.flag) { if (o.w2 == 1) cc.uxtb(g(o.d, 4), s); else if (o.w2 == 2) cc.uxth(g(o.d, 4), s); else cc.mov(g(o.d, 4), s); }
        else { if (o.w2 == 1) cc.sxtb(g(o.d, w), s); else if (o.w2 == 2) cc.sxth(g(o.d, w), s); else if (w == 8) cc.sxtw(g(o.d, 8), s); else cc.mov(g(o.d, 4), s); }
        break;
      }
      case O_VMOV:
        if (o.s.t == S_REG) cc.mov(q(o.d).b16(), q(o.s.v).b16()); else cc.ldr(q(o.d), mem(o.s.m, 16));
        break;
      case O_VSTORE: cc.str(q(o.a), mem(o.s2.m, 16)); break;
      case O_VALU: {
        a64::Vec d = q(o.d), a = q(o.a), b;
        if (o.s.t == S_REG) b = q(o.s.v); else { b = cc.new_vec_q("vt"); cc.ldr(b, mem(o.s.m, 16)); }
        switch (o.sub) {
          case VA_PADDB: cc.add(d.b16(), a.b16(), b.b16()); break;
          case VA_PADDW: cc.add(d.h8(), a.h8(), b.h8()); break;
          case VA_PADDD: cc.add(d.s4(), a.s4(), b.s4()); break;
          case VA_PADDQ: cc.add(d.d2(), a.d2(), b.d2()); break;
          case VA_PSUBB: cc.sub(d.b16(), a.b16(), b.b16()); break;
          case VA_PSUBW: cc.sub(d.h8(), a.h8(), b.h8()); break;
          case VA_PSUBD: cc.sub(d.s4(), a.s4(), b.s4()); break;
          case VA_PSUBQ: cc.sub(d.d2(), a.d2(), b.d2()); break;
          case VA_PXOR: cc.eor(d.b16(), a.b16(), b.b16()); break;
          case VA_PAND: cc.and_(d.b16(), a.b16(), b.b16()); break;
          case VA_POR: cc.orr(d.b16(), a.b16(), b.b16()); break;
          default: cc.bic(d.b16(), b.b16(), a.b16()); break;
        }
        break;
      }
      case O_VSHI: {
        a64::Vec d = q(o.d), a = q(o.a);
        u32 n = 1 + (u32)o.imm % 31;
        if (o.sub < 3) cc.shl(d.s4(), a.s4(), Imm(n)); else if (o.sub < 6) cc.ushr(d.s4(), a.s4(), Imm(n)); else cc.sshr(d.s4(), a.s4(), Imm(n));
        break;
      }
      case O_ALD: case O_AST: {
        bool load = o.opc == O_ALD;
        int n = (int)o.args.size(), es = o.w2;
        int total = (o.sub == 0 || o.sub == 1) ? 16 * n : n * es;
        const MemRef& mr = load ? o.s.m : o.s2.m;
        a64::Gp p;
        if (o.b >= 0) p = g(o.b, 8);
        else { p = cc.new_gp64("lp"); cc.add(p, bufp, Imm(mr.off)); }
        a64::Mem m = o.flag == 0 ? a64::ptr(p) : o.flag == 1 ? a64::ptr_post(p, total) : a64::ptr_post(p, g(o.c, 8));
        Operand ops[5];
        for (int k = 0; k < n; k++) {
          a64::Vec v = q(o.args[k].v);
          if (o.sub == 3) ops[k] = es == 1 ? v.b(o.cc) : es == 2 ? v.h(o.cc) : es == 4 ? v.s(o.cc) : v.d(o.cc);
          else ops[k] = es == 1 ? v.b16() : es == 2 ? v.h8() : es == 4 ? v.s4() : v.d2();
        }
        ops[n] = m;
        static const InstId ldn[] = { a64::Inst::kIdLd1_v, a64::Inst::kIdLd2_v, a64::Inst::kIdLd3_v, a64::Inst::kIdLd4_v };
        static const InstId ldr_[] = { a64::Inst::kIdLd1r_v, a64::Inst::kIdLd2r_v, a64::Inst::kIdLd3r_v, a64::Inst::kIdLd4r_v };
        static const InstId stn[] = { a64::Inst::kIdSt1_v, a64::Inst::kIdSt2_v, a64::Inst::kIdSt3_v, a64::Inst::kIdSt4_v };
        InstId id = o.sub == 1 ? (load ? ldn[0] : stn[0]) : o.sub == 2 ? ldr_[n - 1] : (load ? ldn[n - 1] : stn[n - 1]);
        switch (n) {
          case 1: cc.emit(id, ops[0], ops[1]); break;
          case 2: cc.emit(id, ops[0], ops[1], ops[2]); break;
          case 3: cc.emit(id, ops[0], ops[1], ops[2], ops[3]); break;
          default: cc.emit(id, ops[0], ops[1], ops[2], ops[3], ops[4]); break;
        }
        if (o.d >= 0) cc.sub(g(o.d, 8), p, bufp);
        break;
      }
      case O_ATBL: {
        int n = (int)o.args.size();
        Operand ops[6];
        ops[0] = q(o.d).b16();
        for (int k = 0; k < n; k++) ops[1 + k] = q(o.args[k].v).b16();
        ops[1 + n] = q(o.a).b16();
        InstId id = o.flag ? a64::Inst::kIdTbx_v : a64::Inst::kIdTbl_v;
        switch (n) {
          case 1: cc.emit(id, ops[0], ops[1], ops[2]); break;
          case 2: cc.emit(id, ops[0], ops[1], ops[2], ops[3]); break;
          case 3: cc.emit(id, ops[0], ops[1], ops[2], ops[3], ops[4]); break;
          default: cc.emit(id, ops[0], ops[1], ops[2], ops[3], ops[4], ops[5]); break;
        }
        break;
      }
      case O_AMULE:
        if (o.w2 == 2) cc.mul(q(o.d).h8(), q(o.a).h8(), q(o.b).h(o.cc)); else cc.mul(q(o.d).s4(), q(o.a).s4(), q(o.b).s(o.cc));
        break;
      case O_AIDX: {
        bool isptr = P.vals[o.c].ptr != 0;
        a64::Gp t = isptr ? g(o.c, 8) : cc.new_gp64("ip");
        if (!isptr) cc.add(t, bufp, g(o.c, 8));
        a64::Mem m = (o.flag & 2) ? a64::ptr_pre(t, (int32_t)o.imm) : a64::ptr_post(t, (int32_t)o.imm);
        if (o.flag & 1) cc.str(g(o.a, w), m); else cc.ldr(g(o.d, w), m);
        if (!isptr) cc.sub(g(o.c, 8), t, bufp);
        break;
      }
      case O_DFROMG: cc.fmov(dreg(o.d), g(o.a, 8)); break;
      case O_DTOG: cc.fmov(g(o.d, 8), dreg(o.a)); break;
      case O_DLOAD: cc.ldr(dreg(o.d), mem(o.s.m, 8)); break;
      case O_DSTORE: cc.str(dreg(o.a), mem(o.s2.m, 8)); break;
      case O_DMOV: cc.fmov(dreg(o.d), dreg(o.a)); break;
      case O_CALL: {
        const CalleeSig& sg = g_sigs[o.imm];
        FuncSignature sig(CallConvId::kCDecl);
        sig.set_ret(sg.ret == RK_VOID ? TypeId::kVoid : sg.ret == RK_U32 ? TypeId::kUInt32 : sg.ret == RK_U64 ? TypeId::kUInt64 : TypeId::kFloat64);
        static const TypeId tids[] = { TypeId::kUInt8, TypeId::kUInt16, TypeId::kUInt32, TypeId::kUInt64, TypeId::kFloat64 };
        for (int k = 0; k < sg.n; k++) sig.add_arg(tids[sg.kind[k]]);
        InvokeNode* inv = nullptr;
        a64::Gp target = cc.new_gp64("callee");
        cc.mov(target, Imm((u64)0x100000u + (u64)o.imm * 64));
        cc.invoke(Out(inv), target, sig);
        if (!inv) break;
        for (int k = 0; k < sg.n; k++) {
          const Src& a = o.args[k];
          if (a.t == S_IMM) inv->set_arg(k, Imm(a.imm)); else inv->set_arg(k, regs[a.v]);
        }
        if (o.d >= 0) inv->set_ret(0, regs[o.d]);
        break;
      }
      default: break;
    }
    BaseNode* n = cc.cursor();
    if (n && n->is_inst()) recs.push_back(NodeRec{ n, optypes_of(n->as<InstNode>()), n->as<InstNode>()->inst_id() });
  }

  void emit_term(int bi) {
    const Term& t = P.blocks[bi].term;
    int w = t.w < 4 ? 4 : t.w;
    switch (t.kind) {
      case T_FALL: break;
      case T_JMP: cc.b(labels[t.target]); break;
      case T_BR:
        if (t.test == 2) { if (t.cc == CC_E) cc.cbz(g(t.a, w), labels[t.target]); else cc.cbnz(g(t.a, w), labels[t.target]); break; }
        if (t.test == 3) {
          // tbz / tbnz reach +-32 KiB only: branch to a b next to it
          Label skip = cc.new_label();
          u32 bit = (u32)(t.s.imm & (8 * w - 1));
          if (t.cc == CC_E) cc.tbnz(g(t.a, w), Imm(bit), skip); else cc.tbz(g(t.a, w), Imm(bit), skip);
          cc.b(labels[t.target]); cc.bind(skip);
          break;
        }
        emit_cmp(t.a, t.s, w); cc.b(cond(t.cc), labels[t.target]); break;
      case T_DEC: cc.subs(g(t.a, w), g(t.a, w), Imm(1)); cc.b_ne(labels[t.target]); break;
      case T_SWITCH: {
        Table tb; tb.lab = cc.new_label(); tb.targets = t.targets;
        a64::Gp idx = cc.new_gp64("sw_idx"), base = cc.new_gp64("sw_base"), tgt = cc.new_gp64("sw_tgt");
        cc.and_(idx.w(), g(t.a, 4), Imm((i64)t.targets.size() - 1));
        cc.adr(base, tb.lab);
        cc.ldrsw(tgt, a64::ptr(base, idx, a64::lsl(2)));
        cc.add(tgt, tgt, base);
        JumpAnnotation* ann = cc.new_jump_annotation();
        std::set<int> seen;
        for (int x : t.targets) if (seen.insert(x).second) ann->add_label(labels[x]);
        cc.br(tgt, ann);
        tables.push_back(tb);
        data_labels.push_back(tb.lab);
        break;
      }
      case T_RET:
        if (P.retval >= 0) cc.ret(regs[P.retval]); else cc.ret();
        break;
    }
  }

  void build() {
    FuncSignature sig(CallConvId::kCDecl);
    if (P.retval < 0) sig.set_ret(TypeId::kVoid);
    else { const ValDef& d = P.vals[P.retval]; sig.set_ret(d.kind == KIND_D ? TypeId::kFloat64 : d.size == 4 ? TypeId::kUInt32 : TypeId::kUInt64); }
    sig.add_arg(TypeId::kUIntPtr);
    const SigClass& sc = kSigClasses[P.sigclass];
    for (int i = 0; i < sc.ni; i++) sig.add_arg(psize(sc.isz[i]) == 8 ? TypeId::kUInt64 : TypeId::kUInt32);
    for (int i = 0; i < sc.nd; i++) sig.add_arg(TypeId::kFloat64);
    FuncNode* fn = cc.add_func(sig);
    if (!fn) return;
    // known defect (probe a64-lr-live-across-call): values are kept in x30 across BLR; keep the allocator away from x30 so that the rest stays testable
    if (g_avoid_fwd & 32768) fn->frame().add_unavailable_regs(RegGroup::kGp, Support::bit_mask<RegMask>(30u));
    bufp = cc.new_gp_ptr("buf");
    regs.resize(P.vals.size());
    for (size_t i = 0; i < P.vals.size(); i++) {
      const ValDef& d = P.vals[i];
      char nm[24]; snprintf(nm, sizeof nm, "v%zu", i);
      if (d.kind == KIND_G) regs[i] = d.size == 8 ? cc.new_gp64(nm) : cc.new_gp32(nm);
      else if (d.kind == KIND_V) regs[i] = cc.new_vec_q(nm);
      else regs[i] = cc.new_vec_d(nm);
    }
    fn->set_arg(0, bufp);
    for (size_t i = 0; i < P.argbind.size(); i++) if (P.argbind[i] >= 0) fn->set_arg(1 + i, regs[P.argbind[i]]);
    int nb = (int)P.blocks.size();
    labels.resize(nb);
    for (int i = 0; i < nb; i++) labels[i] = cc.new_label();
    for (int bi = 0; bi < nb; bi++) {
      if (bi > 0) cc.bind(labels[bi]);
      const Block& b = P.blocks[bi];
      if (b.fuel) { cc.subs(g(P.fuel, 4), g(P.fuel, 4), Imm(1)); cc.b_mi(labels[nb - 1]); }
      for (const Op& o : b.ops) emit_op(o);
      emit_term(bi);
      if (b.data_after) {
        Label dl = cc.new_label();
        cc.bind(dl);
        for (int i = 0; i < b.data_after; i++) cc.embed_uint32(embedded_word(P.arch, b.data_kind, bi, i));
        dranges.push_back(DataRange{ dl, 4 * b.data_after, true });
        data_labels.push_back(dl);
      }
    }
    if (P.tables_inside) emit_tables(true);
    cc.end_func();
    if (!P.tables_inside) emit_tables(false);
  }
  void emit_tables(bool inside) {
    for (const Table& tb : tables) {
      cc.bind(tb.lab);
      for (int x : tb.targets) cc.embed_label_delta(labels[x], tb.lab, 4);
      dranges.push_back(DataRange{ tb.lab, 4 * (int)tb.targets.size(), inside });
    }
  }
};

static void finish_compile_only(CodeHolder& code, const std::vector<Label>& data_labels, Compiled& out) {
  code.flatten();
  code.resolve_cross_section_fixups();
  const CodeBuffer& tb = code.text_section()->buffer();
  out.code.assign(tb.data(), tb.data() + tb.size());
  size_t end = tb.size();
  for (const Label& l : data_labels) if (code.is_label_bound(l)) end = std::min(end, (size_t)code.label_offset(l));
  out.code_end = end;
  out.code_size = tb.size();
}

static bool compile_a64(const Program& P, Compiled& out, bool annotate) {
  if (g_trace) { fprintf(stderr, "--- compiling (a64) ---\n%s\n", serialise(P).c_str()); fflush(stderr); }
  CodeHolder code;
  ErrH eh;
  Environment env(Arch::kAArch64);
  Error e = code.init(env);
  if (e != Error::kOk) { out.err = e; out.stage = "init"; return false; }
  code.set_error_handler(&eh);
  FileLogger flog(stderr);
  if (g_trace) { flog.add_flags(FormatFlags::kMachineCode); code.set_logger(&flog); }
  a64::Compiler cc(&code);
  if (annotate) cc.add_diagnostic_options(DiagnosticOptions::kRAAnnotate);
  A64Emitter em(cc, P);
  em.build();
  if (eh.err != Error::kOk) { out.err = eh.err; out.errmsg = eh.msg; out.stage = "emit"; return false; }
  e = cc.finalize();
  if (e != Error::kOk || eh.err != Error::kOk) { out.err = e != Error::kOk ? e : eh.err; out.errmsg = eh.msg; out.stage = "finalize"; return false; }
  out.st.user_insts = (int)em.recs.size();
  collect_ra_stats(cc, em.recs, out.st);
  finish_compile_only(code, em.data_labels, out);
  out.data_json = data_ranges_json(code, em.dranges);
  return true;
}

static const Profile kProfilesA64[] = {
  { "a64-gp",        ARCH_A64, MODE_SSE, 4, 20,  0, 0,   0, 0, 0, 0,  4, 14,  10, 4, 0, 4, 0, 0, 0, 1,  2, 10, 1, 0 },
  { "a64-pressure",  ARCH_A64, MODE_SSE, 30, 70, 0, 0,   0, 0, 0, 0,  5, 16,  10, 3, 0, 4, 0, 0, 0, 1,  3, 10, 1, 0 },
  { "a64-vec",       ARCH_A64, MODE_SSE, 4, 12,  10, 60, 0, 0, 0, 4,  5, 16,  3, 1, 0, 2, 12, 0, 1, 1,  2, 10, 1, 0 },
  { "a64-calls",     ARCH_A64, MODE_SSE, 8, 40,  4, 40,  0, 0, 2, 12, 4, 10,  5, 1, 0, 2, 3, 0, 3, 8,   2, 8,  1, 0 },
  { "a64-jumptable", ARCH_A64, MODE_SSE, 6, 40,  0, 8,   0, 0, 0, 0,  3, 8,   8, 2, 0, 2, 1, 0, 0, 1,   4, 12, 10, 0 },
};
static const int kNProfilesA64 = sizeof(kProfilesA64) / sizeof(kProfilesA64[0]);

// @@A64-SIM@@
// ---------------------------------------------------------------------------------------------------------------
// AArch64 executor (harness code, written from the Arm ARM, independent of AsmJit): interprets the ENCODED bytes of a
// compiled function (prolog, allocator-inserted loads/saves/moves, call lowering, epilog included) over a small
// machine state. Helper calls (blr/bl into the fake callee range) are intercepted: arguments are read per AAPCS64,
// logged, and every caller-saved register is overwritten. An instruction outside the implemented subset makes the
// run INCONCLUSIVE (counted), never a violation.
// ---------------------------------------------------------------------------------------------------------------

struct A64Sim {
  enum { ST_RUN = 0, ST_DONE, ST_FAULT, ST_UNSUPPORTED, ST_LIMIT };
  static constexpr u64 CODE_BASE = 0x40000000ull, BUF_BASE = 0x10000000ull, STACK_TOP = 0x80000000ull, STACK_SIZE = 1u << 18;
  static constexpr u64 CALLEE_BASE = 0x100000ull, RET_SENTINEL = 0xDEAD0000ull;

  u64 x[32];
  u64 sp = 0, pc = 0;
  bool fn = false, fz = false, fc = false, fv = false;
  u8 q[32][16];
  const u8* code = nullptr; size_t code_size = 0;
  u8* buf = nullptr; size_t buf_size = 0;
  std::vector<u8> stack;
  int status = ST_RUN;
  std::string msg;
  u64 steps = 0, fault_pc = 0;
  CallRec* log = nullptr; u32 logcap = 0; u32 ncalls = 0;
  std::map<std::string, u64>* classes = nullptr;   // executed instruction classes (evidence)

  A64Sim() : stack(STACK_SIZE, 0xCD) { memset(x, 0, sizeof x); memset(q, 0, sizeof q); }

  void stop(int st, const std::string& m) { if (status == ST_RUN) { status = st; msg = m; fault_pc = pc; } }
  void cls(const char* c) { if (classes) (*classes)[c]++; }

  u8* mem(u64 addr, size_t n, bool write) {
    if (addr >= BUF_BASE && addr + n <= BUF_BASE + buf_size) return buf + (addr - BUF_BASE);
    if (addr >= STACK_TOP - STACK_SIZE && addr + n <= STACK_TOP) return stack.data() + (addr - (STACK_TOP - STACK_SIZE));
    if (!write && addr >= CODE_BASE && addr + n <= CODE_BASE + code_size) return (u8*)code + (addr - CODE_BASE);
    char b[96]; snprintf(b, sizeof b, "%s of %zu bytes at unmapped address 0x%llx", write ? "store" : "load", n, (unsigned long long)addr);
    stop(ST_FAULT, b);
    return nullptr;
  }
  u64 ld(u64 addr, int n) { u8* p = mem(addr, n, false); u64 v = 0; if (p) memcpy(&v, p, n); return v; }
  void st(u64 addr, int n, u64 v) { u8* p = mem(addr, n, true); if (p) memcpy(p, &v, n); }

  // register accessors: r == 31 is ZR unless sp_ok
  u64 R(int r, bool sf, bool sp_ok = false) const { u64 v = r == 31 ? (sp_ok ? sp : 0) : x[r]; return sf ? v : (v & 0xFFFFFFFFull); }
  void W(int r, bool sf, u64 v, bool sp_ok = false) {
    if (!sf) v &= 0xFFFFFFFFull;
    if (r == 31) { if (sp_ok) sp = v; return; }
    x[r] = v;
  }
  u64 base(int rn) {
    if (rn == 31) { if (sp & 15) stop(ST_FAULT, "stack pointer not 16-byte aligned when used as a base register"); return sp; }
    return x[rn];
  }

  static u64 ror(u64 v, unsigned n, unsigned bits) { n %= bits; u64 m = bits == 64 ? ~0ull : ((1ull << bits) - 1); v &= m; return n ? ((v >> n) | (v << (bits - n))) & m : v; }
  static u64 ones(unsigned n) { return n >= 64 ? ~0ull : ((1ull << n) - 1); }
  static i64 sx(u64 v, unsigned bits) { return bits >= 64 ? (i64)v : (i64)(v << (64 - bits)) >> (64 - bits); }

  // DecodeBitMasks (logical immediates / bitfield masks)
  static bool decode_bit_masks(unsigned N, unsigned imms, unsigned immr, bool immediate, unsigned M, u64& wmask, u64& tmask) {
    int len = -1;
    unsigned v = (N << 6) | (~imms & 0x3F);
    for (int i = 6; i >= 0; i--) if (v & (1u << i)) { len = i; break; }
    if (len < 1) return false;
    if (M < (1u << len)) return false;
    unsigned levels = (1u << len) - 1;
    if (immediate && (imms & levels) == levels) return false;
    unsigned S = imms & levels, Rr = immr & levels;
    unsigned diff = (S - Rr) & levels;
    unsigned esize = 1u << len;
    unsigned d = diff & levels;
    u64 welem = ones(S + 1), telem = ones(d + 1);
    u64 wr = ror(welem, Rr, esize);
    wmask = 0; tmask = 0;
    for (unsigned i = 0; i < M; i += esize) { wmask |= wr << i; tmask |= telem << i; }
    if (M < 64) { wmask &= ones(M); tmask &= ones(M); }
    return true;
  }

  u64 add_with_carry(u64 a, u64 b, bool cin, bool sf, bool setflags) {
    unsigned bits = sf ? 64 : 32;
    u64 m = ones(bits);
    a &= m; b &= m;
    u128 us = (u128)a + (u128)b + (cin ? 1 : 0);
    i128 ss = (i128)sx(a, bits) + (i128)sx(b, bits) + (cin ? 1 : 0);
    u64 r = (u64)us & m;
    if (setflags) {
      fn = (r >> (bits - 1)) & 1; fz = r == 0;
      fc = (us >> bits) != 0;
      fv = (i128)sx(r, bits) != ss;
    }
    return r;
  }

  bool cond_holds(unsigned c) const {
    bool r;
    switch (c >> 1) {
      case 0: r = fz; break;
      case 1: r = fc; break;
      case 2: r = fn; break;
      case 3: r = fv; break;
      case 4: r = fc && !fz; break;
      case 5: r = fn == fv; break;
      case 6: r = fn == fv && !fz; break;
      default: r = true; break;
    }
    if ((c & 1) && c != 15) r = !r;
    return r;
  }

  static u64 shift_reg(u64 v, unsigned type, unsigned amt, bool sf) {
    unsigned bits = sf ? 64 : 32;
    v &= ones(bits);
    amt %= bits;
    switch (type) {
      case 0: return (v << amt) & ones(bits);
      case 1: return v >> amt;
      case 2: return (u64)(sx(v, bits) >> amt) & ones(bits);
      default: return ror(v, amt, bits);
    }
  }
  static u64 extend_reg(u64 v, unsigned option, unsigned shift) {
    switch (option) {
      case 0: v &= 0xFF; break;
      case 1: v &= 0xFFFF; break;
      case 2: v &= 0xFFFFFFFFull; break;
      case 3: break;
      case 4: v = (u64)sx(v, 8); break;
      case 5: v = (u64)sx(v, 16); break;
      case 6: v = (u64)sx(v, 32); break;
      default: break;
    }
    return v << shift;
  }

  // ---- helper callees ----
  void do_callee(u32 id) {
    if (id >= (u32)NCALLEE) { stop(ST_FAULT, "call to an address that is no helper"); return; }
    const CalleeSig& sg = g_sigs[id];
    u64 a[MAXARGS];
    int ni = 0, nd = 0; u64 nsaa = sp;
    if (sp & 15) { stop(ST_FAULT, "stack pointer not 16-byte aligned at a call"); return; }
    for (int k = 0; k < sg.n; k++) {
      u64 v;
      if (sg.kind[k] == AK_F64) {
        if (nd < 8) memcpy(&v, q[nd++], 8); else { v = ld(nsaa, 8); nsaa += 8; }
      }
      else {
        if (ni < 8) v = x[ni++]; else { v = ld(nsaa, 8); nsaa += 8; }
        switch (sg.kind[k]) {
          case AK_U8: v &= 0xFF; break;
          case AK_U16: v &= 0xFFFF; break;
          case AK_U32: v &= 0xFFFFFFFFull; break;
          default: break;
        }
      }
      a[k] = v;
    }
    if (status != ST_RUN) return;
    if (log && ncalls < logcap) {
      CallRec& r = log[ncalls];
      r.callee = id; r.n = sg.n;
      for (int k = 0; k < MAXARGS; k++) r.a[k] = k < sg.n ? a[k] : 0;
    }
    ncalls++;
    u64 res = callee_result(id, sg.n, a);
    // every caller-saved register is overwritten (AAPCS64: x0-x17, v0-v7, v16-v31, bits 64..127 of v8-v15, NZCV)
    const u64 junk = 0x5A5AA5A5C3C33C3Cull;
    for (int i = 0; i <= 17; i++) x[i] = junk + (u64)i;
    for (int i = 0; i < 32; i++) {
      if (i >= 8 && i <= 15) memset(q[i] + 8, 0xA5, 8);
      else memset(q[i], 0xA5, 16);
    }
    fn = true; fz = false; fc = true; fv = true;
    if (sg.ret == RK_F64) memcpy(q[0], &res, 8);
    else if (sg.ret != RK_VOID) x[0] = res;   // RK_U32: the bits above bit 31 are junk (legal)
  }

  // ---- SIMD helpers ----
  static u64 elem(const u8* r, int i, int es) { u64 v = 0; memcpy(&v, r + i * es, es); return v; }
  static void set_elem(u8* r, int i, int es, u64 v) { memcpy(r + i * es, &v, es); }

  void step() {
    if (pc == RET_SENTINEL) { status = ST_DONE; return; }
    if (pc >= CALLEE_BASE && pc < CALLEE_BASE + 64ull * NCALLEE && (pc & 63) == 0) {
      do_callee((u32)((pc - CALLEE_BASE) / 64));
      pc = x[30];
      cls("helper-call");
      return;
    }
    if (pc < CODE_BASE || pc + 4 > CODE_BASE + code_size || (pc & 3)) { char b[80]; snprintf(b, sizeof b, "jump to 0x%llx outside the function", (unsigned long long)pc); stop(ST_FAULT, b); return; }
    u32 w; memcpy(&w, code + (pc - CODE_BASE), 4);
    u64 next = pc + 4;
    steps++;
    auto bits = [&](int hi, int lo) -> u32 { return (w >> lo) & ((1u << (hi - lo + 1)) - 1); };
    auto unsupported = [&]() { char b[64]; snprintf(b, sizeof b, "instruction word %08x at offset 0x%llx", w, (unsigned long long)(pc - CODE_BASE)); stop(ST_UNSUPPORTED, b); };
    const bool sf = (w >> 31) & 1;
    const int rd = (int)bits(4, 0), rn = (int)bits(9, 5), rm = (int)bits(20, 16);
    u32 op0 = bits(28, 25);

    if (w == 0xD503201Fu || (w & 0xFFFFFF3Fu) == 0xD503241Fu) { cls("nop/bti"); pc = next; return; }
    if (w == 0) { stop(ST_FAULT, "udf #0 executed (execution fell into data embedded in the function)"); return; }

    if ((op0 & 0xE) == 0x8) {
      // ---------------- data processing - immediate ----------------
      u32 k = bits(25, 23);
      if (k <= 1) {  // adr / adrp
        i64 imm = sx(((u64)bits(23, 5) << 2) | bits(30, 29), 21);
        if (sf) W(rd, true, (pc & ~0xFFFull) + (u64)(imm << 12)); else W(rd, true, pc + (u64)imm);
        cls("adr");
      }
      else if (k == 2) {  // add/sub immediate
        bool op = (w >> 30) & 1, S = (w >> 29) & 1;
        u64 imm = bits(21, 10); if (bits(22, 22)) imm <<= 12;
        u64 a = R(rn, sf, true);
        u64 r = op ? add_with_carry(a, ~imm, true, sf, S) : add_with_carry(a, imm, false, sf, S);
        W(rd, sf, r, !S);
        cls(S ? "adds/subs-imm" : "add/sub-imm");
      }
      else if (k == 4) {  // logical immediate
        u32 opc = bits(30, 29);
        u64 wm, tm;
        if (!sf && bits(22, 22)) { unsupported(); return; }
        if (!decode_bit_masks(bits(22, 22), bits(15, 10), bits(21, 16), true, sf ? 64 : 32, wm, tm)) { unsupported(); return; }
        u64 a = R(rn, sf), r;
        switch (opc) { case 0: r = a & wm; break; case 1: r = a | wm; break; case 2: r = a ^ wm; break; default: r = a & wm; break; }
        if (opc == 3) { unsigned b = sf ? 64 : 32; r &= ones(b); fn = (r >> (b - 1)) & 1; fz = r == 0; fc = fv = false; }
        W(rd, sf, r, opc != 3);
        cls("logical-imm");
      }
      else if (k == 5) {  // move wide
        u32 opc = bits(30, 29), hw = bits(22, 21);
        u64 imm = (u64)bits(20, 5) << (16 * hw);
        if (!sf && hw > 1) { unsupported(); return; }
        if (opc == 0) W(rd, sf, ~imm);
        else if (opc == 2) W(rd, sf, imm);
        else if (opc == 3) W(rd, sf, (R(rd, sf) & ~(0xFFFFull << (16 * hw))) | imm);
        else { unsupported(); return; }
        cls("movz/movn/movk");
      }
      else if (k == 6) {  // bitfield
        u32 opc = bits(30, 29), N = bits(22, 22), immr = bits(21, 16), imms = bits(15, 10);
        if (N != (u32)sf || opc == 3) { unsupported(); return; }
        u64 wm, tm;
        unsigned M = sf ? 64 : 32;
        if (!decode_bit_masks(N, imms, immr, false, M, wm, tm)) { unsupported(); return; }
        u64 src = R(rn, sf), dst = opc == 1 ? R(rd, sf) : 0;
        u64 bot = (dst & ~wm) | (ror(src, immr, M) & wm);
        u64 r;
        if (opc == 0) { u64 top = ((src >> imms) & 1) ? ones(M) : 0; r = (top & ~tm) | (bot & tm); }
        else if (opc == 1) r = (dst & ~tm) | (bot & tm);
        else r = bot & tm;
        W(rd, sf, r);
        cls("bitfield");
      }
      else if (k == 7) {  // extr
        if (bits(30, 29) != 0 || bits(21, 21) || bits(22, 22) != (u32)sf) { unsupported(); return; }
        unsigned M = sf ? 64 : 32, lsb = bits(15, 10);
        if (lsb >= M) { unsupported(); return; }
        u64 hi = R(rn, sf), lo = R(rm, sf);
        u64 r = lsb ? ((lo >> lsb) | (hi << (M - lsb))) : lo;
        W(rd, sf, r);
        cls("extr");
      }
      else { unsupported(); return; }
      pc = next; return;
    }

    if ((op0 & 0xE) == 0xA) {
      // ---------------- branches, system ----------------
      if ((w & 0x7C000000u) == 0x14000000u) {  // b / bl
        i64 off = sx(bits(25, 0), 26) * 4;
        if (w >> 31) x[30] = next;
        pc = pc + (u64)off; cls(w >> 31 ? "bl" : "b"); return;
      }
      if ((w & 0xFF000010u) == 0x54000000u) {  // b.cond
        i64 off = sx(bits(23, 5), 19) * 4;
        pc = cond_holds(bits(3, 0)) ? pc + (u64)off : next; cls("b.cond"); return;
      }
      if ((w & 0x7E000000u) == 0x34000000u) {  // cbz / cbnz
        i64 off = sx(bits(23, 5), 19) * 4;
        bool zero = R(rd, sf) == 0;
        bool nz = (w >> 24) & 1;
        pc = (zero != nz) ? pc + (u64)off : next; cls("cbz/cbnz"); return;
      }
      if ((w & 0x7E000000u) == 0x36000000u) {  // tbz / tbnz
        i64 off = sx(bits(18, 5), 14) * 4;
        unsigned bit = (bits(31, 31) << 5) | bits(23, 19);
        bool set = (R(rd, true) >> bit) & 1;
        bool nz = (w >> 24) & 1;
        pc = (set == nz) ? pc + (u64)off : next; cls("tbz/tbnz"); return;
      }
      if ((w & 0xFFFFFC1Fu) == 0xD61F0000u) { pc = R(rn, true); cls("br"); return; }
      if ((w & 0xFFFFFC1Fu) == 0xD63F0000u) { u64 t = R(rn, true); x[30] = next; pc = t; cls("blr"); return; }
      if ((w & 0xFFFFFC1Fu) == 0xD65F0000u) { pc = R(rn, true); cls("ret"); return; }
      unsupported(); return;
    }

    if ((op0 & 0x5) == 0x4) {
      // ---------------- loads and stores ----------------
      bool V = (w >> 26) & 1;
      u32 cls27 = bits(29, 27);
      if (cls27 == 5) {  // load/store pair
        u32 opc = bits(31, 30), idx = bits(24, 23); bool L = (w >> 22) & 1;
        int rt = rd, rt2 = (int)bits(14, 10);
        int size;  // bytes per register
        bool sign = false;
        if (V) { if (opc == 3) { unsupported(); return; } size = 4 << opc; }
        else { if (opc == 3) { unsupported(); return; } if (opc == 1) { if (!L) { unsupported(); return; } sign = true; size = 4; } else size = opc == 2 ? 8 : 4; }
        if (idx == 0) { unsupported(); return; }
        i64 off = sx(bits(21, 15), 7) * size;
        u64 b = base(rn); if (status != ST_RUN) return;
        u64 addr = idx == 1 ? b : b + (u64)off;
        if (L) {
          if (V) {
            u8* p0 = mem(addr, size, false); u8* p1 = mem(addr + size, size, false); if (!p0 || !p1) return;
            u8 t0[16], t1[16]; memcpy(t0, p0, size); memcpy(t1, p1, size);
            memset(q[rt], 0, 16); memset(q[rt2], 0, 16); memcpy(q[rt], t0, size); memcpy(q[rt2], t1, size);
          }
          else {
            u64 v0 = ld(addr, size), v1 = ld(addr + size, size); if (status != ST_RUN) return;
            if (sign) { v0 = (u64)sx(v0, 32); v1 = (u64)sx(v1, 32); }
            W(rt, true, v0); W(rt2, true, v1);
          }
        }
        else {
          if (V) { u8* p0 = mem(addr, size, true); u8* p1 = mem(addr + size, size, true); if (!p0 || !p1) return; memcpy(p0, q[rt], size); memcpy(p1, q[rt2], size); }
          else { st(addr, size, R(rt, true)); st(addr + size, size, R(rt2, true)); if (status != ST_RUN) return; }
        }
        if (idx == 1 || idx == 3) { u64 nb = b + (u64)off; if (rn == 31) sp = nb; else x[rn] = nb; }
        cls(V ? (L ? "ldp-vec" : "stp-vec") : (L ? "ldp" : "stp"));
        pc = next; return;
      }
      if (cls27 == 7) {  // load/store register (all single-register forms)
        u32 size = bits(31, 30), opc = bits(23, 22);
        int rt = rd;
        int nbytes; bool load, sign = false, to32 = false;
        if (V) {
          if (opc & 2) { if (size != 0) { unsupported(); return; } nbytes = 16; } else nbytes = 1 << size;
          load = opc & 1;
        }
        else {
          nbytes = 1 << size;
          if (opc == 0) load = false;
          else if (opc == 1) load = true;
          else { if (size == 3) { unsupported(); return; } if (size == 2 && opc == 3) { unsupported(); return; } load = true; sign = true; to32 = opc == 3; }
        }
        u64 addr; bool wb = false; u64 wbv = 0;
        u64 b = base(rn); if (status != ST_RUN) return;
        const char* form;
        if ((w >> 24) & 1) { addr = b + (u64)bits(21, 10) * (u64)nbytes; form = "uimm"; }
        else if (!((w >> 21) & 1)) {
          i64 off = sx(bits(20, 12), 9);
          u32 m = bits(11, 10);
          if (m == 0) { addr = b + (u64)off; form = "unscaled"; }
          else if (m == 1) { addr = b; wb = true; wbv = b + (u64)off; form = "post"; }
          else if (m == 3) { addr = b + (u64)off; wb = true; wbv = addr; form = "pre"; }
          else { unsupported(); return; }
        }
        else {
          if (bits(11, 10) != 2) { unsupported(); return; }
          u32 option = bits(15, 13); bool S = (w >> 12) & 1;
          if (!(option & 2)) { unsupported(); return; }
          unsigned sh = S ? (unsigned)__builtin_ctz(nbytes) : 0;
          addr = b + extend_reg(R(rm, true), option, sh); form = "regoff";
        }
        if (load) {
          if (V) { u8* p = mem(addr, nbytes, false); if (!p) return; u8 t[16]; memcpy(t, p, nbytes); memset(q[rt], 0, 16); memcpy(q[rt], t, nbytes); }
          else {
            u64 v = ld(addr, nbytes); if (status != ST_RUN) return;
            if (sign) { v = (u64)sx(v, 8 * nbytes); if (to32) v &= 0xFFFFFFFFull; }
            if (rt != 31) x[rt] = v;   // loads narrower than 64 bits clear the upper bits
          }
        }
        else {
          if (V) { u8* p = mem(addr, nbytes, true); if (!p) return; memcpy(p, q[rt], nbytes); }
          else { st(addr, nbytes, R(rt, true)); if (status != ST_RUN) return; }
        }
        if (wb) { if (rn == 31) sp = wbv; else x[rn] = wbv; }
        if (classes) (*classes)[std::string(V ? (load ? "ldr-vec-" : "str-vec-") : (load ? "ldr-" : "str-")) + form]++;
        pc = next; return;
      }
      if (cls27 == 3 && !V && bits(25, 24) == 0) {  // load register (literal)
        u32 opc = bits(31, 30);
        i64 off = sx(bits(23, 5), 19) * 4;
        if (opc == 3) { unsupported(); return; }
        int nbytes = opc == 0 ? 4 : opc == 1 ? 8 : 4;
        u64 v = ld(pc + (u64)off, nbytes); if (status != ST_RUN) return;
        if (opc == 2) v = (u64)sx(v, 32);
        W(rd, true, v); cls("ldr-literal"); pc = next; return;
      }
      if (cls27 == 1 && V && !(w >> 31)) {  // AdvSIMD load/store structures
        bool Q = (w >> 30) & 1, L = (w >> 22) & 1;
        bool single = (w >> 24) & 1, post = (w >> 23) & 1;
        u64 b = base(rn); if (status != ST_RUN) return;
        u64 offs = 0;
        int t = rd;
        if (!single) {
          if (bits(21, 21) || (!post && bits(20, 16))) { unsupported(); return; }
          u32 opcode = bits(15, 12), size = bits(11, 10);
          int rpt, selem;
          switch (opcode) {
            case 0: rpt = 1; selem = 4; break; case 2: rpt = 4; selem = 1; break; case 4: rpt = 1; selem = 3; break; case 6: rpt = 3; selem = 1; break;
            case 7: rpt = 1; selem = 1; break; case 8: rpt = 1; selem = 2; break; case 10: rpt = 2; selem = 1; break;
            default: unsupported(); return;
          }
          int ebytes = 1 << size, datasize = Q ? 16 : 8, elements = datasize / ebytes;
          if (size == 3 && !Q && selem != 1) { unsupported(); return; }
          u8 tmp[4][16];
          for (int i = 0; i < 4; i++) memcpy(tmp[i], q[(t + i) % 32], 16);
          for (int r = 0; r < rpt; r++)
            for (int e = 0; e < elements; e++) {
              int tt = r;
              for (int s = 0; s < selem; s++) {
                if (L) { u64 v = ld(b + offs, ebytes); if (status != ST_RUN) return; set_elem(tmp[tt], e, ebytes, v); }
                else { st(b + offs, ebytes, elem(tmp[tt], e, ebytes)); if (status != ST_RUN) return; }
                offs += ebytes; tt++;
              }
            }
          if (L) for (int i = 0; i < rpt * selem; i++) { if (!Q) memset(tmp[i] + 8, 0, 8); memcpy(q[(t + i) % 32], tmp[i], 16); }
          if (classes) { char nm[40]; snprintf(nm, sizeof nm, "%s%d-multi-%dreg%s", L ? "ld" : "st", selem, rpt * selem, post ? "-post" : ""); (*classes)[nm]++; }
        }
        else {
          bool Rb = (w >> 21) & 1; bool S = (w >> 12) & 1;
          u32 opcode = bits(15, 13), size = bits(11, 10);
          if (!post && bits(20, 16)) { unsupported(); return; }
          int scale = (int)(opcode >> 1), selem = (int)(((opcode & 1) << 1) | (Rb ? 1 : 0)) + 1;
          bool replicate = false; int index = 0;
          switch (scale) {
            case 3: if (!L || S) { unsupported(); return; } scale = (int)size; replicate = true; break;
            case 0: index = (int)((Q << 3) | (S << 2) | size); break;
            case 1: if (size & 1) { unsupported(); return; } index = (int)((Q << 2) | (S << 1) | (size >> 1)); break;
            default:
              if (size & 2) { unsupported(); return; }
              if (!(size & 1)) index = (int)((Q << 1) | S);
              else { if (S) { unsupported(); return; } index = Q; scale = 3; }
              break;
          }
          int ebytes = 1 << scale;
          for (int s = 0; s < selem; s++) {
            int tt = (t + s) % 32;
            if (replicate) {
              u64 v = ld(b + offs, ebytes); if (status != ST_RUN) return;
              u8 tmp[16]; memset(tmp, 0, 16);
              for (int e = 0; e < (Q ? 16 : 8) / ebytes; e++) set_elem(tmp, e, ebytes, v);
              memcpy(q[tt], tmp, 16);
            }
            else if (L) { u64 v = ld(b + offs, ebytes); if (status != ST_RUN) return; set_elem(q[tt], index, ebytes, v); }
            else { st(b + offs, ebytes, elem(q[tt], index, ebytes)); if (status != ST_RUN) return; }
            offs += ebytes;
          }
          if (classes) { char nm[40]; snprintf(nm, sizeof nm, "%s%d%s%s", L ? "ld" : "st", selem, replicate ? "r" : "-lane", post ? "-post" : ""); (*classes)[nm]++; }
        }
        if (post) { u64 nb = b + (rm == 31 ? offs : x[rm]); if (rn == 31) sp = nb; else x[rn] = nb; }
        pc = next; return;
      }
      unsupported(); return;
    }

    if ((op0 & 0x7) == 0x5) {
      // ---------------- data processing - register ----------------
      bool op1 = (w >> 28) & 1;
      u32 op2 = bits(24, 21);
      if (!op1) {
        if (!(op2 & 8)) {  // logical shifted register
          u32 opc = bits(30, 29), sh = bits(23, 22), N = bits(21, 21), imm6 = bits(15, 10);
          if (!sf && imm6 > 31) { unsupported(); return; }
          u64 b = shift_reg(R(rm, sf), sh, imm6, sf);
          if (N) b = ~b;
          u64 a = R(rn, sf), r;
          switch (opc) { case 0: r = a & b; break; case 1: r = a | b; break; case 2: r = a ^ b; break; default: r = a & b; break; }
          if (opc == 3) { unsigned bb = sf ? 64 : 32; r &= ones(bb); fn = (r >> (bb - 1)) & 1; fz = r == 0; fc = fv = false; }
          W(rd, sf, r);
          cls("logical-reg");
        }
        else if (!(op2 & 1)) {  // add/sub shifted register
          bool op = (w >> 30) & 1, S = (w >> 29) & 1;
          u32 sh = bits(23, 22), imm6 = bits(15, 10);
          if (sh == 3 || (!sf && imm6 > 31)) { unsupported(); return; }
          u64 b = shift_reg(R(rm, sf), sh, imm6, sf);
          u64 r = op ? add_with_carry(R(rn, sf), ~b, true, sf, S) : add_with_carry(R(rn, sf), b, false, sf, S);
          W(rd, sf, r);
          cls(S ? "adds/subs-reg" : "add/sub-reg");
        }
        else {  // add/sub extended register
          bool op = (w >> 30) & 1, S = (w >> 29) & 1;
          u32 option = bits(15, 13), imm3 = bits(12, 10);
          if (bits(23, 22) || imm3 > 4) { unsupported(); return; }
          u64 b = extend_reg(R(rm, true), option, imm3);
          u64 a = R(rn, sf, true);
          u64 r = op ? add_with_carry(a, ~b, true, sf, S) : add_with_carry(a, b, false, sf, S);
          W(rd, sf, r, !S);
          cls("add/sub-ext");
        }
        pc = next; return;
      }
      if (op2 == 0 && bits(15, 10) == 0) {  // adc / sbc
        bool op = (w >> 30) & 1, S = (w >> 29) & 1;
        u64 b = R(rm, sf); if (op) b = ~b;
        W(rd, sf, add_with_carry(R(rn, sf), b, fc, sf, S));
        cls("adc/sbc"); pc = next; return;
      }
      if (op2 == 4 && !((w >> 29) & 1) && !(bits(11, 10) & 2)) {  // conditional select
        bool op = (w >> 30) & 1; bool o2 = (w >> 10) & 1;
        u64 r;
        if (cond_holds(bits(15, 12))) r = R(rn, sf);
        else { r = R(rm, sf); if (op) r = ~r; if (o2) r = r + 1; }
        W(rd, sf, r);
        cls("csel/csinc/csinv/csneg"); pc = next; return;
      }
      if (op2 == 6) {
        if (!((w >> 30) & 1)) {  // 2 source
          u32 opcode = bits(15, 10);
          if ((w >> 29) & 1) { unsupported(); return; }
          unsigned M = sf ? 64 : 32;
          u64 a = R(rn, sf), b = R(rm, sf), r;
          switch (opcode) {
            case 2: r = b ? a / b : 0; break;
            case 3: { i64 sa = sx(a, M), sb = sx(b, M); r = sb == 0 ? 0 : (sb == -1 ? (u64)(0 - (u64)sa) : (u64)(sa / sb)); break; }
            case 8: r = shift_reg(a, 0, (unsigned)(b % M), sf); break;
            case 9: r = shift_reg(a, 1, (unsigned)(b % M), sf); break;
            case 10: r = shift_reg(a, 2, (unsigned)(b % M), sf); break;
            case 11: r = shift_reg(a, 3, (unsigned)(b % M), sf); break;
            default: unsupported(); return;
          }
          W(rd, sf, r);
          cls(opcode < 8 ? "udiv/sdiv" : "shift-variable"); pc = next; return;
        }
        else {  // 1 source
          u32 opcode = bits(15, 10);
          if (rm != 0 || ((w >> 29) & 1)) { unsupported(); return; }
          unsigned M = sf ? 64 : 32;
          u64 a = R(rn, sf), r;
          switch (opcode) {
            case 0: { r = 0; for (unsigned i = 0; i < M; i++) if ((a >> i) & 1) r |= 1ull << (M - 1 - i); break; }
            case 2: if (sf) { r = ((u64)__builtin_bswap32((u32)a)) | ((u64)__builtin_bswap32((u32)(a >> 32)) << 32); } else r = __builtin_bswap32((u32)a); break;
            case 3: if (!sf) { unsupported(); return; } r = __builtin_bswap64(a); break;
            case 4: r = a ? (u64)(__builtin_clzll(a) - (64 - M)) : M; break;
            default: unsupported(); return;
          }
          W(rd, sf, r);
          cls("rbit/rev/clz"); pc = next; return;
        }
      }
      if (op2 & 8) {  // 3 source
        u32 op31 = bits(23, 21); bool o0 = (w >> 15) & 1; int ra = (int)bits(14, 10);
        if (bits(30, 29)) { unsupported(); return; }
        u64 r;
        if (op31 == 0) { u64 p = R(rn, sf) * R(rm, sf); r = o0 ? R(ra, sf) - p : R(ra, sf) + p; }
        else if (!sf) { unsupported(); return; }
        else if (op31 == 1) { i64 p = (i64)(i32)R(rn, false) * (i64)(i32)R(rm, false); r = o0 ? R(ra, true) - (u64)p : R(ra, true) + (u64)p; }
        else if (op31 == 5) { u64 p = (R(rn, false)) * (R(rm, false)); r = o0 ? R(ra, true) - p : R(ra, true) + p; }
        else if (op31 == 2 && !o0) { r = (u64)(((i128)(i64)R(rn, true) * (i128)(i64)R(rm, true)) >> 64); }
        else if (op31 == 6 && !o0) { r = (u64)(((u128)R(rn, true) * (u128)R(rm, true)) >> 64); }
        else { unsupported(); return; }
        W(rd, sf, r);
        cls("madd/msub/mulh"); pc = next; return;
      }
      unsupported(); return;
    }

    if ((op0 & 0x7) == 0x7) {
      // ---------------- SIMD and FP ----------------
      // fmov (general)
      if ((w & 0x7F3FFC00u) == 0x1E260000u || (w & 0x7F3FFC00u) == 0x1E270000u) {
        u32 ftype = bits(23, 22); bool to_fp = (w >> 16) & 1;
        if (sf && ftype == 1) { if (to_fp) { u64 v = R(rn, true); memset(q[rd], 0, 16); memcpy(q[rd], &v, 8); } else { u64 v; memcpy(&v, q[rn], 8); W(rd, true, v); } }
        else if (!sf && ftype == 0) { if (to_fp) { u64 v = R(rn, false); memset(q[rd], 0, 16); memcpy(q[rd], &v, 4); } else { u64 v = 0; memcpy(&v, q[rn], 4); W(rd, false, v); } }
        else { unsupported(); return; }
        cls("fmov-gp"); pc = next; return;
      }
      // fmov (register)
      if ((w & 0xFF3FFC00u) == 0x1E204000u) {
        u32 ftype = bits(23, 22);
        int n = ftype == 0 ? 4 : ftype == 1 ? 8 : ftype == 3 ? 2 : 0;
        if (!n) { unsupported(); return; }
        u8 t[16]; memset(t, 0, 16); memcpy(t, q[rn], n); memcpy(q[rd], t, 16);
        cls("fmov-reg"); pc = next; return;
      }
      if (!(w >> 31) && bits(28, 24) == 0x0E && bits(21, 21) == 1 && bits(10, 10) == 1) {  // AdvSIMD three same
        bool Q = (w >> 30) & 1, U = (w >> 29) & 1;
        u32 size = bits(23, 22), opcode = bits(15, 11);
        int n = Q ? 16 : 8, es = 1 << size;
        u8 a[16], b[16], d[16], r[16]; memcpy(a, q[rn], 16); memcpy(b, q[rm], 16); memcpy(d, q[rd], 16); memset(r, 0, 16);
        if (opcode == 3) {  // logical
          for (int i = 0; i < n; i++) {
            u8 v;
            if (!U) v = size == 0 ? (a[i] & b[i]) : size == 1 ? (a[i] & ~b[i]) : size == 2 ? (a[i] | b[i]) : (a[i] | ~b[i]);
            else v = size == 0 ? (u8)(a[i] ^ b[i]) : size == 1 ? (u8)(b[i] ^ ((b[i] ^ a[i]) & d[i])) : size == 2 ? (u8)(d[i] ^ ((d[i] ^ a[i]) & b[i])) : (u8)(d[i] ^ ((d[i] ^ a[i]) & ~b[i]));
            r[i] = v;
          }
          cls("vec-logical");
        }
        else {
          if (size == 3 && !Q) { unsupported(); return; }
          for (int i = 0; i < n / es; i++) {
            u64 xv = elem(a, i, es), yv = elem(b, i, es), m = ones(8 * es), v;
            switch (opcode) {
              case 16: v = U ? xv - yv : xv + yv; break;
              case 19: if (U || size == 3) { unsupported(); return; } v = xv * yv; break;
              case 17: if (!U) { v = (xv & yv) ? m : 0; } else v = xv == yv ? m : 0; break;
              case 6: v = U ? (xv > yv ? m : 0) : (sx(xv, 8 * es) > sx(yv, 8 * es) ? m : 0); break;
              case 7: v = U ? (xv >= yv ? m : 0) : (sx(xv, 8 * es) >= sx(yv, 8 * es) ? m : 0); break;
              case 12: if (size == 3) { unsupported(); return; } v = U ? (xv > yv ? xv : yv) : (sx(xv, 8 * es) > sx(yv, 8 * es) ? xv : yv); break;
              case 13: if (size == 3) { unsupported(); return; } v = U ? (xv < yv ? xv : yv) : (sx(xv, 8 * es) < sx(yv, 8 * es) ? xv : yv); break;
              default: unsupported(); return;
            }
            set_elem(r, i, es, v & m);
          }
          cls("vec-arith");
        }
        memcpy(q[rd], r, 16); pc = next; return;
      }
      if (!(w >> 31) && bits(28, 23) == 0x1E && bits(10, 10) == 1 && bits(22, 19) != 0) {  // AdvSIMD shift by immediate
        bool Q = (w >> 30) & 1, U = (w >> 29) & 1;
        u32 immh = bits(22, 19), immb = bits(18, 16), opcode = bits(15, 11);
        int hb = 31 - __builtin_clz(immh);
        int es = 1 << hb, esize = 8 * es, n = Q ? 16 : 8;
        if (hb == 3 && !Q) { unsupported(); return; }
        unsigned imm7 = (immh << 3) | immb;
        u8 a[16], r[16]; memcpy(a, q[rn], 16); memset(r, 0, 16);
        for (int i = 0; i < n / es; i++) {
          u64 xv = elem(a, i, es), v;
          if (opcode == 10 && !U) { unsigned s = imm7 - esize; v = xv << s; }
          else if (opcode == 0) { unsigned s = 2 * esize - imm7; v = U ? (s >= 64 ? 0 : xv >> s) : (u64)(sx(xv, esize) >> (s >= 64 ? 63 : s)); }
          else { unsupported(); return; }
          set_elem(r, i, es, v & ones(esize));
        }
        memcpy(q[rd], r, 16); cls("vec-shift-imm"); pc = next; return;
      }
      if (!(w >> 31) && bits(28, 24) == 0x0F && bits(10, 10) == 0 && !((w >> 29) & 1) && bits(15, 12) == 8) {  // mul (by element)
        bool Q = (w >> 30) & 1;
        u32 size = bits(23, 22), L = bits(21, 21), M = bits(20, 20), H = bits(11, 11);
        int es, idx, m;
        if (size == 1) { es = 2; idx = (int)((H << 2) | (L << 1) | M); m = (int)bits(19, 16); }
        else if (size == 2) { es = 4; idx = (int)((H << 1) | L); m = (int)bits(20, 16); }
        else { unsupported(); return; }
        u8 a[16], r[16]; memcpy(a, q[rn], 16); memset(r, 0, 16);
        u64 e = elem(q[m], idx, es);
        for (int i = 0; i < (Q ? 16 : 8) / es; i++) set_elem(r, i, es, (elem(a, i, es) * e) & ones(8 * es));
        memcpy(q[rd], r, 16); cls("mul-by-element"); pc = next; return;
      }
      if ((w & 0xBFE08C00u) == 0x0E000000u) {  // tbl / tbx
        bool Q = (w >> 30) & 1; int len = (int)bits(14, 13) + 1; bool tbx = (w >> 12) & 1;
        u8 table[64], idx[16], r[16];
        for (int i = 0; i < len; i++) memcpy(table + 16 * i, q[(rn + i) % 32], 16);
        memcpy(idx, q[rm], 16);
        if (tbx) memcpy(r, q[rd], 16); else memset(r, 0, 16);
        for (int i = 0; i < (Q ? 16 : 8); i++) if (idx[i] < 16 * len) r[i] = table[idx[i]];
        if (!Q) memset(r + 8, 0, 8);
        memcpy(q[rd], r, 16);
        if (classes) { char nm[24]; snprintf(nm, sizeof nm, "%s-%dreg", tbx ? "tbx" : "tbl", len); (*classes)[nm]++; }
        pc = next; return;
      }
      if ((w & 0xBFE0FC00u) == 0x0E000C00u) {  // dup (general)
        bool Q = (w >> 30) & 1; u32 imm5 = bits(20, 16);
        int hb = __builtin_ctz(imm5 | 0x20); if (hb > 3 || (hb == 3 && !Q)) { unsupported(); return; }
        int es = 1 << hb; u64 v = R(rn, true) & ones(8 * es);
        u8 r[16]; memset(r, 0, 16);
        for (int i = 0; i < (Q ? 16 : 8) / es; i++) set_elem(r, i, es, v);
        memcpy(q[rd], r, 16); cls("dup-gp"); pc = next; return;
      }
      if ((w & 0xBFE0FC00u) == 0x0E003C00u) {  // umov / mov to general
        bool Q = (w >> 30) & 1; u32 imm5 = bits(20, 16);
        int hb = __builtin_ctz(imm5 | 0x20); if (hb > 3 || (hb == 3) != Q) { unsupported(); return; }
        int es = 1 << hb; int index = (int)(imm5 >> (hb + 1));
        W(rd, true, elem(q[rn], index, es)); cls("umov"); pc = next; return;
      }
      if ((w & 0xFFE0FC00u) == 0x4E001C00u) {  // ins (general)
        u32 imm5 = bits(20, 16);
        int hb = __builtin_ctz(imm5 | 0x20); if (hb > 3) { unsupported(); return; }
        int es = 1 << hb; int index = (int)(imm5 >> (hb + 1));
        set_elem(q[rd], index, es, R(rn, true) & ones(8 * es)); cls("ins-gp"); pc = next; return;
      }
      unsupported(); return;
    }
    unsupported();
  }

  void run(u64 max_steps) {
    while (status == ST_RUN) {
      if (steps > max_steps) { stop(ST_LIMIT, "step limit (generated code does not terminate)"); break; }
      step();
    }
  }
};

// runs one compiled AArch64 function on every input; results go to the shared slots exactly like native execution
struct SimNote { int status = 0; int input = -1; std::string msg; u64 off = 0; };

static const char* const kA64Preserved = "x19-x28, x29, sp, d8-d15";

static SimNote a64_exec_program(const Program& P, const std::vector<u8>& code, const std::vector<RunInput>& inputs, int slot_base,
                                std::map<std::string, u64>* classes, u64* steps_out) {
  SimNote note;
  const SigClass& sc = kSigClasses[P.sigclass];
  bool retd = P.retval >= 0 && P.vals[P.retval].kind == KIND_D;
  std::vector<u8> bufmem(BUF_SIZE);
  for (size_t k = 0; k < inputs.size(); k++) {
    const RunInput& in = inputs[k];
    ShmSlot& s = g_shm->slot[slot_base + k];
    A64Sim m;
    m.code = code.data(); m.code_size = code.size();
    memset(bufmem.data(), 0, BUF_SIZE);
    memcpy(bufmem.data(), in.data, DATA_SIZE);
    m.buf = bufmem.data(); m.buf_size = BUF_SIZE;
    m.log = s.calls; m.logcap = CALLCAP; m.classes = classes;
    for (int i = 0; i < 31; i++) m.x[i] = 0xE1E1E1E100000000ull + (u64)i * 0x01010101ull;
    for (int i = 0; i < 32; i++) for (int j = 0; j < 16; j++) m.q[i][j] = (u8)(0x21 + ((i * 67 + j * 13) % 89));
    // AAPCS64: integer arguments in x0-x7, floating-point arguments in d0-d7, the rest in 8-byte stack slots in argument order
    u64 stack_args[40]; int ns = 0, ni = 0, nd = 0;
    m.x[ni++] = A64Sim::BUF_BASE;
    for (int a = 0; a < sc.ni; a++) { if (ni < 8) m.x[ni++] = in.iargs[a]; else stack_args[ns++] = in.iargs[a]; }
    for (int a = 0; a < sc.nd; a++) { if (nd < 8) { memset(m.q[nd], 0x77, 16); memcpy(m.q[nd], &in.dargs[a], 8); nd++; } else stack_args[ns++] = in.dargs[a]; }
    u64 sp0 = (A64Sim::STACK_TOP - 4096 - 8 * (u64)ns) & ~15ull;
    m.sp = sp0;
    for (int i = 0; i < ns; i++) m.st(sp0 + 8 * (u64)i, 8, stack_args[i]);
    m.x[30] = A64Sim::RET_SENTINEL;
    m.pc = A64Sim::CODE_BASE;
    u64 keep_x[11]; for (int i = 0; i < 11; i++) keep_x[i] = m.x[19 + i];
    u64 keep_d[8]; for (int i = 0; i < 8; i++) memcpy(&keep_d[i], m.q[8 + i], 8);
    m.run(4000000);
    if (steps_out) *steps_out += m.steps;
    if (m.status != A64Sim::ST_DONE) {
      note.status = m.status; note.input = (int)k; note.msg = m.msg; note.off = m.fault_pc - A64Sim::CODE_BASE;
      return note;
    }
    std::string clob;
    for (int i = 0; i < 11; i++) if (m.x[19 + i] != keep_x[i]) clob += " x" + std::to_string(19 + i);
    for (int i = 0; i < 8; i++) { u64 v; memcpy(&v, m.q[8 + i], 8); if (v != keep_d[i]) clob += " d" + std::to_string(8 + i); }
    if (m.sp != sp0) clob += " sp";
    if (!clob.empty()) {
      note.status = 100; note.input = (int)k; note.msg = "registers the callee must preserve (" + std::string(kA64Preserved) + ") differ after the return:" + clob;
      return note;
    }
    u64 r = 0;
    if (retd) memcpy(&r, m.q[0], 8); else r = m.x[0];
    s.ret = r;
    s.ncalls = m.ncalls;
    memcpy(s.buf, bufmem.data(), BUF_SIZE);
    s.done = 1;
  }
  return note;
}

// @@GATE32@@
// ---------------------------------------------------------------------------------------------------------------
// x86-32 execution from this 64-bit process: the generated code is relocated to a fixed low address, entered through
// a far return into the 32-bit code segment (0x23) and left through a far jump back into a 64-bit thunk (0x33).
// Helper callees are 32-bit stubs at the addresses the emitter calls (0x08000000 + id * 64); each stub far-calls a
// 64-bit thunk that hands the 32-bit stack frame to a C handler (logs the arguments, overwrites caller-saved registers).
// Everything below 4 GiB is generated at run time, so the driver needs no special link flags.
// ---------------------------------------------------------------------------------------------------------------

extern "C" {
  u64 ra_host_rsp __attribute__((used));
  u64 ra32_gate_stack __attribute__((used));
  u64 ra32_entry __attribute__((used));
  void ra_gate32();
}
asm(R"ASM(
.text
.globl ra_gate32
.type ra_gate32,@function
ra_gate32:
  push %rbx
  push %rbp
  push %r12
  push %r13
  push %r14
  push %r15
  mov %rsp, ra_host_rsp(%rip)
  mov ra32_gate_stack(%rip), %rsp
  mov $0x2b, %eax
  mov %eax, %ds
  mov %eax, %es
  pushq $0x23
  mov ra32_entry(%rip), %rax
  push %rax
  lretq
.size ra_gate32, .-ra_gate32
)ASM");

struct Ctx32 {
  u32 target, esp_in, saved_esp, in_ecx, in_edx, in_ebx, in_esi, in_edi, in_ebp;
  u32 out_esp, out_eax, out_edx, out_ebx, out_esi, out_edi, out_ebp, want_st0, pad;
  u64 out_st0, callee_ret, cb_stack;
};

static const int G32_MAXCALLEE = 64;
static u8* g32_low = nullptr;
static Ctx32* g32_ctx = nullptr;
static u8* g32_stack = nullptr;     // 1 MiB, guard pages on both sides
static u8* g32_buf = nullptr;       // argument buffer (guard pages on both sides)
static const size_t G32_STACK_SIZE = 1u << 20;

struct Asm32 { u8* p; void b(u8 x) { *p++ = x; } void d(u32 x) { memcpy(p, &x, 4); p += 4; } void q(u64 x) { memcpy(p, &x, 8); p += 8; }
               void bs(std::initializer_list<int> l) { for (int x : l) *p++ = (u8)x; } };

// bytes of stack arguments of a callee on x86-32 (cdecl / stdcall: everything is on the stack)
static int callee_stack_bytes32(int id) {
  const CalleeSig& s = g_sigs[id];
  int n = 0;
  for (int k = 0; k < s.n; k++) n += (s.kind[k] == AK_F64 || s.kind[k] == AK_U64) ? 8 : 4;
  return n;
}

extern "C" NOSAN __attribute__((used)) u64 ra32_callee_handler(u8* frame) {
  // frame: +0 saved rdi, +8 saved rsi, +16 far return (eip, cs), +24 callee id, +28 return address into the generated code, +32 arguments
  u32 id = *(u32*)(frame + 24);
  const u8* ap = frame + 32;
  const CalleeSig& sg = g_sigs[id];
  u64 a[MAXARGS];
  for (int k = 0; k < sg.n; k++) {
    u64 v = 0;
    switch (sg.kind[k]) {
      case AK_U8: v = *(const u32*)ap & 0xFF; ap += 4; break;
      case AK_U16: v = *(const u32*)ap & 0xFFFF; ap += 4; break;
      case AK_U32: v = *(const u32*)ap; ap += 4; break;
      default: memcpy(&v, ap, 8); ap += 8; break;
    }
    a[k] = v;
  }
  u32 n = *g_logn;
  if (n < g_logcap) {
    CallRec& r = g_log[n];
    r.callee = id; r.n = sg.n;
    for (int k = 0; k < MAXARGS; k++) r.a[k] = k < sg.n ? a[k] : 0;
  }
  *g_logn = n + 1;
  u64 res = callee_result(id, sg.n, a);
  if (sg.ret == RK_F64) res = x87_safe(res);
  g32_ctx->callee_ret = res;
  trash_caller_saved();
  return res;
}

static void init_exec32() {
  if (g32_low) return;
  u8* low = (u8*)mmap((void*)(uintptr_t)G32_BASE, G32_SIZE, PROT_READ | PROT_WRITE | PROT_EXEC, MAP_PRIVATE | MAP_ANONYMOUS | MAP_FIXED_NOREPLACE, -1, 0);
  size_t pg = 4096, bsz = (BUF_SIZE + 512 + pg - 1) / pg * pg;
  u8* stk = (u8*)mmap(nullptr, G32_STACK_SIZE + 2 * 65536, PROT_NONE, MAP_PRIVATE | MAP_ANONYMOUS | MAP_32BIT, -1, 0);
  u8* bf = (u8*)mmap(nullptr, bsz + 2 * pg, PROT_NONE, MAP_PRIVATE | MAP_ANONYMOUS | MAP_32BIT, -1, 0);
  u8* aux = (u8*)mmap(nullptr, 2 * 65536, PROT_READ | PROT_WRITE, MAP_PRIVATE | MAP_ANONYMOUS | MAP_32BIT, -1, 0);
  if (low == MAP_FAILED || (uintptr_t)low != G32_BASE || stk == MAP_FAILED || bf == MAP_FAILED || aux == MAP_FAILED) {
    printf("{\"mode\":\"x86\",\"violations\":[],\"harness_errors\":[\"cannot map low memory for 32-bit execution\"]}\n"); exit(0);
  }
  g32_low = low;
  g32_stack = stk + 65536; mprotect(g32_stack, G32_STACK_SIZE, PROT_READ | PROT_WRITE);
  g32_buf = bf + pg; mprotect(g32_buf, bsz, PROT_READ | PROT_WRITE);
  g32_ctx = (Ctx32*)(low + G32_CTX);
  memset(g32_ctx, 0, sizeof *g32_ctx);
  g32_ctx->cb_stack = (u64)(uintptr_t)(aux + 65536 - 64);
  ra32_gate_stack = (u64)(uintptr_t)(aux + 2 * 65536 - 256);
  ra32_entry = (u64)(uintptr_t)(low + G32_ENTRY);
#define C32(f) ((u32)(uintptr_t)&g32_ctx->f)
  // helper callee stubs (32-bit): push id ; call far 0x33:thunk ; add esp, 4 ; [fld qword result] ; ret [n]
  for (int id = 0; id < NCALLEE && id < G32_MAXCALLEE; id++) {
    Asm32 a{ low + 64 * id };
    a.b(0x68); a.d((u32)id);
    a.b(0x9A); a.d(G32_BASE + G32_THUNK); a.bs({0x33, 0x00});
    a.bs({0x83, 0xC4, 0x04});
    if (g_sigs[id].ret == RK_F64) { a.bs({0xDD, 0x05}); a.d(C32(callee_ret)); }
    int pop = (id & 1) ? callee_stack_bytes32(id) : 0;   // odd ids are called as stdcall: the callee removes its arguments
    if (pop) { a.b(0xC2); a.b((u8)(pop & 0xFF)); a.b((u8)(pop >> 8)); } else a.b(0xC3);
  }
  { // 64-bit thunk entered from the stubs
    Asm32 a{ low + G32_THUNK };
    a.bs({0x89, 0xE4});                          // mov esp, esp (clears bits 32..63 of rsp)
    a.bs({0x56, 0x57});                          // push rsi ; push rdi
    a.bs({0x48, 0x89, 0xE7});                    // mov rdi, rsp
    a.bs({0x48, 0x89, 0xE0});                    // mov rax, rsp
    a.bs({0x48, 0x8B, 0x24, 0x25}); a.d(C32(cb_stack));   // mov rsp, [cb_stack]
    a.b(0x50);                                   // push rax
    a.bs({0x48, 0x83, 0xEC, 0x08});              // sub rsp, 8
    a.bs({0x48, 0xB8}); a.q((u64)(uintptr_t)&ra32_callee_handler);
    a.bs({0xFF, 0xD0});                          // call rax
    a.bs({0x48, 0x83, 0xC4, 0x08});              // add rsp, 8
    a.b(0x5C);                                   // pop rsp
    a.bs({0x5F, 0x5E});                          // pop rdi ; pop rsi
    a.bs({0x48, 0x89, 0xC2});                    // mov rdx, rax
    a.bs({0x48, 0xC1, 0xEA, 0x20});              // shr rdx, 32
    a.b(0xB9); a.d(0x5A5AC3C3u);                 // mov ecx, junk
    a.b(0xCB);                                   // retf
  }
  { // 32-bit entry stub
    Asm32 a{ low + G32_ENTRY };
    a.bs({0x89, 0x25}); a.d(C32(saved_esp));
    a.bs({0x8B, 0x25}); a.d(C32(esp_in));
    a.bs({0x8B, 0x0D}); a.d(C32(in_ecx));
    a.bs({0x8B, 0x15}); a.d(C32(in_edx));
    a.bs({0x8B, 0x1D}); a.d(C32(in_ebx));
    a.bs({0x8B, 0x35}); a.d(C32(in_esi));
    a.bs({0x8B, 0x3D}); a.d(C32(in_edi));
    a.bs({0x8B, 0x2D}); a.d(C32(in_ebp));
    a.bs({0xFF, 0x15}); a.d(C32(target));
    a.bs({0x89, 0x25}); a.d(C32(out_esp));
    a.bs({0x8B, 0x25}); a.d(C32(saved_esp));
    a.b(0xA3); a.d(C32(out_eax));
    a.bs({0x89, 0x15}); a.d(C32(out_edx));
    a.bs({0x89, 0x1D}); a.d(C32(out_ebx));
    a.bs({0x89, 0x35}); a.d(C32(out_esi));
    a.bs({0x89, 0x3D}); a.d(C32(out_edi));
    a.bs({0x89, 0x2D}); a.d(C32(out_ebp));
    a.bs({0x83, 0x3D}); a.d(C32(want_st0)); a.b(0x00);
    a.bs({0x74, 0x06});
    a.bs({0xDD, 0x1D}); a.d(C32(out_st0));
    a.b(0xEA); a.d(G32_BASE + G32_EXIT); a.bs({0x33, 0x00});   // jmp far 0x33:exit
  }
  { // 64-bit exit thunk: back to the stack of ra_gate32's caller
    Asm32 a{ low + G32_EXIT };
    a.bs({0x48, 0xB8}); a.q((u64)(uintptr_t)&ra_host_rsp);
    a.bs({0x48, 0x8B, 0x20});                    // mov rsp, [rax]
    a.bs({0x31, 0xC0, 0x8E, 0xD8, 0x8E, 0xC0});  // xor eax, eax ; mov ds, eax ; mov es, eax
    a.bs({0xDB, 0xE3});                          // fninit
    a.b(0xFC);                                   // cld
    a.bs({0x41, 0x5F, 0x41, 0x5E, 0x41, 0x5D, 0x41, 0x5C, 0x5D, 0x5B, 0xC3});
  }
#undef C32
}

static NOSAN void install_crash_handlers();

// runs the compiled x86-32 function on every input through the gate; a crash ends this (child) process through the signal handler
static bool exec32_program(const Program& P, const Compiled& comp, const std::vector<RunInput>& inputs, ExecItem& item) {
  if (!g32_low || comp.code.size() + 64 > G32_SIZE - G32_CODE) { item.eo.status = EX_FORKFAIL; return false; }
  u8* fn = g32_low + G32_CODE;
  memcpy(fn, comp.code.data(), comp.code.size());
  g_shm->fn_base = (u64)(uintptr_t)fn;
  install_crash_handlers();
  struct itimerval tv; memset(&tv, 0, sizeof tv); tv.it_value.tv_sec = 3;
  setitimer(ITIMER_PROF, &tv, nullptr);
  const SigClass& sc = kSigClasses[P.sigclass];
  bool retd = P.retval >= 0 && P.vals[P.retval].kind == KIND_D;
  int cconv = P.cconv & 3;
  bool fast = cconv == 2, callee_pops = cconv == 1 || cconv == 2;
  for (size_t k = 0; k < inputs.size(); k++) {
    const RunInput& in = inputs[k];
    g_shm->progress = (u32)k;
    ShmSlot& s = g_shm->slot[item.slot_base + k];
    memset(g32_buf, 0, BUF_SIZE);
    memcpy(g32_buf, in.data, DATA_SIZE);
    for (int id = 0; id < NCALLEE && id < G32_MAXCALLEE; id++) { u32 t = G32_BASE + 64u * (u32)id; memcpy(g32_buf + BUF_SIZE + 4 * id, &t, 4); }
    g_log = s.calls; g_logn = &s.ncalls; g_logcap = CALLCAP;
    u32 words[96]; int nw = 0, nreg = 0;
    u32 ecx = 0xC1C1C1C1u, edx = 0xD2D2D2D2u;
    auto push_int = [&](u32 v) { if (fast && nreg < 2) { (nreg == 0 ? ecx : edx) = v; nreg++; } else words[nw++] = v; };
    push_int((u32)(uintptr_t)g32_buf);
    for (int a = 0; a < sc.ni; a++) push_int((u32)in.iargs[a]);
    for (int a = 0; a < sc.nd; a++) { words[nw++] = (u32)in.dargs[a]; words[nw++] = (u32)(in.dargs[a] >> 32); }
    memset(g32_stack, 0xCD, G32_STACK_SIZE);
    u32 top = (u32)(uintptr_t)(g32_stack + G32_STACK_SIZE - 8192);
    u32 esp = ((top - 4u * (u32)nw) & ~15u) - 4u * (u32)(k & 3);
    memcpy((void*)(uintptr_t)esp, words, 4 * (size_t)nw);
    Ctx32& c = *g32_ctx;
    c.target = (u32)(uintptr_t)fn; c.esp_in = esp; c.in_ecx = ecx; c.in_edx = edx;
    c.in_ebx = 0xB1B1B1B1u; c.in_esi = 0xB2B2B2B2u; c.in_edi = 0xB3B3B3B3u; c.in_ebp = 0xB4B4B4B4u;
    c.want_st0 = retd ? 1 : 0; c.out_st0 = 0; c.out_eax = 0;
    ra_gate32();
    u32 want_esp = esp + (callee_pops ? 4u * (u32)nw : 0u);
    std::string clob;
    if (c.out_ebx != c.in_ebx) clob += " ebx";
    if (c.out_esi != c.in_esi) clob += " esi";
    if (c.out_edi != c.in_edi) clob += " edi";
    if (c.out_ebp != c.in_ebp) clob += " ebp";
    if (c.out_esp != want_esp) { char b[96]; snprintf(b, sizeof b, " esp (entry+%d instead of entry+%d after the return)", (int)(c.out_esp - esp), (int)(want_esp - esp)); clob += b; }
    if (!clob.empty()) {
      item.eo.status = EX_PRESERVED; item.eo.at_input = (int)k;
      item.eo.note = "registers the callee must preserve (ebx, esi, edi, ebp, esp) differ after the return:" + clob;
      return true;
    }
    s.ret = retd ? c.out_st0 : (u64)c.out_eax;
    memcpy(s.buf, g32_buf, BUF_SIZE);
    s.done = 1;
  }
  memset(&tv, 0, sizeof tv); setitimer(ITIMER_PROF, &tv, nullptr);
  return true;
}


// ---------------------------------------------------------------------------------------------------------------
// Straight-line register-list programs (AArch64 ld1-ld4/st1-st4/tbl/tbx, x86 vp2intersect k-pairs, 4FMAPS blocks).
// They cannot be executed here; the Python side symbolically executes the disassembly and compares the tokens
// reaching every store with the expectation computed from the IR below.
// ---------------------------------------------------------------------------------------------------------------

enum : u8 { L_LD = 0, L_ST, L_TBL, L_TBX, L_MOV, L_ADD, L_P2I, L_F4 };
struct LOp { u8 kind = 0; u8 n = 0; int v[4] = { -1, -1, -1, -1 }; int d = -1; int a = -1; int b = -1; int slot = 0; };
struct ListProgram { int kind; int nvals; int nz; std::vector<LOp> ops; };  // kind 0: a64, 1: x86 k-pairs, 2: x86 4fmaps

static std::string list_tokens_expected(const ListProgram& L, std::vector<std::string>& errors) {
  std::vector<std::string> tok(L.nvals, "?");
  std::string out = "[";
  bool first = true;
  int ord = 0;
  for (const LOp& o : L.ops) {
    switch (o.kind) {
      case L_LD: { for (int j = 0; j < o.n; j++) tok[o.v[j]] = "L" + std::to_string(ord) + "." + std::to_string(j); ord++; break; }
      case L_ST: {
        if (!first) out += ",";
        first = false;
        out += "[";
        for (int j = 0; j < o.n; j++) { if (j) out += ","; if (tok[o.v[j]] == "?") errors.push_back("store of undefined value"); out += jstr(tok[o.v[j]]); }
        out += "]";
        break;
      }
      case L_TBL: case L_TBX: {
        std::string t = std::string(o.kind == L_TBL ? "T" : "X") + std::to_string(ord) + "(";
        if (o.kind == L_TBX) t += tok[o.d] + "|";
        for (int j = 0; j < o.n; j++) t += tok[o.v[j]] + ",";
        t += "|" + tok[o.a] + ")";
        tok[o.d] = t; ord++;
        break;
      }
      case L_MOV: tok[o.d] = tok[o.a]; break;
      case L_ADD: tok[o.d] = "A(" + tok[o.a] + "," + tok[o.b] + ")"; break;
      case L_P2I: tok[o.v[0]] = "P" + std::to_string(ord) + ".0"; tok[o.v[1]] = "P" + std::to_string(ord) + ".1"; ord++; break;
      case L_F4: {
        std::string t = "F" + std::to_string(ord) + "(" + tok[o.d] + "|";
        for (int j = 0; j < 4; j++) t += tok[o.v[j]] + ",";
        tok[o.d] = t + ")"; ord++;
        break;
      }
    }
  }
  return out + "]";
}

static ListProgram gen_list_program(Rng& r, int kind) {
  ListProgram L; L.kind = kind;
  int maxn = kind == 1 ? 2 : 4;
  static const int nv_choices[] = { 3, 4, 6, 8, 12, 20, 34, 40 };
  L.nvals = kind == 1 ? (int)r.range(2, 14) : nv_choices[r.below(8)];
  L.nz = 3;
  std::vector<char> defd(L.nvals, 0);
  auto distinct = [&](int n, int* out, bool need_defined) -> bool {
    for (int tries = 0; tries < 50; tries++) {
      bool ok = true;
      for (int j = 0; j < n && ok; j++) {
        out[j] = (int)r.below(L.nvals);
        if (need_defined && !defd[out[j]]) ok = false;
        for (int k = 0; k < j; k++) if (out[k] == out[j]) ok = false;
      }
      if (ok) return true;
    }
    return false;
  };
  // define everything first (in lists of random length so that lead/follower roles differ later)
  {
    std::vector<int> order(L.nvals);
    for (int i = 0; i < L.nvals; i++) order[i] = i;
    for (int i = L.nvals - 1; i > 0; i--) std::swap(order[i], order[r.below(i + 1)]);
    int i = 0;
    while (i < L.nvals) {
      LOp o;
      int n = (int)r.range(1, maxn); if (i + n > L.nvals) n = L.nvals - i;
      if (kind == 1) {
        if (n == 2 && r.chance(1, 2)) { o.kind = L_P2I; o.n = 2; o.a = (int)r.below(L.nz); o.b = (int)r.below(L.nz); }
        else { o.kind = L_LD; n = 1; o.n = 1; }
      }
      else if (kind == 2) { o.kind = L_LD; n = 1; o.n = 1; }
      else { o.kind = L_LD; o.n = (u8)n; }
      for (int j = 0; j < n; j++) { o.v[j] = order[i + j]; defd[order[i + j]] = 1; }
      o.slot = (int)r.below(8);
      L.ops.push_back(o);
      i += n;
    }
  }
  int nops = (int)r.range(4, 24);
  for (int k = 0; k < nops; k++) {
    LOp o;
    int c = (int)r.below(10);
    if (kind == 0) {
      if (c < 3) { o.kind = L_ST; o.n = (u8)r.range(2, 4); if (o.n > L.nvals) o.n = (u8)L.nvals; if (!distinct(o.n, o.v, true)) continue; }
      else if (c < 5) { o.kind = L_LD; o.n = (u8)r.range(2, 4); if (o.n > L.nvals) o.n = (u8)L.nvals; if (!distinct(o.n, o.v, false)) continue; for (int j = 0; j < o.n; j++) defd[o.v[j]] = 1; }
      else if (c < 8) {
        o.kind = r.chance(1, 3) ? L_TBX : L_TBL; o.n = (u8)r.range(1, 4); if (o.n + 1 > L.nvals) o.n = 1;
        if (g_avoid_fwd & 256) o.n = 1;
        if (!distinct(o.n, o.v, true)) continue;
        o.d = (int)r.below(L.nvals); o.a = (int)r.below(L.nvals);
        if (!defd[o.a] || (o.kind == L_TBX && !defd[o.d])) continue;
        defd[o.d] = 1;
      }
      else if (c < 9) { o.kind = L_MOV; o.d = (int)r.below(L.nvals); o.a = (int)r.below(L.nvals); if (!defd[o.a]) continue; defd[o.d] = 1; }
      else { o.kind = L_ADD; o.d = (int)r.below(L.nvals); o.a = (int)r.below(L.nvals); o.b = (int)r.below(L.nvals); if (!defd[o.a] || !defd[o.b]) continue; defd[o.d] = 1; }
    }
    else if (kind == 1) {
      if (c < 4) { o.kind = L_P2I; o.n = 2; if (!distinct(2, o.v, false)) continue; o.a = (int)r.below(L.nz); o.b = (int)r.below(L.nz); defd[o.v[0]] = defd[o.v[1]] = 1; }
      else if (c < 6) { o.kind = L_ST; o.n = 1; o.v[0] = (int)r.below(L.nvals); if (!defd[o.v[0]]) continue; }
      else if (c < 8) { o.kind = L_ADD; o.d = (int)r.below(L.nvals); o.a = (int)r.below(L.nvals); o.b = (int)r.below(L.nvals); if (!defd[o.a] || !defd[o.b]) continue; defd[o.d] = 1; }
      else { o.kind = L_MOV; o.d = (int)r.below(L.nvals); o.a = (int)r.below(L.nvals); if (!defd[o.a]) continue; defd[o.d] = 1; }
    }
    else {
      if (c < 4) { o.kind = L_F4; o.n = 4; if (L.nvals < 5 || !distinct(4, o.v, true)) continue; o.d = (int)r.below(L.nvals); if (!defd[o.d]) continue; bool clash = false; for (int j = 0; j < 4; j++) if (o.v[j] == o.d) clash = true; if (clash) continue; }
      else if (c < 6) { o.kind = L_ST; o.n = 1; o.v[0] = (int)r.below(L.nvals); if (!defd[o.v[0]]) continue; }
      else if (c < 8) { o.kind = L_ADD; o.d = (int)r.below(L.nvals); o.a = (int)r.below(L.nvals); o.b = (int)r.below(L.nvals); if (!defd[o.a] || !defd[o.b]) continue; defd[o.d] = 1; }
      else { o.kind = L_MOV; o.d = (int)r.below(L.nvals); o.a = (int)r.below(L.nvals); if (!defd[o.a]) continue; defd[o.d] = 1; }
    }
    o.slot = (int)r.below(8);
    L.ops.push_back(o);
  }
  // keep everything alive until the end: one store per value
  for (int i = 0; i < L.nvals; i++) { LOp o; o.kind = L_ST; o.n = 1; o.v[0] = i; o.slot = i % 8; L.ops.push_back(o); }
  return L;
}

static std::string serialise_list(const ListProgram& L) {
  static const char* kn[] = { "ld", "st", "tbl", "tbx", "mov", "add", "p2i", "f4" };
  std::string s = "listprogram kind=" + std::to_string(L.kind) + " nvals=" + std::to_string(L.nvals) + "\n";
  for (const LOp& o : L.ops) {
    char b[160];
    snprintf(b, sizeof b, "  %s n=%d v=[%d,%d,%d,%d] d=%d a=%d b=%d slot=%d\n", kn[o.kind], o.n, o.v[0], o.v[1], o.v[2], o.v[3], o.d, o.a, o.b, o.slot);
    s += b;
  }
  return s;
}

static bool compile_list_a64(const ListProgram& L, Compiled& out) {
  CodeHolder code; ErrH eh;
  Environment env(Arch::kAArch64);
  code.init(env);
  code.set_error_handler(&eh);
  FileLogger flog(stderr);
  if (g_trace) { flog.add_flags(FormatFlags::kMachineCode); code.set_logger(&flog); }
  a64::Compiler cc(&code);
  cc.add_diagnostic_options(DiagnosticOptions::kRAAnnotate);
  FuncNode* fn = cc.add_func(FuncSignature::build<void, void*>());
  a64::Gp buf = cc.new_gp_ptr("buf");
  fn->set_arg(0, buf);
  std::vector<a64::Vec> v(L.nvals);
  for (int i = 0; i < L.nvals; i++) v[i] = cc.new_vec_q("v%d", i);
  std::vector<NodeRec> recs;
  for (const LOp& o : L.ops) {
    a64::Gp p;
    if (o.kind == L_LD || o.kind == L_ST) { p = cc.new_gp_ptr("p"); cc.add(p, buf, Imm(o.slot * 64)); }
    a64::Mem m = a64::ptr(p);
    switch (o.kind) {
      case L_LD:
        switch (o.n) {
          case 1: cc.ld1(v[o.v[0]].b16(), m); break;
          case 2: cc.ld2(v[o.v[0]].s4(), v[o.v[1]].s4(), m); break;
          case 3: cc.ld3(v[o.v[0]].s4(), v[o.v[1]].s4(), v[o.v[2]].s4(), m); break;
          default: cc.ld4(v[o.v[0]].b16(), v[o.v[1]].b16(), v[o.v[2]].b16(), v[o.v[3]].b16(), m); break;
        }
        break;
      case L_ST:
        switch (o.n) {
          case 1: cc.st1(v[o.v[0]].b16(), m); break;
          case 2: if (o.slot & 1) cc.st1(v[o.v[0]].b16(), v[o.v[1]].b16(), m); else cc.st2(v[o.v[0]].s4(), v[o.v[1]].s4(), m); break;
          case 3: cc.st3(v[o.v[0]].s4(), v[o.v[1]].s4(), v[o.v[2]].s4(), m); break;
          default: if (o.slot & 1) cc.st1(v[o.v[0]].b16(), v[o.v[1]].b16(), v[o.v[2]].b16(), v[o.v[3]].b16(), m); else cc.st4(v[o.v[0]].b16(), v[o.v[1]].b16(), v[o.v[2]].b16(), v[o.v[3]].b16(), m); break;
        }
        break;
      case L_TBL: case L_TBX: {
        a64::Vec d = v[o.d].b16(), ix = v[o.a].b16();
        bool x = o.kind == L_TBX;
        switch (o.n) {
          case 1: x ? cc.tbx(d, v[o.v[0]].b16(), ix) : cc.tbl(d, v[o.v[0]].b16(), ix); break;
          case 2: x ? cc.tbx(d, v[o.v[0]].b16(), v[o.v[1]].b16(), ix) : cc.tbl(d, v[o.v[0]].b16(), v[o.v[1]].b16(), ix); break;
          case 3: x ? cc.tbx(d, v[o.v[0]].b16(), v[o.v[1]].b16(), v[o.v[2]].b16(), ix) : cc.tbl(d, v[o.v[0]].b16(), v[o.v[1]].b16(), v[o.v[2]].b16(), ix); break;
          default: x ? cc.tbx(d, v[o.v[0]].b16(), v[o.v[1]].b16(), v[o.v[2]].b16(), v[o.v[3]].b16(), ix) : cc.tbl(d, v[o.v[0]].b16(), v[o.v[1]].b16(), v[o.v[2]].b16(), v[o.v[3]].b16(), ix); break;
        }
        break;
      }
      case L_MOV: cc.mov(v[o.d].b16(), v[o.a].b16()); break;
      case L_ADD: cc.add(v[o.d].s4(), v[o.a].s4(), v[o.b].s4()); break;
      default: break;
    }
  }
  cc.end_func();
  if (eh.err != Error::kOk) { out.err = eh.err; out.errmsg = eh.msg; out.stage = "emit"; return false; }
  Error e = cc.finalize();
  if (e != Error::kOk || eh.err != Error::kOk) { out.err = e != Error::kOk ? e : eh.err; out.errmsg = eh.msg; out.stage = "finalize"; return false; }
  collect_ra_stats(cc, recs, out.st);
  finish_compile_only(code, std::vector<Label>(), out);
  return true;
}

static bool compile_list_x86(const ListProgram& L, Compiled& out) {
  using namespace x86;
  CodeHolder code; ErrH eh;
  Environment env(Arch::kX64);
  CpuFeatures feats = CpuInfo::host().features();
  feats.add(CpuFeatures::X86::kAVX512_F, CpuFeatures::X86::kAVX512_BW, CpuFeatures::X86::kAVX512_DQ, CpuFeatures::X86::kAVX512_VL,
            CpuFeatures::X86::kAVX512_VP2INTERSECT);
  code.init(env, feats);
  code.set_error_handler(&eh);
  FileLogger flog(stderr);
  if (g_trace) { flog.add_flags(FormatFlags::kMachineCode); code.set_logger(&flog); }
  x86::Compiler cc(&code);
  cc.add_diagnostic_options(DiagnosticOptions::kRAAnnotate);
  FuncNode* fn = cc.add_func(FuncSignature::build<void, void*>());
  fn->frame().set_avx_enabled();
  fn->frame().set_avx512_enabled();
  Gp buf = cc.new_gp_ptr("buf");
  fn->set_arg(0, buf);
  std::vector<NodeRec> recs;
  if (L.kind == 1) {
    std::vector<KReg> k(L.nvals);
    std::vector<Vec> z(L.nz);
    for (int i = 0; i < L.nvals; i++) k[i] = cc.new_kq("k%d", i);
    for (int i = 0; i < L.nz; i++) { z[i] = cc.new_zmm("z%d", i); cc.vmovdqu32(z[i], ptr(buf, 1024 + 64 * i)); }
    for (const LOp& o : L.ops) {
      switch (o.kind) {
        case L_LD: cc.kmovq(k[o.v[0]], qword_ptr(buf, o.slot * 8)); break;
        case L_ST: cc.kmovq(qword_ptr(buf, 512 + o.slot * 8), k[o.v[0]]); break;
        case L_P2I: cc.vp2intersectd(k[o.v[0]], k[o.v[1]], z[o.a], z[o.b]); break;
        case L_MOV: cc.kmovq(k[o.d], k[o.a]); break;
        case L_ADD: cc.kandq(k[o.d], k[o.a], k[o.b]); break;
        default: break;
      }
    }
  }
  else {
    std::vector<Vec> z(L.nvals);
    for (int i = 0; i < L.nvals; i++) z[i] = cc.new_zmm("z%d", i);
    for (const LOp& o : L.ops) {
      switch (o.kind) {
        case L_LD: cc.vmovdqu32(z[o.v[0]], zmmword_ptr(buf, o.slot * 64)); break;
        case L_ST: cc.vmovdqu32(zmmword_ptr(buf, 1024 + o.slot * 64), z[o.v[0]]); break;
        case L_F4: break;  // 4FMAPS is not part of this AsmJit version
        case L_MOV: cc.vmovdqa32(z[o.d], z[o.a]); break;
        case L_ADD: cc.vpaddd(z[o.d], z[o.a], z[o.b]); break;
        default: break;
      }
    }
  }
  cc.end_func();
  if (eh.err != Error::kOk) { out.err = eh.err; out.errmsg = eh.msg; out.stage = "emit"; return false; }
  Error e = cc.finalize();
  if (e != Error::kOk || eh.err != Error::kOk) { out.err = e != Error::kOk ? e : eh.err; out.errmsg = eh.msg; out.stage = "finalize"; return false; }
  collect_ra_stats(cc, recs, out.st);
  finish_compile_only(code, std::vector<Label>(), out);
  return true;
}

// ---------------------------------------------------------------------------------------------------------------
// Compile-only work is done in a forked child so that a crash inside the register allocator (ASan/UBSan abort)
// costs one program, not the batch. The sanitizer report still goes to stderr (the Python side turns it into a
// violation); the parent records which program died.
// ---------------------------------------------------------------------------------------------------------------

static char* g_task_shm = nullptr;
static const size_t TASK_SHM_SIZE = 16u << 20;

struct TaskResult { bool ok = false; int sig = 0; int exitcode = 0; std::string out; };

static TaskResult run_child_task(const std::function<void(std::string&)>& fn) {
  if (!g_task_shm) {
    g_task_shm = (char*)mmap(nullptr, TASK_SHM_SIZE, PROT_READ | PROT_WRITE, MAP_SHARED | MAP_ANONYMOUS, -1, 0);
    if (g_task_shm == MAP_FAILED) { fprintf(stderr, "mmap failed\n"); exit(3); }
  }
  TaskResult r;
  *(volatile u32*)g_task_shm = 0;
  fflush(stdout); fflush(stderr);
  pid_t pid = fork();
  if (pid < 0) return r;
  if (pid == 0) {
    signal(SIGPROF, SIG_DFL); signal(SIGALRM, SIG_DFL);
    struct itimerval tv; memset(&tv, 0, sizeof tv); tv.it_value.tv_sec = 10;   // CPU time: a compile normally takes milliseconds
    setitimer(ITIMER_PROF, &tv, nullptr);
    alarm(240);
    std::string out;
    fn(out);
    if (out.size() + 8 > TASK_SHM_SIZE) out.resize(TASK_SHM_SIZE - 8);
    memcpy(g_task_shm + 4, out.data(), out.size());
    *(volatile u32*)g_task_shm = (u32)out.size() + 1;
    _exit(0);
  }
  int st = 0;
  while (waitpid(pid, &st, 0) < 0 && errno == EINTR) {}
  if (WIFEXITED(st) && WEXITSTATUS(st) == 0 && *(volatile u32*)g_task_shm) {
    r.ok = true;
    r.out.assign(g_task_shm + 4, *(volatile u32*)g_task_shm - 1);
  }
  else { r.sig = WIFSIGNALED(st) ? WTERMSIG(st) : 0; r.exitcode = WIFEXITED(st) ? WEXITSTATUS(st) : -1; }
  return r;
}

// child -> parent record: "OK|ERR <loads> <saves> <moves> <swaps> <rm> <user_insts>\n<payload...>"
static std::string stats_line(const char* tag, const EmitStats& st) {
  char b[160];
  snprintf(b, sizeof b, "%s %d %d %d %d %d %d\n", tag, st.loads, st.saves, st.moves, st.swaps, st.rm_subst, st.user_insts);
  return b;
}
static bool parse_stats_line(const std::string& s, std::string& tag, EmitStats& st, std::string& payload) {
  size_t nl = s.find('\n');
  if (nl == std::string::npos) return false;
  char t[16] = {0};
  if (sscanf(s.c_str(), "%15s %d %d %d %d %d %d", t, &st.loads, &st.saves, &st.moves, &st.swaps, &st.rm_subst, &st.user_insts) != 7) return false;
  tag = t; payload = s.substr(nl + 1);
  return true;
}

// ---------------------------------------------------------------------------------------------------------------
// Isolated compile + execute of one non-native program (AArch64: executor above, x86-32: far-call gate) in a forked
// child: a crash inside the register allocator or inside the generated code costs one program. The parent learns the
// verdict, the RA statistics and the payload for the Python-side decode checks.
// ---------------------------------------------------------------------------------------------------------------

static const char* const kVerdictKinds[] = { "ok", "miscompile", "crash", "hang", "finalize-error", "harness", "unsupported", "callee-saved", "ra-crash", "ra-hang", "watchdog" };

struct IsoResult {
  Verdict v;
  EmitStats st;
  std::string payload;
  std::string errcode;
  int sig = 0, exitcode = 0;
  u64 sim_steps = 0;
  std::map<std::string, u64> classes;
};

static std::string one_line(const std::string& s) { std::string r = s; for (char& c : r) if (c == '\n') c = ' '; return r; }

static bool exec32_program(const Program& P, const Compiled& comp, const std::vector<RunInput>& inputs, ExecItem& item);   // x86-32 gate (below)

static IsoResult run_isolated(const Program& P, const std::vector<RunInput>& inputs, const std::vector<RunResult>& ref, bool annotate, bool want_payload, u64 idx) {
  IsoResult res;
  g_shm->stage = 0; g_shm->progress = 0; g_shm->crash_sig = 0; g_shm->crash_rip = 0; g_shm->crash_addr = 0; g_shm->fn_base = 0;
  for (size_t k = 0; k < inputs.size(); k++) { g_shm->slot[k].done = 0; g_shm->slot[k].ncalls = 0; }
  TaskResult tr = run_child_task([&](std::string& out) {
    Compiled comp;
    bool ok = P.arch == ARCH_A64 ? compile_a64(P, comp, annotate) : compile_x86(P, comp, annotate);
    if (!ok) { out = stats_line("ERR", comp.st) + std::string(DebugUtils::error_as_string(comp.err)) + "\n" + comp.stage + ": " + one_line(comp.errmsg); return; }
    ExecItem item; item.P = &P; item.inputs = &inputs; item.slot_base = 0;
    std::map<std::string, u64> classes; u64 steps = 0;
    g_shm->stage = 1;
    if (P.arch == ARCH_A64) {
      SimNote n = a64_exec_program(P, comp.code, inputs, 0, &classes, &steps);
      if (n.status) {
        item.eo.at_input = n.input; item.eo.rip_off = n.off; item.eo.note = n.msg;
        item.eo.status = n.status == A64Sim::ST_FAULT ? EX_CRASH : n.status == A64Sim::ST_LIMIT ? EX_HANG : n.status == A64Sim::ST_UNSUPPORTED ? EX_UNSUPPORTED : EX_PRESERVED;
      }
    }
    else exec32_program(P, comp, inputs, item);
    g_shm->stage = 2;
    Verdict v = compare_results(P, inputs, ref, item);
    std::string c = "C";
    for (auto& kv : classes) c += " " + kv.first + "=" + std::to_string(kv.second);
    out = stats_line("OK", comp.st) + "V " + std::to_string(v.kind) + " " + std::to_string(v.input) + " " + std::to_string(steps) + "\n" + one_line(v.what) + "\n" + c + "\n";
    if (want_payload)
      out += "{\"index\":" + std::to_string(idx) + ",\"profile\":" + jstr(P.profile) + ",\"code_end\":" + std::to_string(comp.code_end) + ",\"data\":" + comp.data_json +
             ",\"user_insts\":" + std::to_string(comp.st.user_insts) + ",\"hex\":\"" + hexstr(comp.code.data(), comp.code.size()) + "\"}";
  });
  std::string tag, rest;
  if (!tr.ok || !parse_stats_line(tr.out, tag, res.st, rest)) {
    res.sig = tr.sig; res.exitcode = tr.exitcode;
    int stage = (int)g_shm->stage;
    char b[256];
    if (tr.sig == SIGALRM) { res.v.kind = 10; res.v.what = "wall-clock watchdog in the child"; return res; }
    if (stage == 1) {
      // died while the generated code was running (x86-32 through the gate)
      res.v.input = (int)g_shm->progress;
      if (tr.sig == SIGPROF) { res.v.kind = 3; snprintf(b, sizeof b, "generated code did not terminate (CPU-time limit) on input %d", res.v.input); }
      else { res.v.kind = 2; snprintf(b, sizeof b, "generated code crashed with signal %d at code offset 0x%llx (fault address 0x%llx) on input %d", (int)g_shm->crash_sig,
                                      (unsigned long long)(g_shm->crash_rip - g_shm->fn_base), (unsigned long long)g_shm->crash_addr, res.v.input); }
      res.v.what = b;
      return res;
    }
    res.v.kind = tr.sig == SIGPROF ? 9 : 8;
    snprintf(b, sizeof b, "%s (signal %d, exit code %d, see sanitizer report)", tr.sig == SIGPROF ? "the Compiler did not terminate within 10 s of CPU time" : "the Compiler crashed", tr.sig, tr.exitcode);
    res.v.what = b;
    return res;
  }
  if (tag == "ERR") {
    res.errcode = rest.substr(0, rest.find('\n'));
    res.v.kind = 4; res.v.what = "Compiler failed: " + one_line(rest);
    return res;
  }
  // "V kind input steps\nwhat\nC classes\npayload"
  int kind = 0, input = -1; unsigned long long steps = 0;
  sscanf(rest.c_str(), "V %d %d %llu", &kind, &input, &steps);
  size_t p1 = rest.find('\n'), p2 = rest.find('\n', p1 + 1), p3 = rest.find('\n', p2 + 1);
  res.v.kind = kind; res.v.input = input; res.sim_steps = steps;
  res.v.what = rest.substr(p1 + 1, p2 - p1 - 1);
  std::string cl = rest.substr(p2 + 1, p3 - p2 - 1);
  size_t pos = 1;
  while (pos < cl.size()) {
    size_t sp = cl.find(' ', pos + 1); if (sp == std::string::npos) sp = cl.size();
    std::string kv = cl.substr(pos + 1, sp - pos - 1);
    size_t eq = kv.rfind('=');
    if (eq != std::string::npos) res.classes[kv.substr(0, eq)] += strtoull(kv.c_str() + eq + 1, nullptr, 10);
    pos = sp;
  }
  res.payload = rest.substr(p3 + 1);
  return res;
}

// one program on the given inputs, whatever the target: x86-64 natively, the others isolated (shrinker, probes, replays)
static Verdict check_program(const Program& P, const std::vector<RunInput>& inputs, Compiled& comp, Counters* ctr, bool annotate) {
  if (P.arch == ARCH_X64) return check_program_x64(P, inputs, comp, ctr, annotate);
  Verdict v;
  std::vector<RunResult> ref;
  if (!reference_run(P, inputs, ref, ctr, v)) return v;
  IsoResult r = run_isolated(P, inputs, ref, annotate, false, 0);
  comp.st = r.st;
  return r.v;
}


struct ViolationOut;
static void add_violation(std::vector<ViolationOut>& viols, const std::string& key, const std::string& what, const std::string& witness, u64 index);

static bool run_other_mode(const std::string& mode, const Args& args, Counters& ctr, std::vector<ViolationOut>& viols,
                           std::vector<std::string>& harness_errors, std::string& extra_json) {
  u64 seed = args.u64("seed", 1), first = args.u64("first", 0), count = args.u64("count", 10);
  bool annotate = args.u64("annotate", 1) != 0;
  if (mode == "a64lists" || mode == "x86lists") {
    std::string progs = "[";
    bool firstp = true;
    for (u64 idx = first; idx < first + count; idx++) {
      Rng pr = Rng(seed * 0x9E3779B97F4A7C15ull + 0x115).fork(idx + (mode == "a64lists" ? 0x1150000 : 0x1160000));
      int kind = mode == "a64lists" ? 0 : 1;  // x86: only vp2intersect{d|q} needs consecutive registers in this AsmJit version
      ListProgram L = gen_list_program(pr, kind);
      std::vector<std::string> errs;
      std::string expect = list_tokens_expected(L, errs);
      if (!errs.empty()) { harness_errors.push_back("list program " + std::to_string(idx) + ": " + errs[0]); continue; }
      ctr.programs++; ctr.evaluations++;
      std::string ser = serialise_list(L);
      u64 ph = fnv1a(ser.data(), ser.size());
      ctr.distinct_all.insert(ph);
      ctr.max_live = std::max(ctr.max_live, L.nvals);
      for (const LOp& o : L.ops) { static const char* kn[] = { "list-load", "list-store", "tbl", "tbx", "mov", "add", "vp2intersect", "v4fmaddps" }; ctr.ops_by_kind[kn[o.kind]]++; }
      if (g_trace) { fprintf(stderr, "--- compiling list program %llu ---\n%s\n", (unsigned long long)idx, ser.c_str()); fflush(stderr); }
      std::string cls = kind == 0 ? "a64" : "x64";
      bool has_tbl = false; for (const LOp& o : L.ops) if ((o.kind == L_TBL || o.kind == L_TBX) && o.n > 1) has_tbl = true;
      std::string what = kind == 0 ? (has_tbl ? "lists-with-tbl" : "lists") : (kind == 1 ? "vp2intersect" : "v4fmaddps");
      TaskResult tr = run_child_task([&](std::string& out) {
        Compiled comp;
        bool ok = kind == 0 ? compile_list_a64(L, comp) : compile_list_x86(L, comp);
        if (!ok) { out = stats_line("ERR", comp.st) + std::string(DebugUtils::error_as_string(comp.err)) + "\n" + comp.stage + ": " + comp.errmsg; return; }
        out = stats_line("OK", comp.st) + "{\"index\":" + std::to_string(idx) + ",\"kind\":" + std::to_string(kind) + ",\"nvals\":" + std::to_string(L.nvals) +
              ",\"expect\":" + expect + ",\"ir\":" + jstr(ser) + ",\"hex\":\"" + hexstr(comp.code.data(), comp.code.size()) + "\"}";
      });
      std::string tag, payload; EmitStats st;
      if (!tr.ok || !parse_stats_line(tr.out, tag, st, payload)) {
        ctr.compile_errors++;
        if (tr.sig == SIGALRM) { ctr.ops_by_kind["watchdog-inconclusive"]++; continue; }
        add_violation(viols, cls + (tr.sig == SIGPROF ? ":ra-hang:" : ":ra-crash:") + what + (L.nvals > 32 ? ":pressure" : ""),
                      std::string(tr.sig == SIGPROF ? "the Compiler did not terminate within 10 s of CPU time" : "the Compiler crashed") + " (signal " + std::to_string(tr.sig) +
                      ", exit code " + std::to_string(tr.exitcode) + ", see sanitizer report) on a register-list program index=" + std::to_string(idx), ser, idx);
        continue;
      }
      if (tag == "ERR") {
        ctr.compile_errors++;
        std::string ec = payload.substr(0, payload.find('\n'));
        add_violation(viols, cls + ":finalize-error:" + what + ":" + ec, "Compiler failed on a register-list program: " + payload + " index=" + std::to_string(idx), ser, idx);
        continue;
      }
      ctr.loads += st.loads; ctr.saves += st.saves; ctr.moves += st.moves; ctr.swaps += st.swaps;
      if (st.nontrivial()) { ctr.nontrivial++; ctr.distinct_nontrivial.insert(ph); }
      if (!firstp) progs += ",";
      firstp = false;
      progs += payload;
    }
    extra_json = ",\"compiled\":" + progs + "]";
    return true;
  }
  return false;
}


// ---------------------------------------------------------------------------------------------------------------
// modes "a64" and "x86": generate, interpret (reference), compile + execute isolated, compare, shrink, report
// ---------------------------------------------------------------------------------------------------------------

static void run_exec_mode(const std::string& mode, const Args& args, Counters& ctr, std::vector<ViolationOut>& viols,
                          std::vector<std::string>& harness_errors, std::string& extra_json) {
  bool is_a64 = mode == "a64";
  u64 seed = args.u64("seed", 1), first = args.u64("first", 0), count = args.u64("count", 10);
  int ninputs = (int)args.u64("inputs", is_a64 ? 8 : 16);
  if (ninputs > NINPUTS_MAX) ninputs = NINPUTS_MAX;
  int annotate_mode = (int)args.u64("annotate", 2);   // 2: programs with an odd index are compiled with kRAAnnotate, even ones without
  int shrink_budget = (int)args.u64("shrink", 120);
  std::string only_profile = args.str("profile", "");
  init_exec_env();
  if (!is_a64) init_exec32();
  const std::string pfx = is_a64 ? "a64:" : "x86-32:";
  std::string progs = "[";
  bool firstp = true;
  std::map<std::string, u64> classes, unsupported_kinds;
  std::map<std::string, int> shrunk_per_key;
  int total_shrinks = 0;
  u64 executed = 0, exec_inputs = 0, unsupported = 0, sim_steps = 0, annotated = 0;
  for (u64 idx = first; idx < first + count; idx++) {
    Rng pr = is_a64 ? Rng(seed * 0x9E3779B97F4A7C15ull + 0xA64).fork(idx + 0xA640000) : Rng(seed * 0x9E3779B97F4A7C15ull + 0x86).fork(idx + 0x8600000);
    Profile pfl = is_a64 ? kProfilesA64[idx % kNProfilesA64] : kProfilesX86[idx % kNProfilesX86];
    if (!only_profile.empty()) {
      bool found = false;
      for (int i = 0; i < (is_a64 ? kNProfilesA64 : kNProfilesX86); i++) { const Profile& c = is_a64 ? kProfilesA64[i] : kProfilesX86[i]; if (only_profile == c.name) { pfl = c; found = true; } }
      if (!found) { harness_errors.push_back("unknown profile " + only_profile); break; }
    }
    if (pfl.mode != MODE_AVX512) { pfl.nk_lo = pfl.nk_hi = 0; pfl.w_mask = 0; }
    Program P = gen_program(pr, pfl, -1);
    std::vector<RunInput> inputs;
    Rng ir = pr.fork(0x1297);
    make_inputs(ir, ninputs, inputs);
    if (args.has("dump")) printf("%s\n", serialise(P).c_str());
    count_program(ctr, P);
    u64 ph = program_hash(P);
    ctr.distinct_all.insert(ph);
    ctr.shapes_seen.insert(cfg_shape_hash(P));
    ctr.max_live = std::max(ctr.max_live, measure_max_live(P));
    bool annotate = annotate_mode == 2 ? (idx & 1) != 0 : annotate_mode != 0;
    std::vector<RunResult> ref;
    Verdict rv;
    if (!reference_run(P, inputs, ref, &ctr, rv)) { harness_errors.push_back("program " + std::to_string(idx) + " (" + P.profile + "): " + rv.what); continue; }
    ctr.evaluations++;
    IsoResult r = run_isolated(P, inputs, ref, annotate, true, idx);
    Verdict& v = r.v;
    bool compiled = !(v.kind == 4 || v.kind == 8 || v.kind == 9 || v.kind == 10);
    if (compiled) {
      ctr.loads += r.st.loads; ctr.saves += r.st.saves; ctr.moves += r.st.moves; ctr.swaps += r.st.swaps; ctr.rm_subst += r.st.rm_subst; ctr.user_insts += r.st.user_insts;
      if (annotate) annotated++;
      if (r.st.nontrivial()) { ctr.nontrivial++; ctr.distinct_nontrivial.insert(ph); }
      for (auto& kv : r.classes) classes[kv.first] += kv.second;
      sim_steps += r.sim_steps;
      if (!r.payload.empty()) { if (!firstp) progs += ","; firstp = false; progs += r.payload; }
    }
    else ctr.compile_errors++;
    if (v.kind == 0) { executed++; exec_inputs += inputs.size(); ctr.inputs_run += inputs.size(); continue; }
    if (v.kind == 6) { unsupported++; if (unsupported_kinds.size() < 12) unsupported_kinds[v.what]++; continue; }
    if (v.kind == 10) { ctr.ops_by_kind["watchdog-inconclusive"]++; continue; }
    if (v.kind == 4 && r.errcode == "InvalidDisplacement" && has_short_range_branch(P)) { ctr.ops_by_kind["short-branch-out-of-range-inconclusive"]++; continue; }
    if (v.kind == 5) { harness_errors.push_back("program " + std::to_string(idx) + " (" + P.profile + "): " + v.what); continue; }
    // ---- violation: shrink (a few per shard) and report ----
    int attempts = 0;
    Program S = P;
    RunInput fin = inputs[v.input >= 0 && v.input < (int)inputs.size() ? v.input : 0];
    std::string k0 = std::string(kVerdictKinds[v.kind]) + ":" + P.profile;
    if (shrink_budget > 0 && v.kind != 3 && v.kind != 9 && shrunk_per_key[k0]++ < 2 && total_shrinks++ < 3) S = shrink_program(P, fin, v.kind, shrink_budget, attempts);
    Compiled c2;
    std::vector<RunInput> one(1, fin);
    Verdict v2 = attempts ? check_program(S, one, c2, nullptr, false) : v;
    ViolationOut vo;
    vo.key = pfx + kVerdictKinds[v.kind] + ":" + P.profile;
    if (v.kind == 4) vo.key = pfx + "finalize-error:" + r.errcode;
    vo.what = v.what + " | profile=" + P.profile + " index=" + std::to_string(idx) + " annotate=" + (annotate ? "1" : "0") + " | after shrinking (" + std::to_string(attempts) + " attempts): " +
              (v2.kind ? v2.what : std::string("(shrunk program no longer fails; witness is the original)"));
    vo.witness = serialise(v2.kind ? S : P) + "input: " + input_to_string(fin);
    vo.index = idx; vo.input = v.input;
    viols.push_back(vo);
    if (viols.size() >= 12) { ctr.ops_by_kind["shard-stopped-after-12-violations"]++; break; }
  }
  progs += "]";
  std::string un = "{"; { bool f = true; for (auto& kv : unsupported_kinds) { if (!f) un += ","; f = false; un += jstr(kv.first) + ":" + std::to_string(kv.second); } } un += "}";
  extra_json = ",\"compiled\":" + progs + ",\"exec\":{\"programs\":" + std::to_string(executed) + ",\"inputs\":" + std::to_string(exec_inputs) + ",\"unsupported\":" + std::to_string(unsupported) +
               ",\"steps\":" + std::to_string(sim_steps) + ",\"annotated\":" + std::to_string(annotated) + ",\"classes\":" + json_map(classes) + ",\"unsupported_kinds\":" + un + "}";
}

// ---------------------------------------------------------------------------------------------------------------
// Probes: small hand-written programs for constructs that were found defective. A failing probe is reported under a
// stable key and tells the Python side which construct the random generator has to avoid (so that one known defect
// does not mask everything else); a passing probe re-enables the construct automatically.
// ---------------------------------------------------------------------------------------------------------------

struct ProbeBuilder {
  Program P;
  ProbeBuilder(u8 mode = MODE_SSE, u8 sigclass = 0, u8 arch = ARCH_X64) {
    P.arch = arch; P.mode = mode; P.profile = "probe"; P.shape = "probe"; P.sigclass = sigclass;
    P.argbind.assign(kSigClasses[sigclass].ni + kSigClasses[sigclass].nd, -1);
    P.blocks.resize(2);
    P.fuel = val(KIND_G, 4, false);
    Op o; o.opc = O_MOV; o.w = 4; o.d = P.fuel; o.s = SI(30); P.blocks[0].ops.push_back(o);
    P.fuel_init = 30;
  }
  int val(u8 kind, u8 size, bool dumped = true) { ValDef d; d.kind = kind; d.size = size; d.dumped = dumped; P.vals.push_back(d); return (int)P.vals.size() - 1; }
  int nblock() { P.blocks.emplace_back(); return (int)P.blocks.size() - 1; }
  std::vector<Op>& ops(int b = 1) { return P.blocks[b].ops; }
  static MemRef M(int off) { MemRef m; m.off = off; return m; }
  void load(int v, int off, int b = 0) {
    const ValDef& d = P.vals[v];
    Op o; o.d = v; o.w = d.size; o.s = SM(M(off));
    o.opc = d.kind == KIND_G ? O_MOV : d.kind == KIND_V ? O_VMOV : d.kind == KIND_K ? O_KLOAD : O_DLOAD;
    P.blocks[b].ops.push_back(o);
  }
  void call0(int b = 1) { Op o; o.opc = O_CALL; o.imm = 0; ops(b).push_back(o); }
  void finish(int retval) {
    int fin = nblock();
    for (int vi = 0; vi < (int)P.vals.size(); vi++) {
      const ValDef& d = P.vals[vi];
      if (!d.dumped) continue;
      Op q; MemRef m; m.off = DUMP_OFF + vi * 64;
      if (d.kind == KIND_G) { q.opc = O_STORE; q.w = d.size; q.s = SR(vi); q.s2 = SM(m); }
      else if (d.kind == KIND_V && d.half) { q.opc = O_DSTORE; q.a = vi; q.s2 = SM(m); }
      else if (d.kind == KIND_V) { q.opc = O_VSTORE; q.w = d.size; q.a = vi; q.s2 = SM(m); }
      else if (d.kind == KIND_K) { q.opc = O_KSTORE; q.w = d.size; q.a = vi; q.s2 = SM(m); }
      else { q.opc = O_DSTORE; q.a = vi; q.s2 = SM(m); }
      P.blocks[fin].ops.push_back(q);
    }
    P.blocks[fin].term.kind = T_RET;
    P.retval = retval;
    compute_fuel_flags(P);
  }
};

struct ProbeDef { const char* name; u32 avoid_bit; bool needs512; const char* what; u8 arch; };
static const ProbeDef kProbes[] = {
  { "cmpxchg-accumulator", AV_CMPXCHG, false, "cmpxchg [mem], src, acc: the accumulator written on a failed compare is lost (treated as read-only)" },
  { "same-reg-idiom-narrow", AV_SAMEREG_NARROW, false, "sub/xor r8,r8 on a 64-bit virtual register is treated as a write of the whole register" },
  { "reg-to-mem-32bit-rmw", AV_RMW32_ON64, false, "32-bit read-modify-write on a spilled 64-bit virtual register is rewritten to a memory operand and loses the zero extension" },
  { "reg-to-mem-high-byte", AV_HI8, false, "AH/BH/CH/DH operand of a spilled virtual register is rewritten to the low byte of its home slot" },
  { "reg-to-mem-kmovw", AV_KMOVW_TOG, true, "kmovw r32, k with a spilled k register is rewritten to an invalid memory form" },
  { "vector-argument-avx512", AV_VECARG_AVX512, true, "vector function argument assigned to xmm16..31 makes finalize fail with InvalidPhysId" },
  { "or-mem-all-ones", AV_OR_MEM_M1, false, "or [mem], -1 marks the base register of the memory operand write-only" },
  { "and-reg-zero", AV_AND_ZERO, false, "and reg, 0 is treated as not changing the register" },
  { "same-reg-idiom-narrow-vector", AV_SAMEREG_NARROW_VEC, false, "vpminud/vpand/... xmm,xmm,xmm with one 256-bit virtual register is treated as read-only although it clears the upper half" },
  { "a64-tbl-register-list", AV_A64_TBL_MULTI, false, "AArch64 tbl/tbx with a table of 2..4 registers: the allocator does not know that the table registers must be consecutive" },
  { "vpternlog-merge-masked", AV_TERN_MASKED, true, "vpternlogd v{k},v,v,0xFF / 0x00 under merge-masking is treated as write-only although the masked-off lanes keep the old value" },
  { "same-reg-hint-different-views", AV_HINT_VIEWS, false, "xchg/xor between AL and AH views of one virtual register gets the same-register hint of xchg r,r / xor r,r" },
  { "call-stack-area-max-over-invokes", 0, false, "the frame's call-stack area must cover the largest stack-argument block of ALL invokes, not the one of the last invoke: a big call followed by a small one overwrites spill slots / new_stack() memory" },
  { "immediate-stack-argument", 0, false, "immediate invoke arguments (InvokeNode::set_arg(i, Imm)) must arrive unchanged in register and stack positions for every boundary value" },
  { "ret-before-embedded-data", 0, false, "a ret (final or early) that is followed inside the function only by labels and embedded data must still jump to the epilog" },
  { "relocated-stack-argument-with-call-area", 0, false, "a stack-passed parameter relocated into a local slot (wider virtual register / realigned frame) must be stored where the body reads it, also when the function has a call-argument area" },
  { "bt-register-base-spilled", AV_BT_REGIDX, false, "bt/bts/btr/btc reg,reg: the bit-base register is replaced by its spill slot, where a bit index >= width addresses memory outside the slot instead of wrapping" },
  { "gather-mask-written", AV_GATHER, true, "vpgatherdd zmm{k}: the mask register is cleared by the instruction but the allocator treats it as read-only" },
  { "narrow-stack-parameter-bound-to-wide-vreg", AV_NARROW_PARAM_WIDE_VREG, false, "a stack-passed narrow integer parameter that gets no register on entry is moved stack-to-stack with the wrong store width: bound to a 64-bit virtual register only 4 bytes of the home slot are written (no zero/sign extension), bound to an 8/16-bit register 4 bytes are written into the 1/2-byte slot" },
  { "a64-lr-live-across-call", AV_A64_LR, false, "AArch64: a virtual register is kept in x30 (LR) across an invoke although BL/BLR overwrite x30 with the return address (the convention lists x30 as preserved, the call instruction itself clobbers it)", ARCH_A64 },
  { "x87-return-value-not-popped", AV_X87_LEAK, false, "x86-32: the ST0 result of an invoke whose return operand is not assigned is never popped; after eight such calls the x87 register stack is full and every later double returned through ST0 arrives as the indefinite NaN", ARCH_X86 },
  { "variadic-call-target-register", AV_VA_TARGET, false, "x86-64 variadic invoke whose target is a virtual register or a memory operand: the instructions emitted right before the call after register allocation (SysV: mov eax, <number of vector registers>; Win64: movq <gp>, <xmm> duplicates) overwrite the register that holds the target / the base of its memory operand" },
  { "indirect-vector-argument-on-stack", AV_INDIRECT_VEC_STACK, false, "x86-64 invoke of a Win64 function whose vector argument (passed by reference) is the fifth or a later argument: finalize fails with InvalidAssignment (the pointer is stored with the vector's type id)" },
  { "a64-lane-load-list-write-only", AV_A64_LANE_LIST, false, "AArch64 single-lane structure load into a list of two or more registers (ld2..ld4 { v.T }[i]): the registers keep their other lanes, but the RW information says write-only, so the old contents are not kept alive (lost across a call / not reloaded)", ARCH_A64 },
  { "a64-h-element-register-range", AV_A64_HELEM, false, "AArch64 by-element instruction with a half-word element (mul v.8h, v.8h, v.h[i]): only v0..v15 can be encoded as the element register, but the allocator also assigns v16..v31 and finalize fails with InvalidPhysId", ARCH_A64 },
  { "unreachable-predecessor", 0x80000000u, false, "an unreachable block that flows into a reachable loop crashes the liveness analysis" },
};
static const int kNProbes = sizeof(kProbes) / sizeof(kProbes[0]);

static Program build_probe(const std::string& name) {
  if (name == "cmpxchg-accumulator") {
    ProbeBuilder b;
    int acc = b.val(KIND_G, 8), src = b.val(KIND_G, 8);
    b.load(acc, 0); b.load(src, 8);
    b.call0();
    Op o; o.opc = O_CMPXCHG; o.w = 8; o.a = src; o.c = acc; o.s2 = SM(ProbeBuilder::M(16)); b.ops().push_back(o);
    b.call0();
    b.finish(acc);
    return b.P;
  }
  if (name == "same-reg-idiom-narrow") {
    ProbeBuilder b;
    int v = b.val(KIND_G, 8), w = b.val(KIND_G, 8);
    b.load(v, 0); b.load(w, 8);
    b.call0();
    Op o; o.opc = O_ALU; o.sub = A_SUB; o.w = 1; o.d = v; o.s = SR(v); b.ops().push_back(o);
    Op q; q.opc = O_ALU; q.sub = A_XOR; q.w = 2; q.d = w; q.s = SR(w); b.ops().push_back(q);
    b.finish(v);
    return b.P;
  }
  if (name == "reg-to-mem-32bit-rmw") {
    ProbeBuilder b;
    std::vector<int> v;
    for (int i = 0; i < 24; i++) { v.push_back(b.val(KIND_G, 8)); b.load(v.back(), 8 * i); }
    for (int rnd = 0; rnd < 2; rnd++)
      for (int i = 0; i < 24; i++) {
        Op o; o.w = 4; o.d = v[i];
        if ((i + rnd) % 3 == 0) { o.opc = O_ALU; o.sub = A_ADD; o.s = SI(1); }
        else if ((i + rnd) % 3 == 1) { o.opc = O_SHI; o.sub = SH_SHR; o.imm = 1; }
        else { o.opc = O_UN; o.sub = U_NOT; }
        b.ops().push_back(o);
      }
    b.finish(v[0]);
    return b.P;
  }
  if (name == "reg-to-mem-high-byte") {
    ProbeBuilder b;
    std::vector<int> v;
    for (int i = 0; i < 24; i++) { v.push_back(b.val(KIND_G, 4)); b.load(v.back(), 4 * i); }
    for (int i = 0; i < 24; i++) {
      Op o; o.opc = O_HI8; o.w = 1; o.sub = (u8)(i % 3 == 0 ? 3 : i % 3 == 1 ? 2 : 0); o.d = v[i]; o.a = v[(i + 7) % 24]; o.imm = 0x5A;
      b.ops().push_back(o);
    }
    b.finish(v[0]);
    return b.P;
  }
  if (name == "reg-to-mem-kmovw") {
    ProbeBuilder b(MODE_AVX512);
    std::vector<int> k, g;
    for (int i = 0; i < 12; i++) { k.push_back(b.val(KIND_K, 2)); b.load(k.back(), 2 * i); }
    for (int i = 0; i < 12; i++) g.push_back(b.val(KIND_G, 4));
    for (int i = 0; i < 12; i++) { Op o; o.opc = O_KTOG; o.w = 2; o.d = g[i]; o.a = k[i]; b.ops().push_back(o); }
    b.finish(g[0]);
    return b.P;
  }
  if (name == "vector-argument-avx512") {
    ProbeBuilder b(MODE_AVX512, 2);
    const SigClass& sc = kSigClasses[2];
    std::vector<int> d;
    for (int i = 0; i < sc.nd; i++) { d.push_back(b.val(KIND_D, 8)); b.P.argbind[sc.ni + i] = d.back(); }
    std::vector<int> z;
    for (int i = 0; i < 22; i++) { z.push_back(b.val(KIND_V, 64)); b.load(z.back(), (i % 7) * 64); }
    for (int rnd = 0; rnd < 4; rnd++)
      for (int i = 0; i < 22; i++) { Op o; o.opc = O_VALU; o.sub = VA_PADDD; o.w = 64; o.d = z[i]; o.a = z[i]; o.s = SR(z[(i + 1 + rnd) % 22]); b.ops().push_back(o); }
    b.finish(-1);
    return b.P;
  }
  if (name == "or-mem-all-ones") {
    ProbeBuilder b;
    int x = b.val(KIND_G, 8);
    b.load(x, 0);
    b.call0();
    Op o; o.opc = O_ALUM; o.sub = A_OR; o.w = 4; o.s = SI(-1); o.s2 = SM(ProbeBuilder::M(8)); b.ops().push_back(o);
    b.call0();
    Op q; q.opc = O_ALUM; q.sub = A_OR; q.w = 8; q.s = SI(-1); q.s2 = SM(ProbeBuilder::M(24)); b.ops().push_back(q);
    b.finish(x);
    return b.P;
  }
  if (name == "and-reg-zero") {
    ProbeBuilder b;
    int v = b.val(KIND_G, 8), w = b.val(KIND_G, 2);
    b.load(v, 0); b.load(w, 8);
    b.call0();
    { Op st; st.opc = O_STORE; st.w = 8; st.s = SR(v); st.s2 = SM(ProbeBuilder::M(32)); b.ops().push_back(st); }
    { Op st; st.opc = O_STORE; st.w = 2; st.s = SR(w); st.s2 = SM(ProbeBuilder::M(40)); b.ops().push_back(st); }
    Op o; o.opc = O_ALU; o.sub = A_AND; o.w = 8; o.d = v; o.s = SI(0); b.ops().push_back(o);
    Op q; q.opc = O_ALU; q.sub = A_AND; q.w = 2; q.d = w; q.s = SI(0); b.ops().push_back(q);
    b.call0();
    b.finish(v);
    return b.P;
  }
  if (name == "same-reg-idiom-narrow-vector") {
    ProbeBuilder b(MODE_AVX);
    int y = b.val(KIND_V, 32), y2 = b.val(KIND_V, 32);
    b.load(y, 0); b.load(y2, 64);
    b.call0();
    { Op st; st.opc = O_VSTORE; st.w = 32; st.a = y; st.s2 = SM(ProbeBuilder::M(128)); b.ops().push_back(st); }
    { Op st; st.opc = O_VSTORE; st.w = 32; st.a = y2; st.s2 = SM(ProbeBuilder::M(160)); b.ops().push_back(st); }
    Op o; o.opc = O_VALU; o.sub = VA_PMINUD; o.w = 16; o.d = y; o.a = y; o.s = SR(y); b.ops().push_back(o);
    Op q; q.opc = O_VALU; q.sub = VA_PAND; q.w = 16; q.d = y2; q.a = y2; q.s = SR(y2); b.ops().push_back(q);
    b.call0();
    b.finish(-1);
    return b.P;
  }
  if (name == "narrow-stack-parameter-bound-to-wide-vreg") {
    ProbeBuilder b(MODE_SSE, 6);
    const SigClass& sc = kSigClasses[6];
    // parameters 11, 12, 15, 16 (u16, i16, u8, i8) keep their own width (their 1/2-byte home slots must not be written with a 32-bit store),
    // all others are bound to 64-bit virtual registers (the whole 8-byte home slot must hold the extended value)
    for (int a = 0; a < sc.ni; a++) {
      int ps = psize(sc.isz[a]);
      int vi = b.val(KIND_G, (u8)((ps < 4 && a >= 10) ? ps : 8));
      b.P.vals[vi].sgn = psigned(sc.isz[a]); b.P.argbind[a] = vi;
    }
    b.finish(b.P.argbind[19]);
    return b.P;
  }
  if (name == "ret-before-embedded-data") {
    ProbeBuilder b;
    int x = b.val(KIND_G, 8), y = b.val(KIND_G, 8);
    b.load(x, 0); b.load(y, 8);
    // B1: if (x < y) goto B3 ; B2: early ret + data ; B3: x += y ; final: dump, ret + data
    Term& t = b.P.blocks[1].term; t.kind = T_BR; t.cc = CC_B; t.w = 8; t.a = x; t.s = SR(y); t.target = 3;
    int e = b.nblock(); b.P.blocks[e].term.kind = T_RET; b.P.blocks[e].data_after = 3; b.P.blocks[e].data_kind = 0;
    int c = b.nblock();
    { Op o; o.opc = O_ALU; o.sub = A_ADD; o.w = 8; o.d = x; o.s = SR(y); b.P.blocks[c].ops.push_back(o); }
    b.finish(x);
    b.P.blocks.back().data_after = 4; b.P.blocks.back().data_kind = 0;
    return b.P;
  }
  if (name == "relocated-stack-argument-with-call-area") {
    ProbeBuilder b(MODE_AVX, 3);
    const SigClass& sc = kSigClasses[3];
    for (int a = 0; a < sc.nd; a++) {
      int vi;
      if (a >= 8 && (a & 1) == 0) { vi = b.val(KIND_V, 16); b.P.vals[vi].half = 1; }   // wider than the parameter
      else vi = b.val(KIND_D, 8);
      b.P.argbind[sc.ni + a] = vi;
    }
    for (int a = 6; a < sc.ni; a++) { int vi = b.val(KIND_G, (u8)psize(sc.isz[a])); b.P.argbind[a] = vi; }   // stack-passed integers
    std::vector<int> y;
    for (int i = 0; i < 10; i++) { y.push_back(b.val(KIND_V, 32)); b.load(y.back(), 32 * i); }    // 32-byte spill slots: realigned frame
    { Op o; o.opc = O_CALL; o.imm = NCALLEE_OLD; for (int k = 0; k < g_sigs[NCALLEE_OLD].n; k++) o.args.push_back(SI(1000 + k)); b.ops().push_back(o); }
    for (int i = 0; i < 10; i++) { Op o; o.opc = O_VALU; o.sub = VA_PADDD; o.w = 32; o.d = y[i]; o.a = y[i]; o.s = SR(y[(i + 1) % 10]); b.ops().push_back(o); }
    b.call0();
    b.finish(-1);
    return b.P;
  }
  if (name == "bt-register-base-spilled") {
    ProbeBuilder b;
    int v = b.val(KIND_G, 4), v2 = b.val(KIND_G, 8), i1 = b.val(KIND_G, 4, false), i2 = b.val(KIND_G, 8, false), c1 = b.val(KIND_G, 1), c2 = b.val(KIND_G, 1);
    b.load(v, 0); b.load(v2, 8); b.load(c1, 16); b.load(c2, 17);
    { Op o; o.opc = O_MOV; o.w = 4; o.d = i1; o.s = SI(100); b.P.blocks[0].ops.push_back(o); }
    { Op o; o.opc = O_MOV; o.w = 8; o.d = i2; o.s = SI(-3); b.P.blocks[0].ops.push_back(o); }
    b.call0();
    { Op o; o.opc = O_BT; o.sub = 1; o.w = 4; o.d = v; o.c = i1; o.d2 = c1; b.ops().push_back(o); }    // bts v32, 100  -> bit 4
    { Op o; o.opc = O_BT; o.sub = 3; o.w = 8; o.d = v2; o.c = i2; o.d2 = c2; b.ops().push_back(o); }   // btc v64, -3   -> bit 61
    b.call0();
    b.finish(v);
    return b.P;
  }
  if (name == "gather-mask-written") {
    ProbeBuilder b(MODE_AVX512);
    int k = b.val(KIND_K, 2), k2 = b.val(KIND_K, 2), src = b.val(KIND_V, 64), d = b.val(KIND_V, 64), t = b.val(KIND_V, 64, false), g = b.val(KIND_G, 4, false);
    b.load(src, 64); b.load(d, 128); b.load(k2, 8);
    { Op o; o.opc = O_MOV; o.w = 4; o.d = g; o.s = SI(0xFFFF); b.P.blocks[0].ops.push_back(o); }
    { Op o; o.opc = O_KFROMG; o.w = 2; o.d = k; o.a = g; b.P.blocks[0].ops.push_back(o); }
    b.call0();
    { Op o; o.opc = O_VSHI; o.sub = VS_PSRLD; o.w = 64; o.d = t; o.a = src; o.imm = 26; b.ops().push_back(o); }
    { Op o; o.opc = O_VGATHER; o.w = 64; o.d = d; o.a = t; o.c = k; o.imm = 16; b.ops().push_back(o); }
    b.call0();
    b.finish(-1);
    return b.P;
  }
  if (name == "immediate-stack-argument") {
    ProbeBuilder b;
    static const u64 kB[] = { 0, 1, ~0ull, 0x7F, 0x80, 0xFF, 0x7FFF, 0x8000, 0xFFFF, 0x7FFFFFFFull, 0x80000000ull, 0xFFFFFFFFull, 0x100000000ull,
                              0x7FFFFFFFFFFFFFFFull, 0x8000000000000000ull, 0xFFFFFFFF80000000ull, 0xFFFFFFFF7FFFFFFFull, 0xDEADBEEFull };
    const int nb = (int)(sizeof(kB) / sizeof(kB[0]));
    int v = b.val(KIND_G, 8);
    b.load(v, 0);
    // 14 integer arguments (6 in registers, 8 on the stack) and the 14-integer + 12-double callee (4 doubles on the stack); every boundary value visits every position
    static const int ids[] = { NCALLEE_OLD, NCALLEE_OLD + 1, NCALLEE_OLD + 7 };
    for (int id : ids) {
      int nd_seen = 0;
      std::vector<int> imm_ok(g_sigs[id].n, 1);
      for (int k = 0; k < g_sigs[id].n; k++) if (g_sigs[id].kind[k] == AK_F64) { imm_ok[k] = nd_seen >= 8; nd_seen++; }
      int dval = -1;
      for (int j = 0; j < nb; j++) {
        Op o; o.opc = O_CALL; o.imm = id;
        for (int k = 0; k < g_sigs[id].n; k++) {
          if (imm_ok[k]) o.args.push_back(SI((i64)kB[(k + j) % nb]));
          else { if (dval < 0) { dval = b.val(KIND_D, 8); b.load(dval, 16); } o.args.push_back(SR(dval)); }
        }
        b.ops().push_back(o);
      }
    }
    b.finish(v);
    return b.P;
  }
  if (name == "call-stack-area-max-over-invokes") {
    ProbeBuilder b;
    b.P.use_stack = true;
    for (int off = 0; off < STK_SIZE; off += 8) {
      Op st; st.opc = O_STORE; st.w = 8; st.s = SI(0x1111 * (off + 1)); MemRef m; m.space = M_STK; m.off = off; st.s2 = SM(m);
      b.P.blocks[0].ops.push_back(st);
    }
    std::vector<int> v;
    for (int i = 0; i < 24; i++) { v.push_back(b.val(KIND_G, 8)); b.load(v.back(), 8 * i); }
    int t = b.val(KIND_G, 8), t2 = b.val(KIND_G, 8);
    { Op st; st.opc = O_STORE; st.w = 8; st.s = SR(v[3]); MemRef m; m.space = M_STK; m.off = 8; st.s2 = SM(m); b.ops().push_back(st); }
    { Op st; st.opc = O_STORE; st.w = 8; st.s = SR(v[5]); MemRef m; m.space = M_STK; m.off = 72; st.s2 = SM(m); b.ops().push_back(st); }
    // big call first: 14 integer arguments = 64 bytes of stack arguments (SysV x86-64) ...
    { Op o; o.opc = O_CALL; o.imm = NCALLEE_OLD; for (int k = 0; k < g_sigs[NCALLEE_OLD].n; k++) o.args.push_back(SR(v[k])); b.ops().push_back(o); }
    // ... another big one with 12 doubles passed as integer bit patterns is not needed; the small call comes last
    b.call0();
    { Op o; o.opc = O_MOV; o.w = 8; o.d = t; MemRef m; m.space = M_STK; m.off = 8; o.s = SM(m); b.ops().push_back(o); }
    { Op o; o.opc = O_MOV; o.w = 8; o.d = t2; MemRef m; m.space = M_STK; m.off = 72; o.s = SM(m); b.ops().push_back(o); }
    for (int i = 0; i < 24; i++) { Op o; o.opc = O_ALU; o.sub = A_ADD; o.w = 8; o.d = v[i]; o.s = SI(i + 1); b.ops().push_back(o); }
    b.finish(t);
    return b.P;
  }
  if (name == "vpternlog-merge-masked") {
    ProbeBuilder b(MODE_AVX512);
    b.P.phys_k = 1;
    int v = b.val(KIND_V, 64), v2 = b.val(KIND_V, 64), t = b.val(KIND_G, 4, false);
    b.load(v, 0); b.load(v2, 64);
    b.call0();
    { Op o; o.opc = O_MOV; o.w = 4; o.d = t; o.s = SI(0xFF); b.ops().push_back(o); }
    { Op o; o.opc = O_VTERN; o.w = 64; o.d = v; o.a = v; o.s = SR(v); o.imm = 0xFF; o.cc = 1; o.b = t; b.ops().push_back(o); }
    { Op o; o.opc = O_VTERN; o.w = 64; o.d = v2; o.a = v2; o.s = SR(v2); o.imm = 0x00; o.cc = 1; o.b = t; b.ops().push_back(o); }
    { Op st; st.opc = O_VSTORE; st.w = 64; st.a = v; st.s2 = SM(ProbeBuilder::M(128)); b.ops().push_back(st); }
    b.finish(-1);
    return b.P;
  }
  if (name == "same-reg-hint-different-views") {
    ProbeBuilder b;
    int v1 = b.val(KIND_G, 4), v2 = b.val(KIND_G, 4), v3 = b.val(KIND_G, 4);
    b.load(v1, 0); b.load(v2, 8); b.load(v3, 16);
    b.call0();
    { Op st; st.opc = O_STORE; st.w = 4; st.s = SR(v1); st.s2 = SM(ProbeBuilder::M(32)); b.ops().push_back(st); }
    { Op o; o.opc = O_HI8; o.w = 1; o.sub = 4; o.d = v1; b.ops().push_back(o); }             // xchg v1.r8(), v1.r8_hi()
    { Op o; o.opc = O_HI8; o.w = 1; o.sub = 5; o.d = v2; o.a = v2; b.ops().push_back(o); }   // xor v2.r8(), v2.r8_hi()
    { Op o; o.opc = O_HI8; o.w = 1; o.sub = 6; o.d = v3; o.a = v3; b.ops().push_back(o); }   // xor v3.r8_hi(), v3.r8()
    b.call0();
    b.finish(v1);
    return b.P;
  }
  if (name == "variadic-call-target-register") {
    ProbeBuilder b;
    std::vector<int> v, d;
    for (int i = 0; i < 14; i++) { v.push_back(b.val(KIND_G, 8)); b.load(v.back(), 8 * i); }
    for (int i = 0; i < 10; i++) { d.push_back(b.val(KIND_D, 8)); b.load(d.back(), 128 + 8 * i); }
    // variadic helpers called through a register (sub 1) and through memory (sub 2) with a growing number of values live across the call
    for (int i = 0; i < 14; i++) {
      static const int ids[] = { 41, 40, 42 };
      for (int j = 0; j < 3; j++) {
        int id = ids[j];
        Op o; o.opc = O_CALL; o.imm = id; o.sub = (u8)(1 + ((i + j) & 1));
        int gi = i, di = i;
        for (int k = 0; k < g_sigs[id].n; k++) o.args.push_back(g_sigs[id].kind[k] == AK_F64 ? SR(d[di++ % 10]) : SR(v[gi++ % 14]));
        o.d = v[(i + 5) % 14];
        b.ops().push_back(o);
      }
      { Op o; o.opc = O_ALU; o.sub = A_ADD; o.w = 8; o.d = v[i]; o.s = SR(v[(i + 3) % 14]); b.ops().push_back(o); }
    }
    b.finish(v[0]);
    return b.P;
  }
  if (name == "indirect-vector-argument-on-stack") {
    ProbeBuilder b;
    int x0 = b.val(KIND_V, 16), x1 = b.val(KIND_V, 16), x2 = b.val(KIND_V, 16), g = b.val(KIND_G, 8), d = b.val(KIND_D, 8);
    b.load(x0, 0); b.load(x1, 16); b.load(x2, 32); b.load(g, 48); b.load(d, 56);
    { Op o; o.opc = O_CALL; o.imm = 38; o.args = { SR(x0), SR(g), SR(x1), SR(d), SR(x2) }; o.d = g; b.ops().push_back(o); }
    b.call0();
    b.finish(g);
    return b.P;
  }
  if (name == "a64-h-element-register-range") {
    ProbeBuilder b(MODE_SSE, 0, ARCH_A64);
    // 20 vectors live at once: some of them sit in v16..v31 when they are used as the element operand
    std::vector<int> v;
    for (int i = 0; i < 20; i++) { v.push_back(b.val(KIND_V, 16)); b.load(v.back(), 16 * i); }
    for (int i = 0; i < 20; i++) { Op o; o.opc = O_AMULE; o.w = 16; o.w2 = 2; o.cc = (u8)(i & 7); o.d = v[i]; o.a = v[(i + 1) % 20]; o.b = v[(i + 7) % 20]; b.ops().push_back(o); }
    b.finish(-1);
    return b.P;
  }
  if (name == "a64-lane-load-list-write-only") {
    ProbeBuilder b(MODE_SSE, 0, ARCH_A64);
    int x0 = b.val(KIND_V, 16), x1 = b.val(KIND_V, 16), x2 = b.val(KIND_V, 16);
    b.load(x0, 0); b.load(x1, 16); b.load(x2, 32);
    { Op o; o.opc = O_CALL; o.imm = 4; for (int k = 0; k < g_sigs[4].n; k++) o.args.push_back(SI(k)); b.ops().push_back(o); }
    { Op o; o.opc = O_ALD; o.sub = 3; o.w2 = 4; o.cc = 1; o.args = { SR(x0), SR(x1), SR(x2) }; o.s = SM(ProbeBuilder::M(64)); b.ops().push_back(o); }
    b.finish(-1);
    return b.P;
  }
  if (name == "a64-lr-live-across-call") {
    ProbeBuilder b(MODE_SSE, 0, ARCH_A64);
    // 32 values live across a call inside a counted loop: more than the callee-saved registers without x30
    std::vector<int> v;
    for (int i = 0; i < 32; i++) { v.push_back(b.val(KIND_G, 8)); b.load(v.back(), 8 * i); }
    int cnt = b.val(KIND_G, 4, false);
    { Op o; o.opc = O_MOV; o.w = 4; o.d = cnt; o.s = SI(3); b.P.blocks[0].ops.push_back(o); }
    { Op o; o.opc = O_CALL; o.imm = 4; b.ops().push_back(o); }   // callee 4: void f(4 integers)
    for (int k = 0; k < g_sigs[4].n; k++) b.ops().back().args.push_back(g_sigs[4].kind[k] == AK_F64 ? SI(0) : SR(v[k]));
    for (int i = 0; i < 32; i++) { Op o; o.opc = O_ALU; o.sub = A_ADD; o.w = 8; o.d = v[i]; o.s = SI(i + 1); b.ops().push_back(o); }
    b.P.blocks[1].term.kind = T_DEC; b.P.blocks[1].term.a = cnt; b.P.blocks[1].term.w = 4; b.P.blocks[1].term.target = 1;
    b.finish(v[0]);
    return b.P;
  }
  if (name == "x87-return-value-not-popped") {
    ProbeBuilder b(MODE_SSE, 0, ARCH_X86);
    int d = b.val(KIND_D, 8), g = b.val(KIND_G, 4);
    b.load(d, 0); b.load(g, 8);
    for (int i = 0; i < 9; i++) b.call0();                                  // callee 0 returns a double that nobody reads
    { Op o; o.opc = O_CALL; o.imm = 0; o.d = d; b.ops().push_back(o); }     // the tenth result is used
    b.finish(g);
    return b.P;
  }
  // unreachable-predecessor
  ProbeBuilder b;
  int a = b.val(KIND_G, 4), c = b.val(KIND_G, 4);
  b.load(a, 0);
  { Op o; o.opc = O_MOV; o.w = 4; o.d = c; o.s = SI(3); b.P.blocks[0].ops.push_back(o); }
  b.P.blocks[1].term.kind = T_JMP; b.P.blocks[1].term.target = 3;
  int u = b.nblock();   // block 2: unreachable, falls through into the loop
  { Op o; o.opc = O_ALU; o.sub = A_ADD; o.w = 4; o.d = a; o.s = SI(1); b.P.blocks[u].ops.push_back(o); }
  int l = b.nblock();   // block 3: loop
  { Op o; o.opc = O_ALU; o.sub = A_ADD; o.w = 4; o.d = a; o.s = SR(c); b.P.blocks[l].ops.push_back(o); }
  b.P.blocks[l].term.kind = T_DEC; b.P.blocks[l].term.a = c; b.P.blocks[l].term.w = 4; b.P.blocks[l].term.target = l;
  b.finish(a);
  return b.P;
}

static bool run_probe_mode(const Args& args, Counters& ctr, std::vector<ViolationOut>& viols, std::vector<std::string>& harness_errors, std::string& extra_json,
                           bool host512) {
  std::string only = args.str("name", "");
  int ninputs = (int)args.u64("inputs", 16);
  JitRuntime rt; g_rt = &rt;
  init_exec_env();
  std::string failed = "[";
  for (int i = 0; i < kNProbes; i++) {
    const ProbeDef& pd = kProbes[i];
    if (!only.empty() && only != pd.name) continue;
    if (pd.needs512 && !host512) continue;
    if (std::string(pd.name) == "a64-tbl-register-list") {
      ListProgram L; L.kind = 0; L.nvals = 6; L.nz = 0;
      { LOp o; o.kind = L_LD; o.n = 4; o.v[0] = 0; o.v[1] = 1; o.v[2] = 2; o.v[3] = 3; L.ops.push_back(o); }
      { LOp o; o.kind = L_LD; o.n = 2; o.v[0] = 4; o.v[1] = 5; L.ops.push_back(o); }
      { LOp o; o.kind = L_TBL; o.n = 2; o.v[0] = 3; o.v[1] = 1; o.d = 4; o.a = 5; L.ops.push_back(o); }
      { LOp o; o.kind = L_TBX; o.n = 3; o.v[0] = 2; o.v[1] = 0; o.v[2] = 5; o.d = 4; o.a = 1; L.ops.push_back(o); }
      for (int k = 0; k < 6; k++) { LOp o; o.kind = L_ST; o.n = 1; o.v[0] = k; o.slot = k; L.ops.push_back(o); }
      ctr.programs++; ctr.evaluations++;
      TaskResult tr = run_child_task([&](std::string& out) {
        Compiled comp;
        bool ok = compile_list_a64(L, comp);
        out = ok ? "0\n" : std::string("4\n") + "Compiler " + comp.stage + " failed: " + DebugUtils::error_as_string(comp.err) + " (" + comp.errmsg + ")";
      });
      if (tr.ok && atoi(tr.out.c_str()) == 0) continue;
      if (failed.size() > 1) failed += ",";
      failed += "{\"name\":" + jstr(pd.name) + ",\"avoid\":" + std::to_string(pd.avoid_bit) + "}";
      std::string w = tr.ok ? tr.out.substr(tr.out.find('\n') + 1) : std::string("the Compiler crashed (see sanitizer report)");
      add_violation(viols, std::string("a64:probe:") + pd.name, std::string(pd.what) + " -- observed: " + w, serialise_list(L), (u64)i);
      continue;
    }
    Program P = build_probe(pd.name);
    if (P.arch == ARCH_X86) init_exec32();
    if (g_trace) fprintf(stderr, "%s\n", serialise(P).c_str());
    count_program(ctr, P);
    ctr.evaluations++;
    Rng ir(0xC05 + i);
    std::vector<RunInput> inputs;
    make_inputs(ir, ninputs, inputs);
    TaskResult tr = run_child_task([&](std::string& out) {
      Compiled comp;
      Verdict v = check_program(P, inputs, comp, nullptr, true);
      out = std::to_string(v.kind) + "\n" + v.what;
    });
    int kind = -1; std::string what;
    if (tr.ok) { kind = atoi(tr.out.c_str()); what = tr.out.substr(tr.out.find('\n') + 1); }
    if (tr.ok && kind == 5) { harness_errors.push_back(std::string("probe ") + pd.name + ": " + what); continue; }
    if (tr.ok && kind == 0) continue;
    if (failed.size() > 1) failed += ",";
    failed += "{\"name\":" + jstr(pd.name) + ",\"avoid\":" + std::to_string(pd.avoid_bit) + "}";
    std::string w = tr.ok ? what : ("the Compiler crashed (signal " + std::to_string(tr.sig) + ", exit code " + std::to_string(tr.exitcode) + ", see sanitizer report)");
    add_violation(viols, std::string(P.arch == ARCH_A64 ? "a64:probe:" : P.arch == ARCH_X86 ? "x86-32:probe:" : "x64:probe:") + pd.name, std::string(pd.what) + " -- observed: " + w, serialise(P), (u64)i);
  }
  extra_json = ",\"probe_failed\":" + failed + "]";
  return true;
}

// ---------------------------------------------------------------------------------------------------------------
// main
// ---------------------------------------------------------------------------------------------------------------

int main(int argc, char** argv) {
  Args args(argc, argv);
  std::string mode = args.str("mode", "x64");
  u64 seed = args.u64("seed", 1);
  u64 first = args.u64("first", 0);
  u64 count = args.u64("count", 10);
  int ninputs = (int)args.u64("inputs", 16);
  int shrink_budget = (int)args.u64("shrink", 250);
  int annotate_mode = (int)args.u64("annotate", 2);   // 2: odd program indices with kRAAnnotate, even ones without (the default user configuration)
  bool dump = args.has("dump");
  g_trace = args.has("trace");
  g_trace_val = (int)args.u64("trace-val", (u64)-1);
  g_keep_unreachable = args.u64("unreachable", 1) != 0;
  g_avoid = (u32)args.u64("avoid", 0);
  std::string only_profile = args.str("profile", "");
  if (ninputs > NINPUTS_MAX) ninputs = NINPUTS_MAX;

  init_callee_sigs();
  CalleeInit<NCALLEE - 1>::run();
  init_callee_ptrs_ext();
  const CpuInfo& cpu = CpuInfo::host();
  bool host512 = cpu.features().x86().has_avx512_f() && cpu.features().x86().has_avx512_bw() && cpu.features().x86().has_avx512_dq() &&
                 cpu.features().x86().has_avx512_vl();
  bool host_avx2 = cpu.features().x86().has_avx2();
  g_trash_avx512 = host512;
  g_trash_avx = host_avx2;
  g_have_bmi2 = cpu.features().x86().has_bmi2(); g_have_sse41 = cpu.features().x86().has_sse4_1();
  g_have_cx16 = cpu.features().x86().has_cmpxchg16b(); g_have_lahf = cpu.features().x86().has_lahfsahf();

  Counters ctr;
  std::vector<ViolationOut> viols;
  std::vector<std::string> harness_errors;
  std::string extra_json;

  if (mode == "x64" || mode == "shapes") {
    JitRuntime rt;
    g_rt = &rt;
    init_exec_env();
    u64 nshapes = shape_count();
    struct Pending { Program P; std::vector<RunInput> inputs; std::vector<RunResult> ref; Compiled comp; Verdict v; u64 idx; u64 ph; int group_n = 1; u64 group_first = 0; };
    std::vector<Pending*> group;
    int multi_mode = (int)args.u64("multi", 1);   // 1: program indices 3,4,5 (mod 6) become the three functions of ONE Compiler
    std::vector<Pending*> pending;
    std::map<std::string, int> shrunk_per_key;
    int total_shrinks = 0;
    int batch = (int)args.u64("batch", 24);
    if (batch > BATCH_MAX) batch = BATCH_MAX;
    if (batch * ninputs > NINPUTS_MAX * BATCH_MAX) batch = NINPUTS_MAX * BATCH_MAX / ninputs;
    auto flush = [&]() {
      std::vector<ExecItem> items;
      std::vector<Pending*> owners;
      for (Pending* pd : pending) {
        if (pd->v.kind == 4) continue;
        ExecItem it; it.fn = pd->comp.fn; it.P = &pd->P; it.inputs = &pd->inputs;
        items.push_back(it); owners.push_back(pd);
      }
      if (!items.empty()) exec_native_batch(items);
      for (size_t i = 0; i < items.size(); i++) {
        owners[i]->v = compare_results(owners[i]->P, owners[i]->inputs, owners[i]->ref, items[i]);
        if (owners[i]->comp.base) g_rt->release(owners[i]->comp.base);
      }
      for (Pending* pd : pending) {
        const Program& P = pd->P;
        Verdict& v = pd->v;
        Compiled& comp = pd->comp;
        u64 idx = pd->idx;
        if (v.kind == 5) { harness_errors.push_back("program " + std::to_string(idx) + " (" + P.profile + "): " + v.what); delete pd; continue; }
        if (v.kind != 4) {
          ctr.inputs_run += pd->inputs.size();
          ctr.loads += comp.st.loads; ctr.saves += comp.st.saves; ctr.moves += comp.st.moves; ctr.swaps += comp.st.swaps;
          ctr.rm_subst += comp.st.rm_subst; ctr.user_insts += comp.st.user_insts;
          if (comp.st.nontrivial()) { ctr.nontrivial++; ctr.distinct_nontrivial.insert(pd->ph); }
        }
        else ctr.compile_errors++;
        if (v.kind == 4 && comp.err == Error::kInvalidDisplacement && has_short_range_branch(P)) { ctr.ops_by_kind["short-branch-out-of-range-inconclusive"]++; delete pd; continue; }
        if (v.kind != 0) {
          // shrink and report
          int attempts = 0;
          Program S = P;
          RunInput fin = pd->inputs[v.input >= 0 ? v.input : 0];
          std::string k0 = std::string(kVerdictKinds[v.kind]) + ":" + P.profile;
          // shrinking is expensive: only the first two failures of a kind/profile per process are shrunk
          if (shrink_budget > 0 && v.kind != 3 /* every attempt on a hang costs the CPU-time limit */ && shrunk_per_key[k0]++ < 2 && total_shrinks++ < 3) S = shrink_program(P, fin, v.kind, shrink_budget, attempts);
          Compiled c2;
          std::vector<RunInput> one(1, fin);
          Verdict v2 = check_program(S, one, c2, nullptr, false);
          ViolationOut vo;
          const char* const* kinds = kVerdictKinds;
          std::string cls = P.profile;
          if (mode == "shapes") cls = "shape";
          // a member of a multi-function Compiler that is fine when compiled alone fails because of what an earlier function left behind
          bool group_only = pd->group_n > 1 && v2.kind == 0 && attempts == 0;
          if (pd->group_n > 1) { Compiled c3; std::vector<RunInput> all1(1, fin); Verdict v3 = check_program(P, all1, c3, nullptr, false); group_only = v3.kind == 0; }
          if (group_only) cls = "multi-function:" + cls;
          vo.key = std::string("x64:") + kinds[v.kind] + ":" + cls;
          if (v.kind == 4) vo.key = std::string("x64:finalize-error:") + DebugUtils::error_as_string(comp.err);
          vo.what = v.what + " | profile=" + P.profile + " index=" + std::to_string(idx) + " | after shrinking (" + std::to_string(attempts) + " attempts): " +
                    (v2.kind ? v2.what : std::string("(shrunk program no longer fails; witness is the original)"));
          vo.witness = serialise(v2.kind ? S : P) + "input: " + input_to_string(fin);
          vo.index = idx; vo.input = v.input;
          if (group_only) { vo.index = pd->group_first; vo.count = pd->group_n; vo.what += " | only as function of a " + std::to_string(pd->group_n) + "-function Compiler (replay runs the whole group)"; }
          viols.push_back(vo);
        }
        delete pd;
      }
      pending.clear();
    };
    // several programs as consecutive functions of one Compiler (one finalize, virtual registers shared between the functions for every second group)
    auto compile_group = [&]() {
      if (group.empty()) return;
      std::vector<const Program*> ps; std::vector<Compiled*> os;
      for (Pending* g : group) { ps.push_back(&g->P); os.push_back(&g->comp); g->group_n = (int)group.size(); g->group_first = group[0]->idx; }
      bool ann = annotate_mode == 2 ? ((group[0]->idx / 6) & 1) != 0 : annotate_mode != 0;
      bool share = ((group[0]->idx / 12) & 1) != 0;
      ctr.ops_by_kind["functions-compiled-in-a-multi-function-Compiler"] += group.size();
      if (share) ctr.ops_by_kind["functions-sharing-virtual-registers-with-earlier-functions"] += group.size() - 1;
      for (Pending* g : group) { (void)g; if (ann) ctr.ops_by_kind["compiled-with-kRAAnnotate"]++; else ctr.ops_by_kind["compiled-without-kRAAnnotate"]++; }
      if (!compile_x86_multi(ps, os, ann, false, share)) {
        // which member is it? compile them one by one; a member that compiles alone fails only as part of the group
        ctr.ops_by_kind["multi-function-finalize-failed"]++;
        Error ge = group[0]->comp.err; std::string gmsg = group[0]->comp.errmsg, gstage = group[0]->comp.stage;
        bool blamed = false;
        for (Pending* g : group) {
          g->comp = Compiled();
          if (!compile_x86(g->P, g->comp, ann, false)) {
            g->v.kind = 4; blamed = true;
            g->v.what = "Compiler " + g->comp.stage + " failed: " + std::string(DebugUtils::error_as_string(g->comp.err)) + " (" + g->comp.errmsg + ")";
          }
          g->group_n = 1;
        }
        if (!blamed) {
          Pending* g = group[0];
          if (g->comp.base) g_rt->release(g->comp.base);
          g->comp = Compiled(); g->comp.err = ge; g->comp.errmsg = gmsg; g->comp.stage = gstage;
          g->v.kind = 4; g->group_n = (int)group.size();
          g->v.what = "Compiler " + gstage + " failed: " + std::string(DebugUtils::error_as_string(ge)) + " (" + gmsg + ") ONLY when " + std::to_string(group.size()) +
                      " functions are built with one Compiler (each of them compiles alone)";
        }
      }
      for (Pending* g : group) pending.push_back(g);
      group.clear();
    };
    for (u64 idx = first; idx < first + count; idx++) {
      Rng pr = Rng(seed * 0x9E3779B97F4A7C15ull + 0xC05).fork(idx + (mode == "shapes" ? 0x5000000 : 0));
      const Profile* pf;
      i64 shape_idx = -1;
      if (mode == "shapes") {
        if (idx >= nshapes * 3) break;
        shape_idx = (i64)(idx % nshapes);
        pf = &kProfilesShape[(idx / nshapes) % 3];
      }
      else {
        pf = &pick_profile_x64(idx);
        if (!only_profile.empty()) {
          pf = nullptr;
          for (int i = 0; i < kNProfilesX64; i++) if (only_profile == kProfilesX64[i].name) pf = &kProfilesX64[i];
          for (size_t i = 0; i < sizeof(kProfilesDbg) / sizeof(kProfilesDbg[0]); i++) if (only_profile == kProfilesDbg[i].name) pf = &kProfilesDbg[i];
          if (!pf) { fprintf(stderr, "unknown profile\n"); return 3; }
        }
      }
      Profile pfl = *pf;
      if (pfl.mode == MODE_AVX512 && !host512) pfl.mode = host_avx2 ? MODE_AVX : MODE_SSE;
      if (pfl.mode == MODE_AVX && !host_avx2) pfl.mode = MODE_SSE;
      if (pfl.mode != MODE_AVX512) { pfl.nk_lo = pfl.nk_hi = 0; pfl.w_mask = 0; }
      Program P = gen_program(pr, pfl, shape_idx);
      std::vector<RunInput> inputs;
      Rng ir = pr.fork(0x1297);
      make_inputs(ir, ninputs, inputs);
      if (dump) { printf("%s\n", serialise(P).c_str()); }
      count_program(ctr, P);
      u64 ph = program_hash(P);
      ctr.distinct_all.insert(ph);
      ctr.shapes_seen.insert(cfg_shape_hash(P));
      int ml = measure_max_live(P);
      ctr.max_live = std::max(ctr.max_live, ml);
      ctr.live_hist[ml < 8 ? 0 : ml < 17 ? 1 : ml < 33 ? 2 : ml < 65 ? 3 : ml < 129 ? 4 : 5]++;
      if (cfg_has_irreducible_hint(P)) ctr.by_shape_kind["has-retreating-non-loop-edge"]++;
      for (const Block& b : P.blocks) if (b.term.kind == T_SWITCH) { ctr.by_shape_kind["has-jump-table"]++; break; }
      for (const Block& b : P.blocks) if (b.term.kind == T_DEC) { ctr.by_shape_kind["has-counted-loop"]++; break; }

      Pending* pd = new Pending();
      pd->P = P; pd->inputs = inputs; pd->idx = idx; pd->ph = ph;
      if (!reference_run(pd->P, pd->inputs, pd->ref, &ctr, pd->v)) {
        harness_errors.push_back("program " + std::to_string(idx) + " (" + P.profile + "): " + pd->v.what);
        delete pd; continue;
      }
      ctr.evaluations++;
      bool grouped = multi_mode && mode == "x64" && (idx % 6) >= 3 && count >= 3;
      if (grouped) {
        group.push_back(pd);
        if ((idx % 6) == 5 || idx + 1 == first + count) compile_group();
      }
      else {
        bool ann = annotate_mode == 2 ? (idx & 1) != 0 : annotate_mode != 0;
        bool radebug = annotate_mode == 2 && (idx % 16) == 5;
        if (ann) ctr.ops_by_kind["compiled-with-kRAAnnotate"]++; else ctr.ops_by_kind["compiled-without-kRAAnnotate"]++;
        if (!compile_x86(pd->P, pd->comp, ann, radebug)) {
          pd->v.kind = 4;
          pd->v.what = "Compiler " + pd->comp.stage + " failed: " + std::string(DebugUtils::error_as_string(pd->comp.err)) + " (" + pd->comp.errmsg + ")";
        }
        if (radebug && pd->v.kind != 4) { ctr.ops_by_kind["compiled-with-kRADebugAll-and-logger"]++; if (!pd->comp.debug_log_bytes) harness_errors.push_back("kRADebugAll produced no log output"); }
        pending.push_back(pd);
      }
      if ((int)pending.size() >= batch) flush();
      // a tree this broken does not need more witnesses from this shard
      if (viols.size() >= 12) { ctr.ops_by_kind["shard-stopped-after-12-violations"]++; break; }
    }
    compile_group();
    flush();
  }
  else if (mode == "x86" || mode == "a64") {
    run_exec_mode(mode, args, ctr, viols, harness_errors, extra_json);
  }
  else if (mode == "probe") {
    run_probe_mode(args, ctr, viols, harness_errors, extra_json, host512);
  }
  else if (!run_other_mode(mode, args, ctr, viols, harness_errors, extra_json)) {
    fprintf(stderr, "unknown mode %s\n", mode.c_str());
    return 3;
  }

  std::string out = "{";
  out += "\"mode\":" + jstr(mode);
  out += ",\"violations\":[";
  for (size_t i = 0; i < viols.size(); i++) {
    if (i) out += ",";
    out += "{\"key\":" + jstr(viols[i].key) + ",\"what\":" + jstr(viols[i].what) + ",\"witness\":" + jstr(viols[i].witness) +
           ",\"index\":" + std::to_string(viols[i].index) + ",\"input\":" + std::to_string(viols[i].input) + ",\"count\":" + std::to_string(viols[i].count) + "}";
  }
  out += "],\"harness_errors\":[";
  for (size_t i = 0; i < harness_errors.size(); i++) { if (i) out += ","; out += jstr(harness_errors[i]); }
  out += "]";
  out += ",\"programs\":" + std::to_string(ctr.programs) + ",\"evaluations\":" + std::to_string(ctr.evaluations);
  out += ",\"inputs_run\":" + std::to_string(ctr.inputs_run) + ",\"nontrivial\":" + std::to_string(ctr.nontrivial);
  out += ",\"compile_errors\":" + std::to_string(ctr.compile_errors);
  out += ",\"loads\":" + std::to_string(ctr.loads) + ",\"saves\":" + std::to_string(ctr.saves) + ",\"moves\":" + std::to_string(ctr.moves);
  out += ",\"swaps\":" + std::to_string(ctr.swaps) + ",\"rm_subst\":" + std::to_string(ctr.rm_subst) + ",\"user_insts\":" + std::to_string(ctr.user_insts);
  out += ",\"calls_logged\":" + std::to_string(ctr.calls_logged) + ",\"dyn_ops\":" + std::to_string(ctr.dyn_ops);
  out += ",\"max_live\":" + std::to_string(ctr.max_live) + ",\"max_vals\":" + std::to_string(ctr.max_vals);
  out += ",\"by_profile\":" + json_map(ctr.by_profile) + ",\"cfg_kinds\":" + json_map(ctr.by_shape_kind);
  out += ",\"ops_by_kind\":" + json_map(ctr.ops_by_kind) + ",\"term_by_kind\":" + json_map(ctr.term_by_kind);
  out += ",\"live_hist\":[";
  for (int i = 0; i < 6; i++) { if (i) out += ","; out += std::to_string(ctr.live_hist[i]); }
  out += "]";
  auto set_json = [](const std::set<u64>& s) { std::string r = "["; bool f = true; for (u64 x : s) { if (!f) r += ","; f = false; r += "\"" + hexstr(&x, 8) + "\""; } return r + "]"; };
  out += ",\"distinct_nontrivial\":" + set_json(ctr.distinct_nontrivial);
  out += ",\"distinct_all\":" + std::to_string(ctr.distinct_all.size());
  out += ",\"cfg_shapes\":" + set_json(ctr.shapes_seen);
  {
    std::string rw = "{";
    bool f = true;
    for (auto& kv : g_id_rewrites) {
      String a, b;
      InstAPI::inst_id_to_string(Arch::kX64, kv.first.first, InstStringifyOptions::kNone, a);
      InstAPI::inst_id_to_string(Arch::kX64, kv.first.second, InstStringifyOptions::kNone, b);
      if (!f) rw += ",";
      f = false;
      rw += jstr(std::string(a.data()) + "->" + b.data()) + ":" + std::to_string(kv.second);
    }
    out += ",\"inst_id_rewrites\":" + rw + "}";
  }
  out += extra_json;
  out += "}";
  printf("%s\n", out.c_str());
  return 0;
}
