// Shared helpers for the verification drivers (harness code, not part of asmjit).
#ifndef VERIF_VCOMMON_H
#define VERIF_VCOMMON_H

#include <stdint.h>
#include <stdio.h>
#include <stdlib.h>
#include <string.h>
#include <string>
#include <vector>
#include <map>
#include <set>

struct Rng {
  uint64_t s;
  explicit Rng(uint64_t seed = 1) : s(seed) {}
  uint64_t next() {
    s += 0x9E3779B97F4A7C15ull;
    uint64_t z = s;
    z = (z ^ (z >> 30)) * 0xBF58476D1CE4E5B9ull;
    z = (z ^ (z >> 27)) * 0x94D049BB133111EBull;
    return z ^ (z >> 31);
  }
  uint64_t below(uint64_t n) { return n ? next() % n : 0; }
  uint64_t range(uint64_t lo, uint64_t hi) { return lo + below(hi - lo + 1); }
  bool chance(uint64_t num, uint64_t den) { return below(den) < num; }
  Rng fork(uint64_t tag) { return Rng(next() ^ (tag * 0x9E3779B97F4A7C15ull)); }
};

static inline uint64_t fnv1a(const void* p, size_t n, uint64_t h = 1469598103934665603ull) {
  const uint8_t* b = (const uint8_t*)p;
  for (size_t i = 0; i < n; i++) { h ^= b[i]; h *= 1099511628211ull; }
  return h;
}

static inline std::string jstr(const std::string& s) {
  std::string o = "\"";
  for (unsigned char c : s) {
    if (c == '"' || c == '\\') { o += '\\'; o += (char)c; }
    else if (c == '\n') o += "\\n";
    else if (c == '\t') o += "\\t";
    else if (c < 0x20 || c >= 0x7f) { char b[8]; snprintf(b, sizeof b, "\\u%04x", c); o += b; }
    else o += (char)c;
  }
  return o + "\"";
}

static inline std::string hexstr(const void* p, size_t n) {
  static const char* d = "0123456789abcdef";
  std::string o;
  const uint8_t* b = (const uint8_t*)p;
  for (size_t i = 0; i < n; i++) { o += d[b[i] >> 4]; o += d[b[i] & 15]; }
  return o;
}

struct Args {
  std::map<std::string, std::string> kv;
  Args(int argc, char** argv) {
    for (int i = 1; i < argc; i++) {
      std::string a = argv[i];
      if (a.rfind("--", 0) == 0) {
        size_t eq = a.find('=');
        if (eq != std::string::npos) kv[a.substr(2, eq - 2)] = a.substr(eq + 1);
        else if (i + 1 < argc && strncmp(argv[i + 1], "--", 2) != 0) { kv[a.substr(2)] = argv[i + 1]; i++; }
        else kv[a.substr(2)] = "1";
      }
    }
  }
  uint64_t u64(const char* k, uint64_t d) const {
    auto it = kv.find(k);
    return it == kv.end() ? d : strtoull(it->second.c_str(), nullptr, 0);
  }
  std::string str(const char* k, const char* d = "") const {
    auto it = kv.find(k);
    return it == kv.end() ? std::string(d) : it->second;
  }
  bool has(const char* k) const { return kv.count(k) != 0; }
};

#endif
