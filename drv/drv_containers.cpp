// C18 driver: random operation scripts interleaved across arena-backed containers that share ONE Arena,
// compared step by step against std:: models, plus structural-invariant walks and a live-block interval map.
// All oracle logic lives here (harness code); asmjit is driven through its container APIs. ASan/UBSan watch the rest.
#include <asmjit/core.h>
#include <asmjit/support/arena.h>
#include <asmjit/support/arenavector.h>
#include <asmjit/support/arenahash.h>
#include <asmjit/support/arenatree.h>
#include <asmjit/support/arenalist.h>
#include <asmjit/support/arenabitset_p.h>
#include <asmjit/support/arenapool.h>
#include <asmjit/support/arenastring.h>
#include <asmjit/core/string.h>
#include "vcommon.h"
#include <algorithm>
#include <deque>
#include <memory>
#include <functional>
#include <unordered_map>
#include <unordered_set>
#include <stdarg.h>
#include <unistd.h>
#include <errno.h>
#include <ctype.h>
#include <sys/wait.h>

using namespace asmjit;

extern "C" int __asan_address_is_poisoned(void const volatile* addr);
extern "C" int __sanitizer_get_ownership(const volatile void* p);
extern "C" size_t __sanitizer_get_allocated_size(const volatile void* p);

// ---------------------------------------------------------------------------------------------------------
// Kinds / statistics
// ---------------------------------------------------------------------------------------------------------
enum Family : int { F_VECTOR, F_HASH, F_TREE, F_LIST, F_BITSET, F_BITVEC, F_POOL, F_ASTRING, F_STRING, F_RAW, F_ARENA, F_COUNT };
static const char* kFamilyNames[] = { "vector", "hash", "tree", "list", "bitset", "bitvec", "pool", "arenastring", "string", "raw", "arena" };

struct Violation { std::string key; std::string what; uint64_t script; };

struct Stats {
  uint64_t scripts = 0, ops_total = 0, compares = 0, walks = 0, arena_walks = 0;
  uint64_t ops[F_COUNT] {};
  uint64_t inj_armed = 0, inj_fired = 0, arena_requests = 0;
  uint64_t resets_soft = 0, resets_hard = 0, reuse_observed = 0, static_arenas = 0, skip_events = 0;
  uint64_t stamp_bytes = 0, max_blocks = 0, max_live_blocks = 0, huge_rejected = 0;
  uint64_t sso_to_heap = 0, fmt_exact_fit = 0, nontrivial_scripts = 0;
  // round 11: self-aliased arguments, moves, impossible sizes beyond vector/String, growth above kGrowThreshold, word types, prime table
  uint64_t self_alias_string = 0, self_alias_string_grow = 0, self_alias_vector = 0, self_alias_bitset = 0, self_swaps = 0;
  uint64_t child_probes = 0, child_probe_deaths = 0;
  uint64_t moves_hash = 0, moves_hash_embedded = 0, moves_tree = 0, moves_list = 0;
  uint64_t huge_arena = 0, huge_bitset = 0, huge_string = 0, malloc_refused = 0, malloc_refused_after_soft_reset = 0;
  uint64_t big_vec_growths = 0, big_string_growths = 0, big_bitset_growths = 0, big_bytes_verified = 0;
  uint64_t bitops_calls = 0, bitvec32_ops = 0, bitword_iter = 0;
  uint64_t prime_indices = 0, calc_mod_checks = 0, natural_rehashes = 0;
  uint64_t small_api_checks = 0;
  std::map<std::pair<const char*, const char*>, uint64_t> opcount;
  std::unordered_set<uint64_t> distinct_all, distinct_nt;
  std::vector<std::string> samples;
};

static Stats g_stats;
static std::vector<Violation> g_viol;
static std::map<std::string, uint64_t> g_viol_count;

// ---------------------------------------------------------------------------------------------------------
// Fault injection (hook H1)
// ---------------------------------------------------------------------------------------------------------
static bool g_armed = false;
static uint64_t g_fired = 0;
// --real-oom 1: the shard runs with an allocator that refuses every malloc above 1 MiB (ASAN_OPTIONS max_allocation_size_mb=1), so
// the arena cannot grow past a few hundred KB and malloc really returns null inside Arena::_alloc_oneshot/_alloc_reusable on the
// ordinary paths. A null / kOutOfMemory answer without an injected failure is then legitimate (and counted), everything else is
// judged as usual: nothing may change on failure, the block list stays walkable, live blocks keep their contents.
static bool g_real_oom = false;
static uint64_t g_real_oom_failures = 0;
static bool real_failure_ok() { if (g_real_oom) { g_real_oom_failures++; return true; } return false; }

static bool fail_hook(size_t) {
  g_stats.arena_requests++;
  if (g_armed) { g_fired++; g_stats.inj_fired++; return true; }
  return false;
}

struct Fault {
  uint64_t f0;
  explicit Fault(bool inject) : f0(g_fired) { g_armed = inject; if (inject) g_stats.inj_armed++; }
  ~Fault() { g_armed = false; }
  bool fired() { g_armed = false; return g_fired != f0; }
};

// ---------------------------------------------------------------------------------------------------------
// Stamps
// ---------------------------------------------------------------------------------------------------------
static inline uint8_t stamp_byte(uint64_t id, size_t i) { return uint8_t((id * 131u + i * 7u + 13u) ^ (i >> 8)); }
static void stamp_fill(void* p, size_t n, uint64_t id) { uint8_t* b = (uint8_t*)p; for (size_t i = 0; i < n; i++) b[i] = stamp_byte(id, i); }
static long stamp_check(const void* p, size_t n, uint64_t id) {
  const uint8_t* b = (const uint8_t*)p;
  for (size_t i = 0; i < n; i++) if (b[i] != stamp_byte(id, i)) return (long)i;
  g_stats.stamp_bytes += n;
  return -1;
}

// ---------------------------------------------------------------------------------------------------------
// Script context
// ---------------------------------------------------------------------------------------------------------
struct OpRec { const char* kind; const char* op; uint64_t a, b; };
struct BufSlot { uintptr_t p = 0; size_t n = 0; };
struct Blk { size_t n; const char* owner; };

struct Ctx {
  uint64_t script_idx = 0, script_seed = 0;
  std::string cfg;
  Rng r;
  Arena* arena = nullptr;
  void* static_block = nullptr;
  size_t static_size = 0;
  std::map<uintptr_t, Blk> live;
  std::deque<std::pair<uintptr_t, size_t>> dead;
  OpRec ring[32];
  uint64_t nops = 0;
  uint64_t hash = 1469598103934665603ull;
  int last_family = -1;
  uint32_t family_mask = 0, switches = 0;
  bool abort = false, fault_enabled = true, walks_enabled = true;
  size_t block_count = 0;
  bool did_reset = false;
  uint64_t next_id = 1;

  void log(int family, const char* kind, const char* op, uint64_t a = 0, uint64_t b = 0) {
    ring[nops & 31] = { kind, op, a, b };
    nops++;
    g_stats.ops_total++;
    g_stats.ops[family]++;
    g_stats.opcount[std::make_pair(kind, op)]++;
    uint64_t w[3] = { fnv1a(op, strlen(op), (uint64_t)family), a, b };
    hash = fnv1a(w, sizeof w, hash);
    if (family != F_ARENA) {
      if (family != last_family && last_family != -1) switches++;
      last_family = family;
      family_mask |= 1u << family;
    }
  }

  std::string tail() const {
    std::string s = "[";
    uint64_t from = nops > 24 ? nops - 24 : 0;
    for (uint64_t i = from; i < nops; i++) {
      const OpRec& o = ring[i & 31];
      char b[160];
      snprintf(b, sizeof b, "%s%s.%s(%llu,%llu)", i == from ? "" : " ", o.kind, o.op, (unsigned long long)o.a, (unsigned long long)o.b);
      s += b;
    }
    return s + "]";
  }

  void viol(const std::string& key, const std::string& what) {
    g_viol_count[key]++;
    for (auto& v : g_viol) if (v.key == key) return;
    char b[200];
    snprintf(b, sizeof b, " | script=%llu seed=%llu op#=%llu cfg=", (unsigned long long)script_idx, (unsigned long long)script_seed, (unsigned long long)nops);
    g_viol.push_back({ key, what + b + cfg + " last_ops=" + tail(), script_idx });
  }

  // -- live block interval map ---------------------------------------------
  bool add_block(const void* ptr, size_t n, const char* owner, const char* op) {
    uintptr_t p = (uintptr_t)ptr;
    if (!p || !n) return true;
    char b[256];
    if (p % Arena::kAlignment) {
      snprintf(b, sizeof b, "%s returned %p for %s (%zu bytes): not aligned to Arena::kAlignment=%zu", op, ptr, owner, n, (size_t)Arena::kAlignment);
      viol(std::string("arena:misaligned-block:") + op, b);
    }
    auto it = live.upper_bound(p);
    const Blk* hit = nullptr; uintptr_t hp = 0;
    if (it != live.begin()) { auto pr = std::prev(it); if (pr->first + pr->second.n > p) { hit = &pr->second; hp = pr->first; } }
    if (!hit && it != live.end() && it->first < p + n) { hit = &it->second; hp = it->first; }
    if (hit) {
      snprintf(b, sizeof b, "%s returned [%p,+%zu) for %s which overlaps the live block [%p,+%zu) owned by %s", op, ptr, n, owner, (void*)hp, hit->n, hit->owner);
      viol(std::string("arena:overlaps-live-block:") + op, b);
      abort = true;
      return false;
    }
    for (auto& d : dead) if (d.first < p + n && p < d.first + d.second) { g_stats.reuse_observed++; break; }
    live[p] = { n, owner };
    g_stats.max_live_blocks = std::max<uint64_t>(g_stats.max_live_blocks, live.size());
    return true;
  }
  void remove_block(const void* ptr, bool released) {
    auto it = live.find((uintptr_t)ptr);
    if (it == live.end()) return;
    if (released) { dead.push_back({ it->first, it->second.n }); if (dead.size() > 48) dead.pop_front(); }
    live.erase(it);
  }
  // container-owned buffer described by the container header (data pointer, byte capacity)
  void sync(BufSlot& s, const void* ptr, size_t n, const char* owner, const char* op) {
    uintptr_t p = (uintptr_t)ptr;
    if (!p) n = 0;
    if (!n) p = 0;
    if (s.p == p && s.n == n) return;
    if (s.p) remove_block((void*)s.p, true);
    s.p = 0; s.n = 0;
    if (p && add_block(ptr, n, owner, op)) { s.p = p; s.n = n; }
  }
  bool maybe_fault() { return fault_enabled && r.chance(1, 40); }
};

static Ctx* C = nullptr;

static std::string S(const char* fmt, ...) {
  char b[600];
  va_list ap; va_start(ap, fmt); vsnprintf(b, sizeof b, fmt, ap); va_end(ap);
  return b;
}

// result of an operation that reports through asmjit::Error, under (possible) fault injection
static bool expect(const char* kind, const char* op, Error e, bool fired) {
  if (fired && e == Error::kOk) C->viol(S("%s:injected-failure-not-reported:%s", kind, op), S("%s.%s returned kOk although the arena request it made was refused", kind, op));
  if (!fired && e != Error::kOk && !(e == Error::kOutOfMemory && real_failure_ok())) C->viol(S("%s:unexpected-error:%s", kind, op), S("%s.%s failed with error %u without any injected failure", kind, op, (unsigned)e));
  return e == Error::kOk;
}

// Runs `fn` in a forked copy of the process first, so that an operation that ends in a sanitizer abort costs one child and
// not the rest of the shard. Returns "" when the child survived, otherwise the error class of what stopped it
// ("heap-use-after-free", "memcpy-param-overlap", "ubsan", "signal-11", ...). The child's stderr is captured (not forwarded).
static std::string probe_in_child(const std::function<void()>& fn, std::string* report = nullptr) {
  fflush(stdout); fflush(stderr);
  int pfd[2];
  if (pipe(pfd) != 0) return "";
  pid_t pid = fork();
  if (pid < 0) { close(pfd[0]); close(pfd[1]); return ""; }
  if (pid == 0) {
    close(pfd[0]); dup2(pfd[1], 2); close(pfd[1]);
    fn();
    _exit(0);
  }
  close(pfd[1]);
  std::string err; char buf[4096]; ssize_t n;
  while ((n = read(pfd[0], buf, sizeof buf)) > 0) if (err.size() < (1u << 16)) err.append(buf, size_t(n));
  close(pfd[0]);
  int st = 0;
  while (waitpid(pid, &st, 0) < 0 && errno == EINTR) {}
  g_stats.child_probes++;
  if (WIFEXITED(st) && WEXITSTATUS(st) == 0) return "";
  g_stats.child_probe_deaths++;
  std::string cls;
  size_t at = err.find("ERROR: AddressSanitizer: ");
  if (at != std::string::npos) {
    at += strlen("ERROR: AddressSanitizer: ");
    size_t e = at; while (e < err.size() && (isalnum((unsigned char)err[e]) || err[e] == '-' || err[e] == '_')) e++;
    cls = err.substr(at, e - at);
  }
  else if (err.find("runtime error:") != std::string::npos) cls = "ubsan";
  else if (WIFSIGNALED(st)) cls = S("signal-%d", WTERMSIG(st));
  else cls = S("exit-%d", WIFEXITED(st) ? WEXITSTATUS(st) : -1);
  if (report) {
    // first report line + the innermost frames, for the violation text
    std::string txt; size_t pos = at != std::string::npos ? err.rfind('\n', at) + 1 : 0; int lines = 0;
    while (pos < err.size() && lines < 9) { size_t nl = err.find('\n', pos); if (nl == std::string::npos) nl = err.size(); std::string ln = err.substr(pos, nl - pos); if (lines == 0 || ln.find("    #") == 0) { txt += ln.substr(0, 200) + " / "; lines++; } pos = nl + 1; }
    *report = txt;
  }
  return cls;
}

// ---------------------------------------------------------------------------------------------------------
// Arena block-list walk (invariants over the allocator's own links)
// ---------------------------------------------------------------------------------------------------------
static size_t arena_walk(const char* when) {
  if (!C->walks_enabled) return 0;
  Arena& a = *C->arena;
  g_stats.arena_walks++;
  Arena::ManagedBlock* b = a._first_block;
  Arena::ManagedBlock* prev = nullptr;
  size_t n = 0;
  bool found = false;
  while (b) {
    bool is_static = a.has_static_block() && (void*)b == C->static_block;
    if (!is_static) {
      if (__asan_address_is_poisoned(b)) {
        C->viol("arena:block-list-links-freed-block",
                S("(%s) the managed-block list reaches block #%zu at %p which has already been freed (dangling ManagedBlock::next); a later reset()/~Arena() walks it", when, n, (void*)b));
        if (prev) { prev->next = (a._current_block != prev) ? a._current_block : nullptr; b = prev->next; continue; }  // harness-side repair to keep exploring
        C->abort = true;
        return n;
      }
      bool zero = !a.has_static_block() && b == a._first_block && !__sanitizer_get_ownership(b) && b->size == 0 && b->next == nullptr;
      if (!zero) {
        if (!__sanitizer_get_ownership(b)) { C->viol("arena:block-not-a-live-allocation", S("(%s) block #%zu at %p is not a live heap allocation", when, n, (void*)b)); C->abort = true; return n; }
        if (__sanitizer_get_allocated_size(b) < sizeof(Arena::ManagedBlock) + b->size)
          C->viol("arena:block-size-exceeds-allocation", S("(%s) block #%zu claims %zu usable bytes but its allocation has %zu", when, n, b->size, __sanitizer_get_allocated_size(b)));
      }
    }
    else if (b->size != C->static_size - sizeof(Arena::ManagedBlock)) {
      C->viol("arena:static-block-size", S("(%s) static block claims %zu usable bytes of a %zu byte buffer", when, b->size, C->static_size));
    }
    if (b == a._current_block) found = true;
    if (++n > 100000) { C->viol("arena:block-list-cycle", S("(%s) more than 100000 blocks linked", when)); C->abort = true; return n; }
    prev = b;
    b = b->next;
  }
  if (!found) { C->viol("arena:current-block-not-in-list", S("(%s) _current_block is not reachable from _first_block", when)); C->abort = true; }
  else {
    Arena::ManagedBlock* cur = a._current_block;
    if (!(a._ptr >= cur->data() && a._ptr <= a._end && a._end <= cur->end()))
      C->viol("arena:cursor-outside-current-block", S("(%s) _ptr/_end are not inside the current block", when));
  }
  size_t dn = 0;
  Arena::DynamicBlock* dp = nullptr;
  for (Arena::DynamicBlock* d = a._dynamic_blocks; d; d = d->next) {
    if (__asan_address_is_poisoned(d) || !__sanitizer_get_ownership(d)) { C->viol("arena:dynamic-list-links-freed-block", S("(%s) dynamic block #%zu is not a live allocation", when, dn)); C->abort = true; break; }
    if (d->prev != dp) { C->viol("arena:dynamic-list-asymmetric", S("(%s) dynamic block #%zu has a wrong prev link", when, dn)); C->abort = true; break; }
    if (++dn > 1000000) { C->abort = true; break; }
    dp = d;
  }
  g_stats.max_blocks = std::max<uint64_t>(g_stats.max_blocks, n);
  return n;
}

// Dynamic (malloc-backed) blocks must be gone after any reset / destruction of the arena.
static std::vector<void*> dynamic_blocks_of(Arena& a) {
  std::vector<void*> v;
  for (Arena::DynamicBlock* d = a._dynamic_blocks; d && v.size() < 1000000; d = d->next) {
    if (__asan_address_is_poisoned(d)) break;
    v.push_back(d);
  }
  return v;
}
static void expect_freed(const std::vector<void*>& blocks, const char* when, Arena* still_alive) {
  size_t kept = 0;
  bool linked = still_alive && still_alive->_dynamic_blocks != nullptr;   // the arena still references them: not lost yet, a later reset may free them
  for (void* d : blocks) if (!__asan_address_is_poisoned(d) && __sanitizer_get_ownership(d)) { kept++; if (!linked) free(d); }   // harness frees lost blocks so that LSan stays quiet afterwards
  if (kept) C->viol("arena:reset-leaks-dynamic-blocks", S("(%s) %zu of %zu dynamic blocks (alloc_reusable requests above %zu bytes) are still allocated afterwards%s", when, kept, blocks.size(), (size_t)Arena::kMaxReusableSlotSize, linked ? " (reset did not release them)" : " and no longer reachable from the arena (leak)"));
}

struct Harness {
  int family = 0;
  virtual ~Harness() {}
  virtual void step() = 0;
  virtual void check_all(const char* when) = 0;
  virtual void drop() = 0;       // before Arena::reset(): forget everything that lives in the arena
  virtual void finish() {}       // end of script
};

// ---------------------------------------------------------------------------------------------------------
// ArenaVector<T>  vs  std::vector<T>
// ---------------------------------------------------------------------------------------------------------
struct S12 {
  uint32_t a, b, c;
  bool operator==(const S12& o) const { return a == o.a && b == o.b && c == o.c; }
  bool operator!=(const S12& o) const { return !(*this == o); }
};
template<typename T> struct VT;
template<> struct VT<uint8_t>  { static const char* name() { return "vector<u8>"; }  static uint8_t make(uint64_t x) { return uint8_t(x); } static constexpr bool sortable = true; };
template<> struct VT<uint32_t> { static const char* name() { return "vector<u32>"; } static uint32_t make(uint64_t x) { return uint32_t(x * 2654435761u); } static constexpr bool sortable = true; };
template<> struct VT<uint64_t> { static const char* name() { return "vector<u64>"; } static uint64_t make(uint64_t x) { return x * 0x9E3779B97F4A7C15ull; } static constexpr bool sortable = true; };
template<> struct VT<S12>      { static const char* name() { return "vector<12B>"; } static S12 make(uint64_t x) { return S12{ uint32_t(x), uint32_t(x ^ 0x55555555u), uint32_t(x * 3u) }; } static constexpr bool sortable = false; };

template<typename T>
struct VecH : Harness {
  ArenaVector<T> v[2];
  std::vector<T> m[2];
  BufSlot slot[2];
  uint64_t domain;
  size_t soft_cap;
  const char* K;

  VecH() {
    family = F_VECTOR;
    K = VT<T>::name();
    static const uint64_t doms[] = { 4, 40, 1u << 20 };
    domain = doms[C->r.below(3)];
    static const size_t caps[] = { 12, 100, 700, 4000 };
    soft_cap = caps[C->r.below(4)];
  }
  T val() { return VT<T>::make(C->r.below(domain)); }

  void resync(int t) {
    if (v[t].size() > v[t].capacity() || (v[t].size() && !v[t].data())) { C->abort = true; return; }
    m[t].assign(v[t].data(), v[t].data() + v[t].size());
  }

  void check(int t, const char* op, bool full) {
    g_stats.compares++;
    ArenaVector<T>& V = v[t];
    std::vector<T>& M = m[t];
    if (V.size() != M.size()) {
      C->viol(S("vector:size-mismatch:%s", op), S("%s after %s: size()=%zu, model has %zu elements", K, op, V.size(), M.size()));
      resync(t);
    }
    else if (V.size() && memcmp(V.data(), M.data(), V.size() * sizeof(T)) != 0) {
      size_t i = 0; while (!(V.data()[i] == M[i])) { break; } for (i = 0; i < V.size() && V.data()[i] == M[i]; i++) {}
      C->viol(S("vector:content-mismatch:%s", op), S("%s after %s: element %zu of %zu differs from the model", K, op, i, V.size()));
      resync(t);
    }
    if (V.capacity() < V.size()) { C->viol(S("vector:capacity-below-size:%s", op), S("%s after %s: capacity %zu < size %zu", K, op, V.capacity(), V.size())); C->abort = true; return; }
    if (V.is_empty() != M.empty()) C->viol(S("vector:is_empty-wrong:%s", op), S("%s is_empty() disagrees with size", K));
    if (full && !C->abort) {
      size_t i = 0; bool ok = true;
      for (T& x : V.iterate()) { if (i >= M.size() || !(x == M[i])) { ok = false; break; } i++; }
      if (i != M.size()) ok = false;
      size_t j = M.size();
      for (T& x : V.iterate_reverse()) { if (j == 0 || !(x == M[j - 1])) { ok = false; break; } j--; }
      if (j != 0) ok = false;
      if (size_t(V.end() - V.begin()) != M.size() || V.as_span().size() != M.size()) ok = false;
      if (!M.empty() && (!(V.first() == M.front()) || !(V.last() == M.back()))) ok = false;
      if (!ok) C->viol(S("vector:iteration-mismatch:%s", op), S("%s forward/reverse iteration, first()/last() or span disagree with the model after %s", K, op));
      // element access, const iterators, span comparison (near miss included)
      const ArenaVector<T>& CV = V;
      bool acc = size_t(CV.cend() - CV.cbegin()) == M.size() && CV.cbegin() == CV.data() && CV.cdata() == V.data();
      if (!M.empty()) { size_t k = C->r.below(M.size()); acc = acc && V[k] == M[k] && CV[k] == M[k] && CV.at(k) == M[k] && V.as_span()[k] == M[k] && V.as_span().first() == M.front() && V.as_span().last() == M.back(); }
      Span<T> ms(M.data(), M.size());
      bool eq = V.as_span().equals(ms) && (V.as_span() == ms) && !(V.as_span() != ms);
      if (!M.empty()) {
        size_t k = C->r.below(M.size()); T keep = M[k]; M[k] = VT<T>::make(C->r.next() | 1u); bool differs = !(M[k] == keep);
        if (differs && (V.as_span().equals(ms) || (V.as_span() == ms) || !(V.as_span() != ms))) eq = false;
        M[k] = keep;
        if (V.as_span().equals(Span<T>(M.data(), M.size() - 1)) || V.as_span() == Span<T>(M.data(), M.size() - 1)) eq = false;
      }
      g_stats.small_api_checks++;
      if (!acc) C->viol(S("vector:element-access-mismatch:%s", op), S("%s operator[]/at()/cbegin()/cend()/cdata() disagree with the model after %s", K, op));
      if (!eq) C->viol("span:equals-wrong", S("Span::equals/==/!= on %s (size %zu) disagree with the model (equal copy, one-element near miss, shorter span)", K, M.size()));
    }
    C->sync(slot[t], V.data(), V.capacity() * sizeof(T), K, op);
  }

  void check_all(const char* when) override { for (int t = 0; t < 2 && !C->abort; t++) check(t, when, true); }
  void drop() override { for (int t = 0; t < 2; t++) { v[t].reset(); m[t].clear(); slot[t] = BufSlot(); } }
  void finish() override { if (C->r.chance(1, 2)) for (int t = 0; t < 2; t++) { v[t].release(*C->arena); m[t].clear(); check(t, "release", false); } }

  void step() override {
    Arena& A = *C->arena;
    Rng& r = C->r;
    int t = (int)r.below(2);
    ArenaVector<T>& V = v[t];
    std::vector<T>& M = m[t];
    uint64_t c = r.below(100);
    if (M.size() >= soft_cap && c < 50) c = 41 + r.below(19);   // shrink instead of growing
    const char* op = "?";
    bool fired = false;
    if (c < 25) {
      op = "append"; T x = val(); C->log(family, K, op, M.size());
      Error e; { Fault f(C->maybe_fault()); e = V.append(A, x); fired = f.fired(); }
      if (expect("vector", op, e, fired)) M.push_back(x);
    }
    else if (c < 31) {
      op = "prepend"; T x = val(); C->log(family, K, op, M.size());
      Error e; { Fault f(C->maybe_fault()); e = V.prepend(A, x); fired = f.fired(); }
      if (expect("vector", op, e, fired)) M.insert(M.begin(), x);
    }
    else if (c < 41) {
      op = "insert"; T x = val(); size_t i = r.below(M.size() + 1); if (r.chance(1, 4)) i = r.chance(1, 2) ? 0 : M.size(); C->log(family, K, op, i, M.size());
      Error e; { Fault f(C->maybe_fault()); e = V.insert(A, i, x); fired = f.fired(); }
      if (expect("vector", op, e, fired)) M.insert(M.begin() + i, x);
    }
    else if (c < 51) {
      op = "remove_at"; if (M.empty()) { op = "clear"; C->log(family, K, op); V.clear(); }
      else { size_t i = r.below(M.size()); if (r.chance(1, 4)) i = r.chance(1, 2) ? 0 : M.size() - 1; C->log(family, K, op, i, M.size()); V.remove_at(i); M.erase(M.begin() + i); }
    }
    else if (c < 55) {
      op = "pop"; if (M.empty()) return;
      C->log(family, K, op, M.size());
      T x = V.pop();
      if (!(x == M.back())) C->viol("vector:pop-wrong-value", S("%s pop() returned a value that is not the last element", K));
      M.pop_back();
    }
    else if (c < 57) { op = "clear"; C->log(family, K, op); V.clear(); M.clear(); }
    else if (c < 60) {
      op = "truncate"; size_t n = r.below(M.size() + 3); C->log(family, K, op, n, M.size());
      V.truncate(n); if (n < M.size()) M.resize(n);
    }
    else if (c < 68) {
      bool fit = c < 64; op = fit ? "resize_fit" : "resize_grow";
      size_t n = r.chance(1, 2) ? r.below(M.size() + 1) : M.size() + r.below(r.chance(1, 8) ? 600 : 20);
      C->log(family, K, op, n, M.size());
      Error e; { Fault f(C->maybe_fault()); e = fit ? V.resize_fit(A, n) : V.resize_grow(A, n); fired = f.fired(); }
      if (expect("vector", op, e, fired)) { T z; memset(&z, 0, sizeof z); M.resize(n, z); }
    }
    else if (c < 74) {
      int w = int(c - 68) / 2; op = w == 0 ? "reserve_fit" : w == 1 ? "reserve_grow" : "reserve_additional";
      size_t n = r.below(r.chance(1, 6) ? 3000 : 64);
      bool one = w == 2 && r.chance(1, 3);
      if (one) { op = "reserve_additional()"; n = 1; }
      C->log(family, K, op, n, M.size());
      Error e; { Fault f(C->maybe_fault()); e = w == 0 ? V.reserve_fit(A, n) : w == 1 ? V.reserve_grow(A, n) : one ? V.reserve_additional(A) : V.reserve_additional(A, n); fired = f.fired(); }
      if (expect("vector", op, e, fired)) {
        size_t need = w == 2 ? M.size() + n : n;
        if (V.capacity() < need) C->viol(S("vector:reserve-ok-without-capacity:%s", op), S("%s %s(%zu) returned kOk but capacity is %zu (size %zu)", K, op, n, V.capacity(), V.size()));
      }
    }
    else if (c < 75) {
      // requests no vector can satisfy (32-bit size field / arithmetic overflow): must be refused, nothing may change
      uint64_t w = r.below(6);
      static const char* names[] = { "reserve_fit(huge)", "reserve_grow(huge)", "reserve_additional(huge)", "resize_fit(huge)", "resize_grow(huge)", "reserve_additional(wrap)" };
      op = names[w];
      size_t n = r.chance(1, 3) ? size_t(0xFFFFFFFFu) + r.below(3) : r.chance(1, 2) ? SIZE_MAX - r.below(4) : (size_t(1) << (33 + r.below(30)));
      if (w == 5) n = SIZE_MAX - r.below(M.size() + 1);
      C->log(family, K, op, n, M.size());
      size_t cap0 = V.capacity();
      Error e = w == 0 ? V.reserve_fit(A, n) : w == 1 ? V.reserve_grow(A, n) : (w == 2 || w == 5) ? V.reserve_additional(A, n) : w == 3 ? V.resize_fit(A, n) : V.resize_grow(A, n);
      if (e == Error::kOk) C->viol(S("vector:impossible-request-accepted:%s", op), S("%s %s with n=%zu returned kOk (size %zu, capacity %zu -> %zu)", K, op, n, M.size(), cap0, V.capacity()));
      else g_stats.huge_rejected++;
    }
    else if (c < 78) {
      if (r.chance(1, 6)) { op = "swap(self)"; C->log(family, K, op, M.size()); V.swap(V); g_stats.self_swaps++; }
      else {
        op = "swap"; C->log(family, K, op, m[0].size(), m[1].size());
        v[0].swap(v[1]); m[0].swap(m[1]); std::swap(slot[0], slot[1]);
        check(1 - t, op, false);
      }
    }
    else if (c < 81) {
      // the source may be the vector itself (textbook: v.insert(v.end(), v.begin(), v.end()))
      bool self = r.chance(1, 4);
      const std::vector<T> src = self ? M : m[1 - t];
      op = self ? "concat(self)" : "concat"; C->log(family, K, op, M.size(), src.size());
      if (M.size() + src.size() > 3 * soft_cap + 64) return;
      Error e; { Fault f(C->maybe_fault()); e = V.concat(A, self ? V : v[1 - t]); fired = f.fired(); }
      if (expect("vector", op, e, fired)) M.insert(M.end(), src.begin(), src.end());
      if (self) g_stats.self_alias_vector++;
      check(1 - t, op, false);
    }
    else if (c < 83) { op = "release"; C->log(family, K, op, M.size()); V.release(A); M.clear(); if (V.data() || V.capacity()) C->viol("vector:release-keeps-buffer", S("%s release() left data/capacity set", K)); }
    else if (c < 87) {
      op = "index_of"; T x = M.empty() || r.chance(1, 3) ? val() : M[r.below(M.size())]; C->log(family, K, op, M.size());
      size_t want_first = SIZE_MAX, want_last = SIZE_MAX;
      for (size_t i = 0; i < M.size(); i++) if (M[i] == x) { if (want_first == SIZE_MAX) want_first = i; want_last = i; }
      size_t gf = V.index_of(x), gl = V.last_index_of(x);
      bool gc = V.contains(x);
      g_stats.compares++;
      if (gf != want_first) C->viol("vector:index_of-wrong", S("%s index_of() returned %zu, first occurrence in the model is %zu (size %zu)", K, gf, want_first, M.size()));
      if (gl != want_last) C->viol("vector:last_index_of-wrong", S("%s last_index_of() returned %zu, last occurrence in the model is %zu (first is %zu, size %zu)", K, gl, want_last, want_first, M.size()));
      if (gc != (want_first != SIZE_MAX)) C->viol("vector:contains-wrong", S("%s contains() disagrees with the model", K));
      size_t sl = V.as_span().last_index_of(x);
      if (sl != want_last) C->viol("span:last_index_of-wrong", S("Span::last_index_of() returned %zu, model says %zu", sl, want_last));
    }
    else if (c < 89) {
      op = "sort";
      if constexpr (VT<T>::sortable) { C->log(family, K, op, M.size()); V.sort(); std::sort(M.begin(), M.end()); }
      else return;
    }
    else if (c < 90) {
      if (r.chance(1, 4)) { op = "assign_unchecked(self)"; C->log(family, K, op, M.size()); V.assign_unchecked(V); g_stats.self_alias_vector++; }
      else {
        op = "assign_unchecked"; if (V.capacity() < m[1 - t].size()) return;
        C->log(family, K, op, M.size(), m[1 - t].size()); V.assign_unchecked(v[1 - t]); M = m[1 - t];
      }
    }
    else if (c < 93) {
      if (r.chance(1, 4)) {
        // concat_unchecked: the other vector, or the vector itself when it fits twice
        bool self = r.chance(1, 3);
        const std::vector<T> src = self ? M : m[1 - t];
        if (V.capacity() - V.size() < src.size()) return;
        op = self ? "concat_unchecked(self)" : "concat_unchecked"; C->log(family, K, op, M.size(), src.size());
        V.concat_unchecked(self ? V : v[1 - t]); M.insert(M.end(), src.begin(), src.end());
        if (self) g_stats.self_alias_vector++;
        g_stats.small_api_checks++;
        check(t, op, (C->nops & 7) == 0);
        return;
      }
      if (V.size() >= V.capacity()) return;
      uint64_t w = r.below(3); T x = val(); size_t i = r.below(M.size() + 1);
      op = w == 0 ? "append_unchecked" : w == 1 ? "prepend_unchecked" : "insert_unchecked"; C->log(family, K, op, i, M.size());
      if (w == 0) { V.append_unchecked(x); M.push_back(x); } else if (w == 1) { V.prepend_unchecked(x); M.insert(M.begin(), x); } else { V.insert_unchecked(i, x); M.insert(M.begin() + i, x); }
    }
    else if (c < 94) {
      op = "move"; C->log(family, K, op, M.size());
      ArenaVector<T> tmp(std::move(V));
      if (V.data() || V.size() || V.capacity()) C->viol("vector:moved-from-not-empty", S("%s moved-from vector is not reset", K));
      V.swap(tmp);
    }
    else {
      op = "append_burst"; size_t n = 1 + r.below(40); C->log(family, K, op, n, M.size());
      for (size_t i = 0; i < n; i++) {
        T x = val(); Error e; { Fault f(C->maybe_fault() && r.chance(1, 8)); e = V.append(A, x); fired = f.fired(); }
        if (expect("vector", "append", e, fired)) M.push_back(x);
      }
    }
    check(t, op, (C->nops & 7) == 0);
  }
};

// ---------------------------------------------------------------------------------------------------------
// ArenaHash  vs  unordered multimap
// ---------------------------------------------------------------------------------------------------------
struct HNode : public ArenaHashNode {
  uint32_t key; uint64_t serial;
  HNode(uint32_t h, uint32_t k, uint64_t s) : ArenaHashNode(h), key(k), serial(s) {}
};
struct HKey {
  uint32_t h, key;
  uint32_t hash_code() const { return h; }
  bool matches(const HNode* n) const { return n->key == key; }
};

// ArenaHash<NodeT>(ArenaHash&&) delegates to the deleted copy constructor (it cannot be instantiated), so the move path that
// exists is the base-class one: ArenaHashBase(ArenaHashBase&&) with its embedded-bucket fix-up.
struct HMove : public ArenaHashBase {
  explicit HMove(ArenaHashBase&& o) noexcept : ArenaHashBase(std::move(o)) {}
};

struct HashH : Harness {
  ArenaHash<HNode> tab[2];
  std::unordered_map<uint32_t, std::vector<HNode*>> m[2];
  std::unordered_set<HNode*> all[2];
  BufSlot slot[2];
  std::vector<HNode*> spare;
  int mode; uint32_t domain; size_t soft_cap; uint32_t since_walk[2] {};
  const char* K = "hash";

  HashH() {
    family = F_HASH;
    mode = (int)C->r.below(6);
    static const uint32_t doms[] = { 16, 300, 100000 };
    domain = doms[C->r.below(3)];
    static const size_t caps[] = { 10, 120, 1500 };
    soft_cap = caps[C->r.below(3)];
  }
  uint32_t hash_of(uint32_t k) const {
    switch (mode) {
      case 0: return k;
      case 1: return 0xFFFFFFFFu;                 // everything collides
      case 2: return k % 5u;                      // heavy collisions
      case 3: return k * 2654435761u;
      case 4: return 0xFFFFFFFFu - k;             // large hash codes (reciprocal-multiply edge)
      default: return (k & 7u) * 0x20000000u + (k >> 3);
    }
  }

  void walk(int t, const char* op) {
    g_stats.walks++; g_stats.compares++;
    ArenaHash<HNode>& T = tab[t];
    size_t total = 0, msize = all[t].size();
    if (T.size() != msize) C->viol(S("hash:size-mismatch:%s", op), S("size()=%zu, model holds %zu nodes after %s", T.size(), msize, op));
    if (T.is_empty() != (T.size() == 0)) C->viol("hash:is_empty-wrong", "is_empty() disagrees with size()");
    for (uint32_t i = 0; i < T._buckets_count; i++) {
      for (ArenaHashNode* n = T._data[i]; n; n = n->_hash_next) {
        if (++total > msize + 1) { C->viol(S("hash:chain-cycle-or-extra-node:%s", op), S("walking the buckets visits more nodes than were inserted (%zu) after %s", msize, op)); C->abort = true; return; }
        if (!all[t].count(static_cast<HNode*>(n))) { C->viol(S("hash:foreign-node-in-bucket:%s", op), S("bucket %u links a node that is not in the table's model after %s", i, op)); C->abort = true; return; }
        uint32_t mod = T._calc_mod(n->_hash_code);
        if (mod != i) { C->viol(S("hash:node-in-wrong-bucket:%s", op), S("node with hash %08x sits in bucket %u but lookups go to bucket %u of %u after %s", n->_hash_code, i, mod, T._buckets_count, op)); C->abort = true; return; }
      }
    }
    if (total != msize) { C->viol(S("hash:node-unreachable:%s", op), S("%zu of %zu inserted nodes are reachable from the buckets after %s", total, msize, op)); C->abort = true; return; }
    C->sync(slot[t], T._data == T._embedded ? nullptr : (void*)T._data, size_t(T._buckets_count) * sizeof(void*), "hash-buckets", op);
    since_walk[t] = 0;
  }
  void check(int t, const char* op, bool force) {
    if (force || tab[t]._buckets_count <= 2100 || ++since_walk[t] >= 24) walk(t, op);
  }
  void check_all(const char* when) override { for (int t = 0; t < 2 && !C->abort; t++) walk(t, when); }
  void drop() override { for (int t = 0; t < 2; t++) { tab[t].reset(); m[t].clear(); all[t].clear(); slot[t] = BufSlot(); } spare.clear(); }
  void finish() override { if (C->r.chance(1, 2)) for (int t = 0; t < 2; t++) { tab[t].release(*C->arena); m[t].clear(); all[t].clear(); walk(t, "release"); } }

  void forget(int t, HNode* n) {
    auto& vec = m[t][n->key];
    vec.erase(std::find(vec.begin(), vec.end(), n));
    if (vec.empty()) m[t].erase(n->key);
    all[t].erase(n);
  }
  HNode* pick(int t) {
    if (all[t].empty()) return nullptr;
    // pseudo-random pick: probe by key
    for (int i = 0; i < 4; i++) { auto it = m[t].find(uint32_t(C->r.below(domain))); if (it != m[t].end()) return it->second[C->r.below(it->second.size())]; }
    return *all[t].begin();
  }

  // move construction into a temporary that lives elsewhere, the source is destroyed (scribbled), the content comes back by swap
  void move(int t) {
    const char* op = "move"; ArenaHash<HNode>& T = tab[t];
    C->log(family, K, op, all[t].size(), T._data == T._embedded);
    g_stats.moves_hash++; if (T._data == T._embedded) g_stats.moves_hash_embedded++;
    {
      alignas(ArenaHashBase) unsigned char raw[sizeof(ArenaHash<HNode>)];
      ArenaHash<HNode>* src = new (raw) ArenaHash<HNode>();
      src->swap(T);                                   // src now owns the content; T is empty
      HMove tmp(std::move(*static_cast<ArenaHashBase*>(src)));
      memset(raw, 0xDD, sizeof raw);                  // the moved-from object is gone: nothing may still point into it
      // walk the moved-to table in place before it goes back
      size_t total = 0;
      if (tmp._size != all[t].size()) C->viol("hash:size-mismatch:move", S("moved-to table has size %zu, model holds %zu nodes", tmp._size, all[t].size()));
      for (uint32_t i = 0; i < tmp._buckets_count && total <= all[t].size(); i++) {
        if (uintptr_t(tmp._data) - uintptr_t(raw) < sizeof raw) { C->viol("hash:moved-table-points-into-source", S("after move construction _data still points into the source object (its embedded bucket); size %zu, buckets %u", all[t].size(), tmp._buckets_count)); C->abort = true; break; }
        for (ArenaHashNode* n = tmp._data[i]; n && total <= all[t].size(); n = n->_hash_next) {
          total++;
          if (!all[t].count(static_cast<HNode*>(n))) { C->viol("hash:foreign-node-in-bucket:move", "moved-to table links a node that is not in the model"); C->abort = true; break; }
        }
      }
      if (C->abort) return;
      T._swap(tmp);                                   // T was empty (embedded): exercises the fix-up of swap as well
    }
    walk(t, op);
  }

  void step() override {
    Arena& A = *C->arena; Rng& r = C->r;
    int t = (int)r.below(2);
    ArenaHash<HNode>& T = tab[t];
    uint64_t c = r.below(100);
    if (all[t].size() >= soft_cap && c < 45) c = 60 + r.below(20);
    const char* op;
    if (c < 45) {
      op = "insert";
      uint32_t k = uint32_t(r.below(domain));
      C->log(family, K, op, k, all[t].size());
      HNode* n;
      if (!spare.empty() && r.chance(1, 3)) { n = spare.back(); spare.pop_back(); n->key = k; n->_hash_code = hash_of(k); }
      else {
        bool fired; { Fault f(C->maybe_fault()); n = A.new_oneshot<HNode>(hash_of(k), k, C->next_id++); fired = f.fired(); }
        if (!n) { if (!fired && !real_failure_ok()) C->viol("arena:new_oneshot-null", "new_oneshot<HNode>() returned null without an injected failure"); return; }
        if (fired) C->viol("arena:injected-failure-not-reported:new_oneshot", "new_oneshot returned an object although the request was refused");
        if (!C->add_block(n, Arena::aligned_size_of<HNode>(), "hash-node", "new_oneshot")) return;
      }
      uint32_t buckets0 = T._buckets_count;
      HNode* ret; { Fault f(C->maybe_fault()); ret = T.insert(A, n); (void)f.fired(); }   // a refused rehash is tolerated by design: the table only degrades
      if (ret != n) C->viol("hash:insert-returns-other-node", "insert() did not return the inserted node");
      if (T._buckets_count != buckets0) g_stats.natural_rehashes++;   // coverage only: growth is a performance matter, not an ADT one
      m[t][k].push_back(n); all[t].insert(n);
      if (all[t].size() <= 2 && r.chance(1, 3)) { check(t, op, false); if (!C->abort) move(t); return; }
    }
    else if (c < 60) {
      op = "get"; uint32_t k = uint32_t(r.below(domain)); C->log(family, K, op, k);
      HNode* g = T.get(HKey{ hash_of(k), k });
      auto it = m[t].find(k);
      g_stats.compares++;
      if (it == m[t].end()) { if (g) C->viol("hash:get-finds-absent-key", S("get(%u) returned a node although the key was never inserted / was removed", k)); }
      else if (!g) C->viol("hash:get-misses-present-key", S("get(%u) returned null although %zu node(s) with that key are in the table (buckets=%u, hash=%08x)", k, it->second.size(), T._buckets_count, hash_of(k)));
      else if (std::find(it->second.begin(), it->second.end(), g) == it->second.end()) C->viol("hash:get-returns-wrong-node", S("get(%u) returned a node that is not one of the nodes inserted under that key", k));
      return;
    }
    else if (c < 80) {
      op = "remove"; HNode* n = pick(t); if (!n) return;
      C->log(family, K, op, n->key, all[t].size());
      HNode* ret = T.remove(A, n);
      if (ret != n) C->viol("hash:remove-present-fails", S("remove() of a node that is in the table returned %s", ret ? "another node" : "null"));
      forget(t, n); spare.push_back(n);
      if (T.get(HKey{ hash_of(n->key), n->key }) == n) C->viol("hash:removed-node-still-found", "get() still returns the node that was just removed");
    }
    else if (c < 84) {
      op = "remove_absent"; if (spare.empty()) return;
      HNode* n = spare[r.below(spare.size())];
      C->log(family, K, op, n->key);
      HNode* ret = T.remove(A, n);
      if (ret) C->viol("hash:remove-absent-succeeds", "remove() of a node that is not in the table returned non-null");
    }
    else if (c < 93) {
      op = "rehash"; uint32_t pi = uint32_t(r.below(r.chance(1, 12) ? 22 : 13));
      C->log(family, K, op, pi, all[t].size());
      { Fault f(C->maybe_fault()); T._rehash(A, pi); (void)f.fired(); }
      check(t, op, true);
      return;
    }
    else if (c < 95) {
      if (r.chance(1, 6)) { op = "swap(self)"; C->log(family, K, op, all[t].size()); T.swap(T); g_stats.self_swaps++; check(t, op, true); return; }
      op = "swap"; C->log(family, K, op, all[0].size(), all[1].size());
      tab[0].swap(tab[1]); m[0].swap(m[1]); all[0].swap(all[1]); std::swap(slot[0], slot[1]);
      check(1 - t, op, true); check(t, op, true);
      return;
    }
    else if (c < 97) { move(t); return; }
    else {
      op = "release"; C->log(family, K, op, all[t].size());
      for (HNode* n : all[t]) spare.push_back(n);
      T.release(A); m[t].clear(); all[t].clear();
      if (spare.size() > 4000) spare.resize(4000);
    }
    check(t, op, false);
  }
};

// ---------------------------------------------------------------------------------------------------------
// ArenaTree  vs  std::map (nodes from an ArenaPool)
// ---------------------------------------------------------------------------------------------------------
struct TNode : public ArenaTreeNodeT<TNode> {
  uint32_t key = 0; uint32_t pad = 0; uint64_t serial = 0;
  bool operator<(const TNode& o) const { return key < o.key; }
  bool operator>(const TNode& o) const { return key > o.key; }
  bool operator<(const uint32_t& k) const { return key < k; }
  bool operator>(const uint32_t& k) const { return key > k; }
};

struct TreeH : Harness {
  ArenaTree<TNode> tree[2];
  std::map<uint32_t, TNode*> m[2];
  ArenaPool<TNode> pool;
  size_t pooled = 0;
  int mode; uint32_t up = 0x40000000u, down = 0x3FFFFFFFu, domain; size_t soft_cap;
  const char* K = "tree";

  TreeH() {
    family = F_TREE;
    mode = (int)C->r.below(4);
    static const uint32_t doms[] = { 24, 500, 0xFFFFFFFFu };
    domain = doms[C->r.below(3)];
    static const size_t caps[] = { 6, 60, 600, 2500 };
    soft_cap = caps[C->r.below(4)];
  }
  uint32_t next_key() {
    int md = C->r.chance(1, 5) ? (int)C->r.below(4) : mode;
    switch (md) {
      case 0: return up++;
      case 1: return down--;
      case 2: return uint32_t(C->r.below(domain));
      default: return (C->r.chance(1, 2) ? up++ : down--);
    }
  }

  struct WalkState { size_t count; bool ok; std::map<uint32_t, TNode*>::iterator it, end; const char* why; };
  // returns black height, 0 on failure
  int walk_rec(TNode* n, int depth, WalkState& ws) {
    if (!n) return 1;
    if (depth > 200) { ws.ok = false; ws.why = "depth>200 (cycle or degenerate)"; return 0; }
    TNode* l = n->left(); TNode* rr = n->right();
    if (n->is_red() && (ArenaTreeNode::_is_valid_red(l) || ArenaTreeNode::_is_valid_red(rr))) { ws.ok = false; ws.why = "red node with a red child"; return 0; }
    int lh = walk_rec(l, depth + 1, ws); if (!ws.ok) return 0;
    if (ws.it == ws.end) { ws.ok = false; ws.why = "tree holds more nodes than the model"; return 0; }
    if (ws.it->second != n) { ws.ok = false; ws.why = ws.it->first == n->key ? "in-order walk meets a different node object than the one inserted under this key" : "in-order key sequence differs from the model (ordering broken or node lost)"; return 0; }
    ++ws.it; ws.count++;
    int rh = walk_rec(rr, depth + 1, ws); if (!ws.ok) return 0;
    if (lh != rh) { ws.ok = false; ws.why = "black heights of the two subtrees differ"; return 0; }
    return lh + (n->is_red() ? 0 : 1);
  }
  void walk(int t, const char* op) {
    g_stats.walks++; g_stats.compares++;
    WalkState ws { 0, true, m[t].begin(), m[t].end(), "" };
    TNode* root = tree[t].root();
    if (root && root->is_red()) { ws.ok = false; ws.why = "root is red"; }
    if (ws.ok) walk_rec(root, 0, ws);
    if (ws.ok && ws.it != ws.end) { ws.ok = false; ws.why = "tree holds fewer nodes than the model (node unreachable)"; }
    if (tree[t].is_empty() != m[t].empty() && ws.ok) { ws.ok = false; ws.why = "is_empty() wrong"; }
    if (!ws.ok) {
      const char* cls = strstr(ws.why, "red") ? "red-violation" : strstr(ws.why, "black") ? "black-height" : strstr(ws.why, "depth") ? "depth" : "content-or-order";
      C->viol(S("tree:%s:%s", cls, op), S("after %s with %zu keys in the model: %s", op, m[t].size(), ws.why));
      C->abort = true;
    }
  }
  void check_all(const char* when) override { for (int t = 0; t < 2 && !C->abort; t++) walk(t, when); if (pool.pooled_item_count() != pooled) C->viol("pool:pooled_item_count-wrong", "tree node pool count differs"); }
  void drop() override { for (int t = 0; t < 2; t++) { tree[t].reset(); m[t].clear(); } pool.reset(); pooled = 0; }

  void step() override {
    Arena& A = *C->arena; Rng& r = C->r;
    int t = r.chance(1, 4) ? 1 : 0;
    ArenaTree<TNode>& T = tree[t];
    auto& M = m[t];
    uint64_t c = r.below(100);
    if (M.size() >= soft_cap && c < 45) c = 45 + r.below(30);
    const char* op;
    if (c < 45) {
      op = "insert"; uint32_t k = next_key();
      C->log(family, K, op, k, M.size());
      TNode* g = T.get(k);
      bool present = M.count(k) != 0;
      g_stats.compares++;
      if ((g != nullptr) != present || (g && g != M[k])) { C->viol("tree:get-disagrees-with-model", S("get(%u) returned %s, model says the key is %s", k, g ? "a node" : "null", present ? "present" : "absent")); }
      if (present) return;
      size_t had = pooled; bool fired; TNode* n;
      { Fault f(C->maybe_fault()); n = pool.alloc(A); fired = f.fired(); }
      if (!n) { if (!fired && !real_failure_ok()) C->viol("pool:alloc-null", "ArenaPool::alloc returned null without an injected failure"); return; }
      if (had) pooled--; else if (!C->add_block(n, Arena::aligned_size(sizeof(TNode)), "tree-node", "pool.alloc")) return;
      n = new (n) TNode();
      n->key = k; n->serial = C->next_id++;
      T.insert(n);
      M[k] = n;
    }
    else if (c < 75) {
      op = "remove"; if (M.empty()) return;
      auto it = M.lower_bound(uint32_t(r.below(uint64_t(domain) + 1)));
      uint64_t w = r.below(8);
      if (w == 0) it = M.begin(); else if (w == 1) it = std::prev(M.end()); else if (w == 2) it = M.find(T.root()->key);
      if (it == M.end()) it = M.begin();
      TNode* n = it->second;
      C->log(family, K, op, n->key, M.size());
      T.remove(n);
      M.erase(it);
      if (T.get(n->key)) C->viol("tree:removed-key-still-found", S("get(%u) still finds the key that was just removed", n->key));
      pool.release(n); pooled++;
    }
    else if (c < 93) {
      op = "get"; uint32_t k;
      if (M.empty() || r.chance(1, 3)) k = next_key();
      else { auto pk = M.lower_bound(uint32_t(r.below(uint64_t(domain) + 1))); if (pk == M.end()) pk = M.begin(); k = pk->first; }
      C->log(family, K, op, k);
      TNode* g = T.get(k); auto it = M.find(k);
      g_stats.compares++;
      if (g != (it == M.end() ? nullptr : it->second)) C->viol("tree:get-disagrees-with-model", S("get(%u) returned %s, model says the key is %s", k, g ? "a node" : "null", it == M.end() ? "absent" : "present"));
      return;
    }
    else if (c < 96) {
      if (r.chance(1, 5)) { op = "swap(self)"; C->log(family, K, op, M.size()); T.swap(T); g_stats.self_swaps++; }
      else { op = "swap"; C->log(family, K, op, m[0].size(), m[1].size()); tree[0].swap(tree[1]); m[0].swap(m[1]); walk(1 - t, op); }
    }
    else if (c < 97) {
      // move construction; the source object is destroyed (scribbled) before the content comes back by swap
      op = "move"; C->log(family, K, op, M.size()); g_stats.moves_tree++;
      alignas(ArenaTree<TNode>) unsigned char raw[sizeof(ArenaTree<TNode>)];
      ArenaTree<TNode>* src = new (raw) ArenaTree<TNode>();
      src->swap(T);
      ArenaTree<TNode> tmp(std::move(*src));
      memset(raw, 0xDD, sizeof raw);
      if (!T.is_empty()) C->viol("tree:swap-leaves-content", "swap() with an empty tree left nodes behind");
      T.swap(tmp);
    }
    else {
      op = "drain"; size_t n = std::min<size_t>(M.size(), 1 + r.below(30)); C->log(family, K, op, n, M.size());
      bool asc = r.chance(1, 2);
      for (size_t i = 0; i < n && !C->abort; i++) {
        auto it = asc ? M.begin() : std::prev(M.end());
        TNode* nd = it->second; T.remove(nd); M.erase(it); pool.release(nd); pooled++;
        if ((i & 3) == 3) walk(t, op);
      }
    }
    if (!C->abort) walk(t, op);
  }
};

// ---------------------------------------------------------------------------------------------------------
// ArenaList  vs  sequence model
// ---------------------------------------------------------------------------------------------------------
struct LNode : public ArenaListNode<LNode> { uint64_t serial = 0; };

struct ListH : Harness {
  ArenaList<LNode> l[2];
  std::vector<LNode*> m[2];
  std::vector<LNode*> spare;
  size_t soft_cap;
  const char* K = "list";

  ListH() { family = F_LIST; static const size_t caps[] = { 3, 30, 400 }; soft_cap = caps[C->r.below(3)]; }

  void walk(int t, const char* op) {
    g_stats.walks++; g_stats.compares++;
    ArenaList<LNode>& L = l[t]; auto& M = m[t];
    const char* why = nullptr;
    if (L.is_empty() != M.empty()) why = "is_empty() wrong";
    else if (M.empty()) { if (L.first() || L.last()) why = "empty list has first/last"; }
    else {
      if (L.first() != M.front()) why = "first() is not the model's first node";
      else if (L.last() != M.back()) why = "last() is not the model's last node";
      else {
        LNode* n = L.first(); LNode* prev = nullptr; size_t i = 0;
        for (; n; prev = n, n = n->next(), i++) {
          if (i >= M.size()) { why = "forward walk visits more nodes than the model (stale next link)"; break; }
          if (n != M[i]) { why = "forward order differs from the model"; break; }
          if (n->prev() != prev) { why = "prev link is not symmetric to next link"; break; }
          if (n->has_prev() != (prev != nullptr) || n->has_next() != (n->next() != nullptr)) { why = "has_prev/has_next wrong"; break; }
        }
        if (!why && i != M.size()) why = "forward walk ends early (node unreachable)";
        if (!why && prev != L.last()) why = "forward walk does not end at last()";
      }
    }
    if (why) { C->viol(S("list:links-broken:%s", op), S("after %s with %zu nodes in the model: %s", op, M.size(), why)); C->abort = true; }
  }
  void check_all(const char* when) override { for (int t = 0; t < 2 && !C->abort; t++) walk(t, when); }
  void drop() override { for (int t = 0; t < 2; t++) { l[t].reset(); m[t].clear(); } spare.clear(); }

  LNode* fresh() {
    if (!spare.empty() && C->r.chance(2, 3)) { LNode* n = spare.back(); spare.pop_back(); return n; }
    bool fired; LNode* n; { Fault f(C->maybe_fault()); n = C->arena->new_oneshot<LNode>(); fired = f.fired(); }
    if (!n) { if (!fired && !real_failure_ok()) C->viol("arena:new_oneshot-null", "new_oneshot<LNode>() returned null without an injected failure"); return nullptr; }
    if (!C->add_block(n, Arena::aligned_size_of<LNode>(), "list-node", "new_oneshot")) return nullptr;
    n->serial = C->next_id++;
    return n;
  }

  void step() override {
    Rng& r = C->r;
    int t = r.chance(1, 4) ? 1 : 0;
    ArenaList<LNode>& L = l[t]; auto& M = m[t];
    uint64_t c = r.below(100);
    if (M.size() >= soft_cap && c < 55) c = 55 + r.below(35);
    const char* op;
    if (c < 55) {
      uint64_t w = M.empty() ? r.below(2) : r.below(4);
      LNode* n = fresh(); if (!n) return;
      if (w == 0) { op = "append"; C->log(family, K, op, M.size()); L.append(n); M.push_back(n); }
      else if (w == 1) { op = "prepend"; C->log(family, K, op, M.size()); L.prepend(n); M.insert(M.begin(), n); }
      else {
        size_t i = r.below(M.size()); if (r.chance(1, 3)) i = r.chance(1, 2) ? 0 : M.size() - 1;
        if (w == 2) { op = "insert_after"; C->log(family, K, op, i, M.size()); L.insert_after(M[i], n); M.insert(M.begin() + i + 1, n); }
        else { op = "insert_before"; C->log(family, K, op, i, M.size()); L.insert_before(M[i], n); M.insert(M.begin() + i, n); }
      }
    }
    else if (c < 90) {
      if (M.empty()) return;
      uint64_t w = r.below(3);
      LNode* n;
      if (w == 0) { op = "unlink"; size_t i = r.below(M.size()); if (r.chance(1, 3)) i = r.chance(1, 2) ? 0 : M.size() - 1; C->log(family, K, op, i, M.size()); n = L.unlink(M[i]); if (n != M[i]) C->viol("list:unlink-returns-other-node", "unlink() returned a different node"); M.erase(M.begin() + i); }
      else if (w == 1) { op = "pop"; C->log(family, K, op, M.size()); n = L.pop(); if (n != M.back()) C->viol("list:pop-wrong-node", "pop() did not return the last node"); n = M.back(); M.pop_back(); }
      else { op = "pop_first"; C->log(family, K, op, M.size()); n = L.pop_first(); if (n != M.front()) C->viol("list:pop_first-wrong-node", "pop_first() did not return the first node"); n = M.front(); M.erase(M.begin()); }
      spare.push_back(n);
    }
    else if (c < 94) { op = "swap"; C->log(family, K, op, m[0].size(), m[1].size()); l[0].swap(l[1]); m[0].swap(m[1]); walk(1 - t, op); }
    else if (c < 96) { op = "swap(self)"; C->log(family, K, op, M.size()); L.swap(L); g_stats.self_swaps++; }
    else {
      // move construction of the list header (source scribbled afterwards) and of a node (link fields must be carried over)
      op = "move"; C->log(family, K, op, M.size()); g_stats.moves_list++;
      alignas(ArenaList<LNode>) unsigned char raw[sizeof(ArenaList<LNode>)];
      ArenaList<LNode>* src = new (raw) ArenaList<LNode>();
      src->swap(L);
      ArenaList<LNode> tmp(std::move(*src));
      memset(raw, 0xDD, sizeof raw);
      if (!L.is_empty()) C->viol("list:swap-leaves-content", "swap() with an empty list left nodes behind");
      L.swap(tmp);
      if (!M.empty()) {
        LNode* n = M[r.below(M.size())];
        ArenaListNode<LNode> copy(std::move(*static_cast<ArenaListNode<LNode>*>(n)));
        if (copy.prev() != n->prev() || copy.next() != n->next()) C->viol("list:node-move-loses-links", "ArenaListNode move constructor did not carry prev/next over");
      }
    }
    if (!C->abort) walk(t, op);
  }
};

// ---------------------------------------------------------------------------------------------------------
// ArenaBitSet  vs  std::vector<bool>
// ---------------------------------------------------------------------------------------------------------
static size_t pick_bits(Rng& r, size_t big) {
  static const size_t edges[] = { 0, 1, 2, 31, 32, 33, 63, 64, 65, 127, 128, 129, 191, 192, 193, 255, 256, 257, 1023, 1024, 1025, 4095, 4096, 4097 };
  uint64_t c = r.below(10);
  if (c < 5) return edges[r.below(sizeof edges / sizeof edges[0])];
  if (c < 8) return r.below(300);
  return r.below(big);
}

struct BitSetH : Harness {
  ArenaBitSet bs[2];
  std::vector<bool> m[2];
  BufSlot slot[2];
  size_t big;
  const char* K = "bitset";

  BitSetH() { family = F_BITSET; big = C->r.chance(1, 4) ? 40000 : 3000; }

  void resync(int t) {
    if (bs[t].size() > bs[t].capacity()) { C->abort = true; return; }
    m[t].assign(bs[t].size(), false);
    for (size_t i = 0; i < bs[t].size(); i++) m[t][i] = bs[t].bit_at(i);
  }
  void check(int t, const char* op, bool full) {
    g_stats.compares++;
    ArenaBitSet& B = bs[t]; auto& M = m[t];
    if (B.size() != M.size()) { C->viol(S("bitset:size-mismatch:%s", op), S("size()=%zu, model has %zu bits after %s", B.size(), M.size(), op)); resync(t); }
    if (B.capacity() < B.size()) { C->viol(S("bitset:capacity-below-size:%s", op), S("capacity %zu < size %zu after %s", B.capacity(), B.size(), op)); C->abort = true; return; }
    if (B.is_empty() != M.empty()) C->viol("bitset:is_empty-wrong", "is_empty() disagrees with the model");
    for (size_t i = 0; i < M.size(); i++) {
      if (B.bit_at(i) != M[i]) {
        C->viol(S("bitset:bit-mismatch:%s", op), S("bit %zu of %zu is %d, model says %d after %s", i, M.size(), (int)B.bit_at(i), (int)M[i], op));
        resync(t); break;
      }
    }
    if (full && !C->abort) {
      ArenaBitSet::ForEachBitSet it(B);
      size_t i = 0; bool ok = true; size_t bad = 0;
      while (it.has_next()) {
        size_t idx = it.next();
        while (i < M.size() && !M[i]) i++;
        if (i >= M.size() || idx != i) { ok = false; bad = idx; break; }
        i++;
      }
      if (ok) { while (i < M.size() && !M[i]) i++; if (i < M.size()) { ok = false; bad = i; } }
      if (!ok) C->viol(S("bitset:iteration-mismatch:%s", op), S("ForEachBitSet yields/misses index %zu (size %zu): set bits differ from the model or a bit beyond size() is set, after %s", bad, M.size(), op));
      bool eq = bs[0].equals(bs[1]);
      if (eq != (m[0] == m[1]) || (bs[0] == bs[1]) != eq || (bs[0] != bs[1]) == eq)
        C->viol(S("bitset:equals-wrong:%s", op), S("equals() returned %d, models are %s (sizes %zu/%zu) after %s", (int)eq, m[0] == m[1] ? "equal" : "different", m[0].size(), m[1].size(), op));
    }
    C->sync(slot[t], B.data(), B.capacity() / 8u, "bitset-words", op);
  }
  void check_all(const char* when) override { for (int t = 0; t < 2 && !C->abort; t++) check(t, when, true); }
  void drop() override { for (int t = 0; t < 2; t++) { bs[t].reset(); m[t].clear(); slot[t] = BufSlot(); } }
  void finish() override { if (C->r.chance(1, 2)) for (int t = 0; t < 2; t++) { bs[t].release(*C->arena); m[t].clear(); check(t, "release", false); } }

  void range(size_t size, size_t& start, size_t& count) {
    Rng& r = C->r;
    auto edge = [&](size_t lim) -> size_t {
      if (lim == 0) return 0;
      uint64_t c = r.below(4);
      if (c == 0) return r.below(lim + 1);
      size_t w = r.below(lim / 64 + 1) * 64;
      int d = int(r.below(3)) - 1;
      size_t v = (d < 0 && w == 0) ? 0 : w + d;
      return std::min(v, lim);
    };
    size_t a = edge(size), b = edge(size);
    if (a > b) std::swap(a, b);
    start = a; count = b - a;
  }

  void step() override {
    Arena& A = *C->arena; Rng& r = C->r;
    int t = r.chance(1, 3) ? 1 : 0;
    ArenaBitSet& B = bs[t]; auto& M = m[t];
    ArenaBitSet& O = bs[1 - t]; auto& MO = m[1 - t];
    uint64_t c = r.below(100);
    const char* op; bool fired = false;
    if (c < 16) {
      op = "resize"; size_t n = r.chance(1, 3) ? M.size() + r.below(70) : pick_bits(r, big); bool v = r.chance(1, 2);
      C->log(family, K, v ? "resize(1)" : "resize(0)", n, M.size());
      Error e; { Fault f(C->maybe_fault()); e = B.resize(A, n, v); fired = f.fired(); }
      if (expect(K, op, e, fired)) M.resize(n, v);
      op = v ? "resize(1)" : "resize(0)";
    }
    else if (c < 30) {
      op = "append"; size_t n = 1 + (r.chance(1, 4) ? r.below(130) : 0);
      C->log(family, K, op, n, M.size());
      for (size_t i = 0; i < n; i++) {
        bool v = r.chance(1, 2); Error e; { Fault f(C->maybe_fault() && (n == 1 || r.chance(1, 16))); e = B.append(A, v); fired = f.fired(); }
        if (expect(K, op, e, fired)) M.push_back(v);
      }
    }
    else if (c < 46) {
      if (M.empty()) return;
      size_t i = r.chance(1, 2) ? r.below(M.size()) : std::min(M.size() - 1, (r.below(M.size() / 64 + 1) * 64 + r.below(3)) - (r.chance(1, 2) && M.size() > 64 ? 1 : 0));
      bool v = r.chance(1, 2); uint64_t w = r.below(4);
      if (w == 0) { op = "set_bit"; C->log(family, K, op, i, v); B.set_bit(i, v); M[i] = v; }
      else if (w == 1) { op = "add_bit"; C->log(family, K, op, i, v); B.add_bit(i, v); M[i] = M[i] | v; }
      else if (w == 2) { op = "clear_bit"; C->log(family, K, op, i); B.clear_bit(i); M[i] = false; }
      else { op = "xor_bit"; C->log(family, K, op, i, v); B.xor_bit(i, v); M[i] = M[i] ^ v; }
    }
    else if (c < 60) {
      size_t s, n; range(M.size(), s, n); bool fill = r.chance(1, 2);
      op = fill ? "fill_bits" : "clear_bits"; C->log(family, K, op, s, n);
      if (!B.data() && n == 0 && M.empty()) {}
      if (fill) B.fill_bits(s, n); else B.clear_bits(s, n);
      for (size_t i = s; i < s + n; i++) M[i] = fill;
    }
    else if (c < 64) { bool fill = r.chance(1, 2); op = fill ? "fill_all" : "clear_all"; C->log(family, K, op, M.size()); if (fill) B.fill_all(); else B.clear_all(); M.assign(M.size(), fill); }
    else if (c < 69) { op = "truncate"; size_t n = r.chance(1, 2) ? pick_bits(r, big) : r.below(M.size() + 2); C->log(family, K, op, n, M.size()); B.truncate(uint32_t(n)); if (n < M.size()) M.resize(n); }
    else if (c < 71) { op = "clear"; C->log(family, K, op, M.size()); B.clear(); M.clear(); }
    else if (c < 83) {
      uint64_t w = r.below(3);
      bool self = r.chance(1, 5);   // x &= x, x &= ~x, x |= x
      static const char* names[] = { "and_", "and_not", "or_", "and_(self)", "and_not(self)", "or_(self)" };
      op = names[w + (self ? 3 : 0)]; C->log(family, K, op, M.size(), self ? M.size() : MO.size());
      const std::vector<bool> src = self ? M : MO;
      ArenaBitSet& S2 = self ? B : O;
      if (w == 0) B.and_(S2); else if (w == 1) B.and_not(S2); else B.or_(S2);
      for (size_t i = 0; i < M.size(); i++) {
        bool o = i < src.size() ? bool(src[i]) : false;
        M[i] = w == 0 ? (M[i] && o) : w == 1 ? (M[i] && !o) : (M[i] || o);
      }
      if (self) g_stats.self_alias_bitset++;
    }
    else if (c < 89) {
      bool self = r.chance(1, 5);
      op = self ? "copy_from(self)" : "copy_from"; C->log(family, K, op, M.size(), self ? M.size() : MO.size());
      Error e; { Fault f(C->maybe_fault()); e = B.copy_from(A, self ? B : O); fired = f.fired(); }
      if (expect(K, op, e, fired) && !self) M = MO;
      if (self) { g_stats.self_alias_bitset++; if (!B.equals(B) || !(B == B) || (B != B)) C->viol("bitset:equals-wrong:self", "a bit set does not compare equal to itself"); }
    }
    else if (c < 94) {
      if (r.chance(1, 6)) { op = "swap(self)"; C->log(family, K, op, M.size()); B.swap(B); g_stats.self_swaps++; }
      else { op = "swap"; C->log(family, K, op, m[0].size(), m[1].size()); bs[0].swap(bs[1]); m[0].swap(m[1]); std::swap(slot[0], slot[1]); check(1 - t, op, false); }
    }
    else if (c < 95) {
      // sizes no bit set can have: must be refused by the overflow guard or by the allocator saying no; nothing may change.
      // (2^32 <= n < 2^44 is not attempted: the 32-bit size field has no guard of its own and the memory would be real)
      uint64_t w = r.below(4);
      size_t n = w == 0 ? SIZE_MAX - r.below(63) : w == 1 ? (size_t(1) << 63) + r.below(4096) : w == 2 ? (size_t(1) << (44 + r.below(19))) + r.below(4096) : M.size() + 1 + B.capacity() + r.below(200);
      op = w == 0 ? "resize(huge:wraps)" : w == 1 ? "resize(huge:2^63)" : w == 2 ? "resize(huge:allocator-refuses)" : "_resize(ideal=huge)";
      C->log(family, K, op, n, M.size());
      Error e; { Fault f(false); e = w == 3 ? B._resize(A, n, SIZE_MAX - r.below(63), r.chance(1, 2)) : B.resize(A, n, r.chance(1, 2)); }
      if (e == Error::kOk) { C->viol(S("bitset:impossible-request-accepted:%s", op), S("%s with n=%zu returned kOk (size %zu -> %zu, capacity %zu)", op, n, M.size(), B.size(), B.capacity())); C->abort = true; return; }
      g_stats.huge_bitset++; g_stats.huge_rejected++;
      if (w == 1 || w == 2) g_stats.malloc_refused++;
    }
    else if (c < 97) { op = "release"; C->log(family, K, op, M.size()); B.release(A); M.clear(); }
    else {
      op = "move"; C->log(family, K, op, M.size());
      ArenaBitSet tmp(std::move(B)); B.reset(); B.swap(tmp);
    }
    check(t, op, (C->nops & 3) == 0);
  }
};

// ---------------------------------------------------------------------------------------------------------
// Support::bit_vector_* primitives on arena memory (guard words on both sides)
// ---------------------------------------------------------------------------------------------------------
template<typename T>
struct BitVecHT : Harness {
  static constexpr size_t BW = Support::bit_size_of<T>;
  static constexpr T kGuard = T(0xA5C3F00DDEADBEEFull);
  T* raw[2] {}; size_t W = 0; size_t alloc_bytes[2] {};
  std::vector<bool> m[2];
  const char* K = sizeof(T) == 8 ? "bitvec" : "bitvec32";

  BitVecHT() { family = F_BITVEC; }
  T* buf(int t) { return raw[t] + 1; }
  void count() { if (sizeof(T) != sizeof(BitWord)) g_stats.bitvec32_ops++; }

  bool ensure() {
    if (raw[0] && raw[1]) return true;
    static const size_t ws[] = { 1, 2, 3, 4, 5, 8, 17, 40 };
    W = ws[C->r.below(8)];
    for (int t = 0; t < 2; t++) {
      size_t got = 0; T* p;
      { Fault f(false); p = C->arena->alloc_reusable_zeroed<T>((W + 2) * sizeof(T), Out(got)); }
      if (!p) { if (!real_failure_ok()) C->viol("arena:alloc_reusable-null", "alloc_reusable_zeroed returned null without an injected failure"); free_all(); return false; }
      if (!C->add_block(p, got, "bitvec-words", "alloc_reusable_zeroed")) { C->arena->free_reusable(p, got); free_all(); return false; }
      raw[t] = p; alloc_bytes[t] = got;
      p[0] = kGuard; p[W + 1] = kGuard;
      m[t].assign(W * BW, false);
    }
    return true;
  }
  void free_all() {
    for (int t = 0; t < 2; t++) if (raw[t]) { C->remove_block(raw[t], true); C->arena->free_reusable(raw[t], alloc_bytes[t]); raw[t] = nullptr; }
  }
  void check(int t, const char* op) {
    g_stats.compares++;
    if (!raw[t]) return;
    if (raw[t][0] != kGuard || raw[t][W + 1] != kGuard) { C->viol(S("bitvec:guard-word-overwritten:%s", op), S("%s wrote outside the %zu-word bit vector of %zu-bit words (guard %s)", op, W, BW, raw[t][0] != kGuard ? "below" : "above")); raw[t][0] = kGuard; raw[t][W + 1] = kGuard; }
    for (size_t i = 0; i < W * BW; i++) {
      bool g = Support::bit_vector_get_bit(buf(t), i);
      if (g != M(t, i)) {
        C->viol(S("bitvec:bit-mismatch:%s", op), S("bit %zu of a vector of %zu %zu-bit words is %d, model says %d after %s", i, W, BW, (int)g, (int)M(t, i), op));
        for (size_t j = 0; j < W * BW; j++) m[t][j] = Support::bit_vector_get_bit(buf(t), j);
        break;
      }
    }
  }
  bool M(int t, size_t i) { return m[t][i]; }
  void check_all(const char* when) override { check(0, when); check(1, when); }
  void drop() override { raw[0] = raw[1] = nullptr; m[0].clear(); m[1].clear(); }
  void finish() override { if (C->r.chance(1, 2)) free_all(); }

  size_t edge(size_t lim) {
    Rng& r = C->r;
    if (r.chance(1, 3)) return r.below(lim + 1);
    size_t w = r.below(lim / BW + 1) * BW; int d = int(r.below(3)) - 1;
    size_t v = (d < 0 && w == 0) ? 0 : w + d;
    return std::min(v, lim);
  }

  template<typename Op> void op_iter(const char* name, size_t start, std::function<bool(bool, bool)> fn) {
    bool spans = C->r.chance(1, 2);
    Support::BitVectorOpIterator<T, Op> it = spans ? Support::BitVectorOpIterator<T, Op>(Span<const T>(buf(0), W), Span<const T>(buf(1), W), start)
                                                   : Support::BitVectorOpIterator<T, Op>(buf(0), buf(1), W, start);
    size_t i = start; bool ok = true;
    while (it.has_next()) {
      size_t idx = it.next();
      while (i < W * BW && !fn(m[0][i], m[1][i])) i++;
      if (i >= W * BW || idx != i) { ok = false; break; }
      i++;
    }
    if (ok) { while (i < W * BW && !fn(m[0][i], m[1][i])) i++; if (i < W * BW) ok = false; }
    if (!ok) C->viol(S("bitvec:op-iterator-mismatch:%s", name), S("BitVectorOpIterator<%s> from %zu over %zu %zu-bit words disagrees with the model", name, start, W, BW));
  }

  void step() override {
    Rng& r = C->r;
    if (!ensure()) return;
    int t = (int)r.below(2);
    size_t N = W * BW;
    uint64_t c = r.below(100);
    const char* op;
    count();
    if (c < 30) {
      size_t a = edge(N), b = edge(N); if (a > b) std::swap(a, b);
      bool fill = r.chance(1, 2); op = fill ? "bit_vector_fill" : "bit_vector_clear";
      C->log(family, K, op, a, b - a);
      if (fill) Support::bit_vector_fill(buf(t), a, b - a); else Support::bit_vector_clear(buf(t), a, b - a);
      for (size_t i = a; i < b; i++) m[t][i] = fill;
    }
    else if (c < 45) {
      size_t i = std::min(N - 1, edge(N)); bool v = r.chance(1, 2); uint64_t w = r.below(3);
      if (w == 0) { op = "bit_vector_set_bit"; C->log(family, K, op, i, v); Support::bit_vector_set_bit(buf(t), i, v); m[t][i] = v; }
      else if (w == 1) { op = "bit_vector_or_bit"; C->log(family, K, op, i, v); Support::bit_vector_or_bit(buf(t), i, v); m[t][i] = m[t][i] | v; }
      else { op = "bit_vector_xor_bit"; C->log(family, K, op, i, v); Support::bit_vector_xor_bit(buf(t), i, v); m[t][i] = m[t][i] ^ v; }
    }
    else if (c < 52) {
      // BitOps::* helpers over Span<T> (what the register allocator's liveness sets use). BitOps::set_bit/clear_bit/or_bit/xor_bit
      // cannot be instantiated (they bind T& to an element of a const Span&), so only the ones that compile are driven.
      size_t i = std::min(N - 1, edge(N));
      Span<T> sp(buf(t), W);
      g_stats.bitops_calls++;
      {
        op = "BitOps::bit_at"; C->log(family, K, op, i);
        g_stats.compares++;
        if (BitOps::bit_at(sp, i) != m[t][i] || BitOps::bit_at(Span<const T>(buf(t), W), uint32_t(i)) != m[t][i]) C->viol("bitvec:BitOps::bit_at-wrong", S("BitOps::bit_at(%zu) on %zu-bit words disagrees with the model", i, BW));
        size_t nb = r.chance(1, 2) ? edge(N) : r.below(100000);
        if (BitOps::size_in_words<T>(nb) != (nb / BW) + (nb % BW ? 1 : 0) || BitOps::size_in_bits(sp) != N)
          C->viol("bitvec:BitOps::size-wrong", S("BitOps::size_in_words<%zu-bit>(%zu)=%zu / size_in_bits(span of %zu words)=%zu", BW, nb, BitOps::size_in_words<T>(nb), W, BitOps::size_in_bits(sp)));
        return;
      }
    }
    else if (c < 64) {
      // whole-span combination: dst = a OP b, where dst may be one of the sources
      uint64_t w = r.below(4);
      static const char* names[] = { "BitOps::or_", "BitOps::combine_spans<And>", "BitOps::combine_spans<Xor>", "BitOps::combine_spans<AndNot>" };
      op = names[w]; C->log(family, K, op, t, W);
      g_stats.bitops_calls++;
      Span<T> dst(buf(t), W); Span<const T> a(buf(0), W), b(buf(1), W);
      if (w == 0) BitOps::or_(dst, a, b);
      else if (w == 1) BitOps::combine_spans<Support::And>(dst, a, b);
      else if (w == 2) BitOps::combine_spans<Support::Xor>(dst, a, b);
      else BitOps::combine_spans<Support::AndNot>(dst, a, b);
      for (size_t i = 0; i < N; i++) { bool x = m[0][i], y = m[1][i]; m[t][i] = w == 0 ? (x || y) : w == 1 ? (x && y) : w == 2 ? (x != y) : (x && !y); }
    }
    else if (c < 75) {
      op = "bit_vector_index_of"; size_t start = std::min(N - 1, edge(N)); bool v = r.chance(1, 2);
      size_t want = SIZE_MAX; for (size_t i = start; i < N; i++) if (m[t][i] == v) { want = i; break; }
      if (want == SIZE_MAX) return;   // the primitive requires a match to exist
      C->log(family, K, op, start, v);
      size_t got = Support::bit_vector_index_of(buf(t), start, v);
      g_stats.compares++;
      if (got != want) C->viol("bitvec:index_of-wrong", S("bit_vector_index_of(start=%zu, value=%d) on %zu-bit words returned %zu, the model's first match is %zu", start, (int)v, BW, got, want));
      return;
    }
    else if (c < 85) {
      op = "BitVectorIterator"; size_t start = edge(N);
      C->log(family, K, op, start);
      Support::BitVectorIterator<T> it(Span<const T>(buf(t), W), start);
      size_t i = start; bool ok = true; g_stats.compares++;
      while (it.has_next()) {
        if (it.peek_next() >= N) { ok = false; break; }
        size_t idx = it.next();
        while (i < N && !m[t][i]) i++;
        if (i >= N || idx != i) { ok = false; break; }
        i++;
      }
      if (ok) { while (i < N && !m[t][i]) i++; if (i < N) ok = false; }
      if (!ok) C->viol("bitvec:iterator-mismatch", S("BitVectorIterator from %zu over %zu %zu-bit words disagrees with the model", start, W, BW));
      return;
    }
    else if (c < 88) {
      // BitWordIterator over one word
      op = "BitWordIterator"; size_t k = r.below(W);
      C->log(family, K, op, k);
      g_stats.bitword_iter++; g_stats.compares++;
      Support::BitWordIterator<T> it(buf(t)[k]);
      size_t i = 0; bool ok = true;
      while (it.has_next()) {
        uint32_t idx = it.next();
        while (i < BW && !m[t][k * BW + i]) i++;
        if (i >= BW || idx != i) { ok = false; break; }
        i++;
      }
      if (ok) { while (i < BW && !m[t][k * BW + i]) i++; if (i < BW) ok = false; }
      if (!ok) C->viol("bitvec:word-iterator-mismatch", S("BitWordIterator over a %zu-bit word disagrees with the model", BW));
      return;
    }
    else if (c < 96) {
      op = "BitVectorOpIterator"; size_t start = edge(N); uint64_t w = r.below(4);
      C->log(family, K, op, start, w); g_stats.compares++;
      if (w == 0) op_iter<Support::And>("And", start, [](bool a, bool b) { return a && b; });
      else if (w == 1) op_iter<Support::Or>("Or", start, [](bool a, bool b) { return a || b; });
      else if (w == 2) op_iter<Support::Xor>("Xor", start, [](bool a, bool b) { return a != b; });
      else op_iter<Support::AndNot>("AndNot", start, [](bool a, bool b) { return a && !b; });
      return;
    }
    else { op = "realloc"; C->log(family, K, op, W); check_all(op); free_all(); ensure(); return; }
    check(t, op);
    if (op[0] == 'B' && op[3] == 'O') check(1 - t, op);   // span helpers must leave the other vector alone
  }
};

// ---------------------------------------------------------------------------------------------------------
// ArenaPool  vs  free-list model
// ---------------------------------------------------------------------------------------------------------
struct PObj { uint64_t w[5]; };
// Element sizes that are not a multiple of Arena::kAlignment: the pool must round them up itself, otherwise every
// later allocation from the shared arena (by any container) starts misaligned.
struct PObj12 { uint32_t w[3]; };
struct PObj20 { uint32_t w[5]; };

template<typename PObj, size_t Size = sizeof(PObj)>
struct PoolHT : Harness {
  ArenaPool<PObj, Size> pool;
  std::vector<std::pair<PObj*, uint64_t>> live;
  std::set<PObj*> pooled;
  const char* K = "pool";
  size_t soft_cap;
  PoolHT() { family = F_POOL; soft_cap = C->r.chance(1, 2) ? 8 : 300; }

  void verify(const char* when) {
    g_stats.compares++;
    for (auto& o : live) { long off = stamp_check(o.first, Size, o.second); if (off >= 0) { C->viol(S("pool:live-object-corrupted:%s", when), S("a live pooled object changed at byte %ld", off)); stamp_fill(o.first, Size, o.second); } }
    if (pool.pooled_item_count() != pooled.size()) C->viol(S("pool:pooled_item_count-wrong:%s", when), S("pooled_item_count()=%zu, model has %zu released objects", pool.pooled_item_count(), pooled.size()));
  }
  void check_all(const char* when) override { verify(when); }
  void drop() override { pool.reset(); live.clear(); pooled.clear(); }

  void step() override {
    Rng& r = C->r;
    uint64_t c = r.below(100);
    if (live.size() >= soft_cap && c < 55) c = 60;
    if (c < 55 || live.empty()) {
      C->log(family, K, "alloc", live.size(), pooled.size());
      bool fired; PObj* p; { Fault f(C->maybe_fault()); p = pool.alloc(*C->arena); fired = f.fired(); }
      if (!p) { if (!pooled.empty() || (!fired && !real_failure_ok())) C->viol("pool:alloc-null", "ArenaPool::alloc returned null although no failure was injected / released objects were available"); return; }
      if (!pooled.empty()) {
        if (!pooled.count(p)) { C->viol("pool:alloc-ignores-released", "alloc() returned memory that is not one of the released objects although some were pooled"); if (!C->add_block(p, Arena::aligned_size(Size), "pool-object", "pool.alloc")) return; }
        else pooled.erase(p);
      }
      else if (!C->add_block(p, Arena::aligned_size(Size), "pool-object", "pool.alloc")) return;
      for (auto& o : live) if (o.first == p) { C->viol("pool:alloc-returns-live-object", "alloc() returned an object that is still live"); C->abort = true; return; }
      uint64_t id = C->next_id++;
      stamp_fill(p, Size, id);
      live.push_back({ p, id });
    }
    else {
      size_t i = r.below(live.size()); if (r.chance(1, 3)) i = live.size() - 1;
      C->log(family, K, "release", i, live.size());
      long off = stamp_check(live[i].first, Size, live[i].second);
      if (off >= 0) C->viol("pool:live-object-corrupted:release", S("a live pooled object changed at byte %ld", off));
      pool.release(live[i].first);
      pooled.insert(live[i].first);
      live.erase(live.begin() + i);
    }
    if ((C->nops & 7) == 0) verify("step");
  }
};

// ---------------------------------------------------------------------------------------------------------
// ArenaString<N>  vs  std::string
// ---------------------------------------------------------------------------------------------------------
static std::string rand_text(Rng& r, size_t n, bool allow_nul) {
  std::string s(n, ' ');
  for (size_t i = 0; i < n; i++) { uint64_t c = r.below(allow_nul ? 97 : 95); s[i] = c >= 95 ? (c == 95 ? '\0' : char(0xE9)) : char(32 + c); }
  return s;
}

template<size_t N>
struct AStr1 {
  ArenaString<N> s; std::string m; BufSlot slot;
  static constexpr uint32_t kMax = ArenaString<N>::kMaxEmbeddedSize;
  void check(const char* op) {
    g_stats.compares++;
    if (s.size() != m.size() || s.is_empty() != m.empty()) { C->viol(S("arenastring:size-mismatch:%s", op), S("ArenaString<%zu> size()=%u, model %zu after %s", N, s.size(), m.size(), op)); return; }
    if (s.is_embedded() != (m.size() <= kMax)) C->viol("arenastring:is_embedded-wrong", S("ArenaString<%zu> is_embedded()=%d at size %zu (max embedded %u)", N, (int)s.is_embedded(), m.size(), kMax));
    const char* d = s.data();
    if (!d) { C->viol(S("arenastring:null-data:%s", op), "data() is null"); return; }
    if (m.size() && memcmp(d, m.data(), m.size()) != 0) C->viol(S("arenastring:content-mismatch:%s", op), S("ArenaString<%zu> content differs from the model (size %zu) after %s", N, m.size(), op));
    if (d[m.size()] != '\0') C->viol(S("arenastring:not-null-terminated:%s", op), S("ArenaString<%zu> data()[size()] != 0 at size %zu after %s", N, m.size(), op));
    C->sync(slot, s.is_embedded() ? nullptr : d, Support::align_up<size_t>(m.size() + 1, 8), "arenastring-data", op);
  }
  void step() {
    Rng& r = C->r;
    static const int deltas[] = { -2, -1, 0, 1, 2 };
    size_t n;
    uint64_t c = r.below(10);
    if (c < 5) { long v = long(kMax) + deltas[r.below(5)]; n = v < 0 ? 0 : size_t(v); }
    else if (c < 7) n = r.below(kMax + 1);
    else if (c < 9) n = r.below(300);
    else n = r.chance(1, 2) ? 0 : 1000 + r.below(3000);
    bool use_strlen = r.chance(1, 3);
    std::string txt = rand_text(r, n, !use_strlen);
    const char* op = use_strlen ? "set_data(strlen)" : "set_data";
    C->log(F_ASTRING, "arenastring", op, N, n);
    bool fired; Error e; { Fault f(C->maybe_fault()); e = s.set_data(*C->arena, txt.c_str(), use_strlen ? SIZE_MAX : n); fired = f.fired(); }
    if (expect("arenastring", op, e, fired)) m = txt;
    check(op);
  }
  void drop() { s.reset(); m.clear(); slot = BufSlot(); }
};

struct AStrH : Harness {
  AStr1<16> a; AStr1<32> b; AStr1<64> c; AStr1<8> d;
  AStrH() { family = F_ASTRING; }
  void step() override { switch (C->r.below(4)) { case 0: a.step(); break; case 1: b.step(); break; case 2: c.step(); break; default: d.step(); } }
  void check_all(const char* when) override { a.check(when); b.check(when); c.check(when); d.check(when); }
  void drop() override { a.drop(); b.drop(); c.drop(); d.drop(); }
};

// ---------------------------------------------------------------------------------------------------------
// String / StringTmp  vs  std::string
// ---------------------------------------------------------------------------------------------------------
static std::string model_number(uint64_t i, uint32_t base, size_t width, uint32_t flags, bool is_signed) {
  if (base == 0) base = 10;
  std::string sign;
  if (is_signed && int64_t(i) < 0) { i = uint64_t(0) - i; sign = "-"; }
  else if (flags & 1u) sign = "+";
  else if (flags & 2u) sign = " ";
  std::string digits;
  uint64_t v = i;
  do { digits.insert(digits.begin(), "0123456789ABCDEF"[v % base]); v /= base; } while (v);
  std::string prefix;
  if (flags & 4u) { if (base == 8 && i != 0) prefix = "0"; if (base == 16) prefix = "0x"; }
  if (width > 256) width = 256;
  std::string zeros(width > digits.size() ? width - digits.size() : 0, '0');
  return sign + prefix + zeros + digits;
}

static size_t pick_len(Rng& r) {
  static const size_t edges[] = { 0, 1, 2, 29, 30, 31, 32, 33, 47, 48, 63, 64, 65, 95, 96, 97, 127, 128, 129, 255, 256, 257, 511, 512, 513, 1022, 1023, 1024, 1025, 2047, 2048, 2049, 4095, 4096, 4097 };
  uint64_t c = r.below(10);
  if (c < 4) return edges[r.below(sizeof edges / sizeof edges[0])];
  if (c < 8) return r.below(70);
  return r.below(3000);
}

struct StrH : Harness {
  String s0, s1;
  StringTmp<40> t0;
  StringTmp<130> t1;
  String* s[4];
  std::string m[4];
  const char* K = "string";

  StrH() { family = F_STRING; s[0] = &s0; s[1] = &s1; s[2] = &t0; s[3] = &t1; }

  bool zero_assign = false, exact_fit = false;
  static std::string opclass(const char* op) {
    std::string o = op;
    size_t self = o.find("(self");
    if (self != std::string::npos) { o[self] = '-'; o.erase(std::remove(o.begin(), o.end(), ')'), o.end()); return o; }   // "append(self)" -> "append-self"
    size_t par = o.find('('); if (par != std::string::npos) o.resize(par);
    if (o.rfind("assign_", 0) == 0 || o.rfind("append_", 0) == 0) o = o.substr(7);
    return o;
  }
  void check(int t, const char* op) {
    g_stats.compares++;
    String& X = *s[t]; std::string& M = m[t];
    const char* d = X.data();
    bool bad = false;
    const char* st = X.is_large_or_external() ? "large/external" : "small";
    std::string oc = opclass(op);
    if (X.capacity() < X.size()) { C->viol(S("string:%s:capacity-below-size", oc.c_str()), S("capacity %zu < size %zu after %s", X.capacity(), X.size(), op)); C->abort = true; return; }
    if (zero_assign && X.size() != M.size()) {
      C->viol("string:assign-zero-length:keeps-old-content", S("%s of zero characters left the previous content (%zu bytes) in place; a string assignment of nothing must yield the empty string", op, X.size()));
      bad = true;
    }
    else if (exact_fit && X.size() == M.size() && M.size() && (memcmp(d, M.data(), M.size()) != 0 || d[X.size()] != 0)) {
      C->viol("string:format-exact-fit:last-char-lost", S("%s whose output exactly fills the remaining capacity (size %zu == capacity %zu): last byte is 0x%02x (model 0x%02x) and data()[size()] is 0x%02x", op, X.size(), X.capacity(), (unsigned char)d[M.size() - 1], (unsigned char)M[M.size() - 1], (unsigned char)d[X.size()]));
      bad = true;
    }
    else if (X.size() != M.size()) { C->viol(S("string:%s:size-mismatch", oc.c_str()), S("size()=%zu, model %zu after %s (capacity %zu, %s)", X.size(), M.size(), op, X.capacity(), st)); bad = true; }
    else if (M.size() && memcmp(d, M.data(), M.size()) != 0) {
      size_t i = 0; while (d[i] == M[i]) i++;
      C->viol(S("string:%s:content-mismatch", oc.c_str()), S("byte %zu of %zu is 0x%02x, model says 0x%02x after %s (capacity %zu, %s)", i, M.size(), (unsigned char)d[i], (unsigned char)M[i], op, X.capacity(), st));
      bad = true;
    }
    else if (d[X.size()] != '\0') { C->viol(S("string:%s:not-null-terminated", oc.c_str()), S("data()[size()] is 0x%02x at size %zu after %s (capacity %zu, %s)", (unsigned char)d[X.size()], X.size(), op, X.capacity(), st)); bad = true; }
    if (X.is_empty() != (X.size() == 0)) C->viol("string:is_empty-wrong", "is_empty() disagrees with size()");
    { const String& CX = X;
      if (X.begin() != d || size_t(X.end() - X.begin()) != X.size() || CX.begin() != d || CX.end() != d + X.size() || X.as_span().data() != d || X.as_span().size() != X.size() || CX.as_span().data() != d || CX.as_span().size() != X.size())
        C->viol("string:begin-end-span-wrong", S("begin()/end()/as_span() disagree with data()/size() after %s", op)); }
    if (bad) { X.data()[X.size()] = '\0'; M.assign(X.data(), X.size()); }
    zero_assign = exact_fit = false;
  }
  void check_all(const char* when) override { for (int t = 0; t < 4 && !C->abort; t++) check(t, when); }
  void drop() override {}   // String is heap-backed: it must survive arena resets untouched

  static bool ok(const char* op, Error e) {
    if (e != Error::kOk) { C->viol(S("string:%s:unexpected-error", opclass(op).c_str()), S("%s failed with error %u", op, (unsigned)e)); return false; }
    return true;
  }

  void step() override {
    Rng& r = C->r;
    int t = (int)r.below(4); if (r.chance(1, 2)) t = (int)r.below(2);
    String& X = *s[t]; std::string& M = m[t];
    bool app = r.chance(3, 5);
    String::ModifyOp mop = app ? String::ModifyOp::kAppend : String::ModifyOp::kAssign;
    if (M.size() > 20000) { C->log(family, K, "reset", M.size()); X.reset(); M.clear(); check(t, "reset"); return; }
    bool was_small = !X.is_large_or_external();
    uint64_t c = r.below(100);
    const char* op;
    zero_assign = exact_fit = false;
    // target length helper: choose the piece so that the total hits an interesting length
    auto piece_len = [&]() -> size_t {
      size_t want = pick_len(r);
      if (!app) return want;
      if (r.chance(1, 3)) { size_t cap = X.capacity(); long d = long(r.below(5)) - 2; long v = long(cap) + d - long(M.size()); if (v > 0) return size_t(v); }
      return want > M.size() ? want - M.size() : r.below(40);
    };
    if (c < 14) {
      size_t n = piece_len(); std::string txt = rand_text(r, n, true);
      if (app && r.chance(1, 3)) { op = "append(span)"; C->log(family, K, op, n, M.size()); g_stats.small_api_checks++; if (ok(op, X.append(Span<const char>(txt.data(), n)))) M.append(txt); }
      else if (app) { op = "append(data,size)"; C->log(family, K, op, n, M.size()); if (ok(op, X.append(txt.data(), n))) M.append(txt); }
      else if (r.chance(1, 2)) { op = "assign(data,size)"; C->log(family, K, op, n, M.size()); if (ok(op, X.assign(txt.data(), n))) M = txt; }
      else { op = "assign(span)"; zero_assign = n == 0; C->log(family, K, op, n, M.size()); if (ok(op, X.assign(Span<const char>(txt.data(), n)))) M = txt; }
    }
    else if (c < 22) {
      size_t n = piece_len(); std::string txt = rand_text(r, n, false);
      if (app) { op = "append(cstr)"; C->log(family, K, op, n, M.size()); if (ok(op, X.append(txt.c_str()))) M.append(txt); }
      else { op = "assign(cstr)"; C->log(family, K, op, n, M.size()); if (ok(op, r.chance(1, 12) ? (txt.clear(), X.assign((const char*)nullptr)) : X.assign(txt.c_str()))) M = txt; }
    }
    else if (c < 28) {
      char ch = char(33 + r.below(90));
      if (app) { op = "append(char)"; C->log(family, K, op, ch, M.size()); if (ok(op, X.append(ch))) M.push_back(ch); }
      else { op = "assign(char)"; C->log(family, K, op, ch, M.size()); if (ok(op, X.assign(ch))) M.assign(1, ch); }
    }
    else if (c < 36) {
      size_t n = piece_len(); char ch = char(33 + r.below(90));
      if (app) { op = "append_chars"; C->log(family, K, op, n, M.size()); if (ok(op, X.append_chars(ch, n))) M.append(n, ch); }
      else { op = "assign_chars"; zero_assign = n == 0; C->log(family, K, op, n, M.size()); if (ok(op, X.assign_chars(ch, n))) M.assign(n, ch); }
    }
    else if (c < 50) {
      static const uint32_t bases[] = { 0, 2, 8, 10, 16 };
      uint32_t base = bases[r.below(5)];
      static const uint64_t vals[] = { 0, 1, 7, 8, 9, 10, 15, 16, 255, 256, 0x7FFFFFFFu, 0x80000000u, 0xFFFFFFFFu, 0x7FFFFFFFFFFFFFFFull, 0x8000000000000000ull, 0xFFFFFFFFFFFFFFFFull };
      uint64_t v = r.chance(1, 2) ? vals[r.below(16)] : (r.next() >> r.below(64));
      size_t width = r.chance(1, 2) ? 0 : r.chance(1, 6) ? 250 + r.below(20) : r.below(70);
      uint32_t fl = uint32_t(r.below(8));
      bool sg = r.chance(1, 2);
      std::string want = model_number(v, base, width, fl, sg);
      StringFormatFlags ff = StringFormatFlags(fl);
      Error e;
      if (app) { op = sg ? "append_int" : "append_uint"; C->log(family, K, op, v, (uint64_t(base) << 32) | (uint64_t(fl) << 16) | width); e = sg ? X.append_int(int64_t(v), base, width, ff) : X.append_uint(v, base, width, ff); if (ok(op, e)) M.append(want); }
      else { op = sg ? "assign_int" : "assign_uint"; C->log(family, K, op, v, (uint64_t(base) << 32) | (uint64_t(fl) << 16) | width); e = sg ? X.assign_int(int64_t(v), base, width, ff) : X.assign_uint(v, base, width, ff); if (ok(op, e)) M = want; }
    }
    else if (c < 52) {
      static const uint32_t badb[] = { 1, 3, 7, 12, 32, 36, 255 };
      uint32_t base = badb[r.below(7)];
      op = "append_uint(bad-base)"; C->log(family, K, op, base, M.size());
      Error e = app ? X.append_uint(r.next(), base) : X.assign_uint(r.next(), base);
      if (e == Error::kOk) { C->viol("string:unsupported-base-accepted", S("formatting with base %u returned kOk", base)); M.assign(X.data(), X.size()); }
    }
    else if (c < 60) {
      size_t n = r.chance(1, 2) ? r.below(12) : r.chance(1, 2) ? piece_len() / 3 : piece_len() / 2;
      char sep = r.chance(1, 2) ? '\0' : ":- |"[r.below(4)];
      std::string bytes = rand_text(r, n, true);
      std::string want;
      for (size_t i = 0; i < n; i++) { char b[4]; snprintf(b, sizeof b, "%02X", (unsigned char)bytes[i]); want += b; if (sep && i + 1 < n) want += sep; }
      if (app) { op = sep ? "append_hex(sep)" : "append_hex"; C->log(family, K, op, n, M.size()); if (ok(op, X.append_hex(bytes.data(), n, sep))) M.append(want); }
      else { op = sep ? "assign_hex(sep)" : "assign_hex"; zero_assign = n == 0; C->log(family, K, op, n, M.size()); if (ok(op, X.assign_hex(bytes.data(), n, sep))) M = want; }
    }
    else if (c < 74) {
      // printf-style formatting; output length steered relative to the remaining capacity and the internal 1024-byte buffer
      size_t start_at = app ? M.size() : 0;
      size_t rem = X.capacity() - start_at;
      size_t out;
      uint64_t w = r.below(10);
      if (w < 4 && rem >= 128) { out = rem + r.below(5) - 2; if (out == rem) { g_stats.fmt_exact_fit++; exact_fit = true; } }
      else if (w < 6) out = 1020 + r.below(10);
      else if (w < 9) out = r.below(200);
      else out = r.below(5000);
      if (r.chance(1, 16)) {
        // a conversion that fails inside vsnprintf (wide character without a multibyte form in the "C" locale): must come back as an
        // error; an append keeps what was there, an assign may leave the old content or nothing; the string stays terminated
        static const wchar_t wbad[] = { wchar_t('o'), wchar_t('k'), wchar_t(0x20AC), 0 };
        std::string pre = rand_text(r, r.chance(1, 2) ? r.below(40) : out % 1500, false); for (char& ch : pre) if (ch == '%') ch = '_';
        std::string fmt = pre + "%ls";
        op = app ? "append_format(%ls:invalid)" : "assign_format(%ls:invalid)"; C->log(family, K, op, pre.size(), rem);
        Error e = app ? X.append_format(fmt.c_str(), wbad) : X.assign_format(fmt.c_str(), wbad);
        g_stats.small_api_checks++;
        if (e == Error::kOk) C->viol("string:format:conversion-failure-not-reported", S("%s returned kOk although vsnprintf cannot convert the argument", op));
        bool wellformed = X.size() <= X.capacity() && X.data()[X.size()] == '\0';
        bool kept = X.size() == M.size() && memcmp(X.data(), M.data(), M.size()) == 0;
        if (!wellformed) { C->viol("string:format:not-null-terminated", S("after a failed %s the string is not terminated at size %zu (capacity %zu)", op, X.size(), X.capacity())); C->abort = true; return; }
        if (e != Error::kOk && app && !kept) C->viol("string:format:failed-append-changes-content", S("a failed %s changed the string (size %zu -> %zu)", op, M.size(), X.size()));
        if (e != Error::kOk && !app && !kept && X.size() != 0) C->viol("string:format:failed-assign-leaves-partial-content", S("a failed %s left %zu bytes that are neither the old content nor nothing", op, X.size()));
        M.assign(X.data(), X.size());
        check(t, op);
        return;
      }
      uint64_t shape = r.below(4);
      char tmp[64];
      std::string want; Error e;
      const char* opn;
      if (shape == 0) {
        std::string txt = rand_text(r, out, false);
        opn = app ? "append_format(%s)" : "assign_format(%s)"; C->log(family, K, opn, out, rem);
        e = app ? X.append_format("%s", txt.c_str()) : X.assign_format("%s", txt.c_str());
        want = txt;
      }
      else if (shape == 1) {
        int iv = int(r.next()); snprintf(tmp, sizeof tmp, "[%d|", iv);
        size_t fix = strlen(tmp) + 1; std::string txt = rand_text(r, out > fix ? out - fix : 0, false);
        opn = app ? "append_format([%d|%s])" : "assign_format([%d|%s])"; C->log(family, K, opn, out, rem);
        e = app ? X.append_format("[%d|%s]", iv, txt.c_str()) : X.assign_format("[%d|%s]", iv, txt.c_str());
        want = std::string(tmp) + txt + "]";
      }
      else if (shape == 2) {
        int wd = int(out);
        opn = app ? "append_format(%*s)" : "assign_format(%*s)"; C->log(family, K, opn, out, rem);
        e = app ? X.append_format("%*s", wd, "ab") : X.assign_format("%*s", wd, "ab");
        want = wd > 2 ? std::string(size_t(wd - 2), ' ') + "ab" : std::string("ab");
      }
      else {
        unsigned long long hv = r.next(); unsigned uv = unsigned(r.below(100000)); char cv = char(40 + r.below(50));
        snprintf(tmp, sizeof tmp, "%08llX-%c-%5u/", hv, cv, uv);
        size_t fix = strlen(tmp); std::string txt = rand_text(r, out > fix ? out - fix : 0, false);
        opn = app ? "append_format(%08llX-%c-%5u/%s)" : "assign_format(%08llX-%c-%5u/%s)"; C->log(family, K, opn, out, rem);
        e = app ? X.append_format("%08llX-%c-%5u/%s", hv, cv, uv, txt.c_str()) : X.assign_format("%08llX-%c-%5u/%s", hv, cv, uv, txt.c_str());
        want = std::string(tmp) + txt;
      }
      op = opn;
      exact_fit = rem >= 128 && want.size() == rem;
      if (!app && want.empty()) zero_assign = true;
      if (ok(op, e)) { if (app) M.append(want); else M = want; }
    }
    else if (c < 79) {
      size_t n = r.chance(1, 2) ? M.size() + r.below(40) : pick_len(r); char ch = char(33 + r.below(90));
      op = "pad_end"; C->log(family, K, op, n, M.size());
      if (ok(op, X.pad_end(n, ch)) && n > M.size()) M.append(n - M.size(), ch);
    }
    else if (c < 85) {
      size_t n = r.chance(1, 2) ? r.below(M.size() + 3) : pick_len(r);
      op = "truncate"; C->log(family, K, op, n, M.size());
      if (ok(op, X.truncate(n)) && n < M.size()) M.resize(n);
    }
    else if (c < 87) { op = "clear"; C->log(family, K, op, M.size()); X.clear(); M.clear(); }
    else if (c < 88) { op = "reset"; C->log(family, K, op, M.size()); X.reset(); M.clear(); }
    else if (c < 90) {
      if (r.chance(1, 5)) { op = "swap(self)"; C->log(family, K, op, M.size()); X.swap(X); g_stats.self_swaps++; check(t, op); return; }
      op = "swap"; C->log(family, K, op, m[0].size(), m[1].size());
      s0.swap(s1); m[0].swap(m[1]); check(0, op); check(1, op); return;
    }
    else if (c < 92) {
      op = "move"; if (t >= 2) return; C->log(family, K, op, M.size());
      String tmp(std::move(X));
      if (X.size() != 0 || X.is_large_or_external()) C->viol("string:moved-from-not-empty", "moved-from String is not reset");
      X = std::move(tmp);
    }
    else if (c < 94) {
      int o = r.chance(1, 3) ? t : (int)r.below(4);
      if (o != t) {
        if (app) { op = "append(String)"; C->log(family, K, op, M.size(), m[o].size()); if (ok(op, X.append(*s[o]))) M.append(m[o]); }
        else { op = "assign(String)"; C->log(family, K, op, M.size(), m[o].size()); if (ok(op, X.assign(*s[o]))) M = m[o]; }
      }
      else {
        // the argument is the string itself (textbook: s += s, s = s, s = s.substr(k, n)). The call runs in a forked copy first:
        // a sanitizer abort there costs one child, is reported once and the operation is skipped here.
        uint64_t w = app ? 0 : 1 + r.below(2);
        size_t k = 0, n = M.size();
        if (w == 2) { k = r.below(M.size() + 1); n = r.below(M.size() - k + 1); if (r.chance(1, 3)) n = M.size() - k; }
        op = w == 0 ? "append(self)" : w == 1 ? "assign(self)" : "assign(self-substring)";
        C->log(family, K, op, k, n);
        bool grows = w == 0 && M.size() * 2 > X.capacity();
        auto call = [&]() -> Error { return w == 0 ? X.append(X) : w == 1 ? X.assign(X) : X.assign(X.data() + k, n); };
        std::string rep, why = probe_in_child([&]() { (void)call(); }, &rep);
        g_stats.self_alias_string++; if (grows) g_stats.self_alias_string_grow++;
        if (!why.empty()) {
          C->viol(S("string:%s:%s", opclass(op).c_str(), why.c_str()), S("%s on a %s string of %zu bytes (capacity %zu%s) stopped with a sanitizer report: %s", op, X.is_large_or_external() ? (X.is_external() ? "external" : "large") : "small", M.size(), X.capacity(), grows ? ", has to grow" : "", rep.c_str()));
          return;
        }
        if (ok(op, call())) { if (w == 0) M.append(std::string(M)); else if (w == 2) M = M.substr(k, n); }
      }
    }
    else if (c < 96) {
      // equality queries with near misses
      op = "equals"; C->log(family, K, op, M.size());
      std::string other = M;
      uint64_t w = r.below(4);
      if (w == 1 && !other.empty()) other[r.below(other.size())] ^= 1; else if (w == 2) other.push_back('x'); else if (w == 3 && !other.empty()) other.pop_back();
      bool want = other == M;
      g_stats.compares++;
      if (X.equals(other.data(), other.size()) != want) C->viol("string:equals-wrong", S("equals(data,size) returned %d for a candidate that %s", (int)!want, want ? "is equal" : "differs"));
      if (M.find('\0') == std::string::npos && other.find('\0') == std::string::npos) {
        if (X.equals(other.c_str()) != want || (X == other.c_str()) != want || (X != other.c_str()) == want) C->viol("string:equals-wrong", S("equals(cstr) returned %d for a candidate that %s (sizes %zu/%zu)", (int)!want, want ? "is equal" : "differs", M.size(), other.size()));
      }
      int o = (int)r.below(4);
      if (X.equals(*s[o]) != (M == m[o])) C->viol("string:equals-wrong", "equals(String) disagrees with the models");
      return;
    }
    else if (c < 98) {
      // impossible sizes: must be refused (overflow guards), nothing may change
      // three classes: arithmetic would wrap (guards), half the address space, and sizes the allocator itself refuses (> 2^41 bytes:
      // the real malloc-returns-null path; nothing is ever read from `data` before the refusal)
      uint64_t cls = r.below(4);
      size_t n = cls == 0 ? SIZE_MAX - 1 - r.below(40) : cls == 1 ? SIZE_MAX - Globals::kGrowThreshold - r.below(3) + 1 : cls == 2 ? (size_t(1) << 63) + r.below(4096) : (size_t(1) << (41 + r.below(21))) + r.below(4096);
      uint64_t w = r.below(8);
      static const char dummy[8] = { 'd', 'u', 'm', 'm', 'y', 0, 0, 0 };
      char sep = r.chance(1, 2) ? '\0' : ':';
      if (w == 5) {
        uint64_t h = r.below(4);
        if (h == 0) { n = SIZE_MAX / 2 + r.below(40) - 20; sep = '\0'; } else if (h == 1) { n = SIZE_MAX / 3 + r.below(40) - 20; sep = ':'; }
      }
      static const char* names[] = { "append_chars(huge)", "assign_chars(huge)", "prepare(huge)", "assign(data,huge)", "append(data,huge)", "hex(huge)", "pad_end(huge)", "assign(span,huge)" };
      op = names[w]; C->log(family, K, op, n, M.size());
      bool accepted;
      if (w == 0) accepted = X.append_chars('x', n) == Error::kOk;
      else if (w == 1) accepted = X.assign_chars('x', n) == Error::kOk;
      else if (w == 2) accepted = X.prepare(mop, n) != nullptr;
      else if (w == 3) accepted = X.assign(dummy, n) == Error::kOk;
      else if (w == 4) accepted = X.append(dummy, n) == Error::kOk;
      else if (w == 5) accepted = (app ? X.append_hex(dummy, n, sep) : X.assign_hex(dummy, n, sep)) == Error::kOk;
      else if (w == 6) accepted = X.pad_end(n, '.') == Error::kOk;
      else accepted = X.assign(Span<const char>(dummy, n)) == Error::kOk;
      if (accepted) { C->viol(S("string:%s:impossible-request-accepted", opclass(op).c_str()), S("%s with n=%zu succeeded", op, n)); C->abort = true; return; }
      g_stats.huge_rejected++; g_stats.huge_string++;
      if (cls >= 2 && !(w == 5 && n > SIZE_MAX / 4)) g_stats.malloc_refused++;
    }
    else {
      size_t n = piece_len() % 600; char ch = char(33 + r.below(90));
      op = app ? "prepare(append)" : "prepare(assign)"; C->log(family, K, op, n, M.size());
      char* p = X.prepare(mop, n);
      if (!p) { C->viol("string:prepare-null", "prepare() returned null for a small request"); return; }
      memset(p, ch, n);
      if (app) M.append(n, ch); else M.assign(n, ch);
    }
    if (was_small && X.is_large_or_external()) g_stats.sso_to_heap++;
    check(t, op);
  }
};

// ---------------------------------------------------------------------------------------------------------
// Raw arena blocks: alloc_oneshot / alloc_reusable / free_reusable / dup / sformat
// ---------------------------------------------------------------------------------------------------------
struct RawBlk { uint8_t* p; size_t req; size_t got; bool reusable; uint64_t id; };

struct RawH : Harness {
  std::vector<RawBlk> blocks;
  size_t oneshot_bytes = 0, soft_cap;
  const char* K = "raw";
  RawH() { family = F_RAW; soft_cap = C->r.chance(1, 2) ? 20 : 400; }

  static size_t pick_size(Rng& r) {
    static const size_t edges[] = { 1, 8, 15, 16, 17, 24, 31, 32, 33, 48, 63, 64, 65, 96, 127, 128, 129, 255, 256, 257, 511, 512, 513, 1023, 1024, 1025, 2040, 2047, 2048, 2049, 2056, 3000, 4096, 8192, 70000 };
    uint64_t c = r.below(10);
    if (c < 6) return edges[r.below(sizeof edges / sizeof edges[0])];
    if (c < 9) return 1 + r.below(300);
    return 1 + r.below(20000);
  }
  void verify(const RawBlk& b, const char* when, bool full = true) {
    long off;
    if (full || b.got <= 1024) off = stamp_check(b.p, b.got, b.id);
    else {
      // head and tail of big blocks (neighbours overrun into those); the whole block is verified on free / at the end
      off = stamp_check(b.p, 256, b.id);
      if (off < 0) { uint64_t id = b.id; const uint8_t* q = b.p; for (size_t i = b.got - 256; i < b.got; i++) if (q[i] != stamp_byte(id, i)) { off = (long)i; break; } }
    }
    if (off >= 0) {
      C->viol(S("arena:live-block-contents-changed:%s", when), S("live %s block of %zu bytes (requested %zu) changed at offset %ld (%s)", b.reusable ? "reusable" : "oneshot", b.got, b.req, off, when));
      stamp_fill(b.p, b.got, b.id);
    }
  }
  void check_all(const char* when) override { g_stats.compares++; bool full = strcmp(when, "periodic") != 0; for (auto& b : blocks) verify(b, when, full); }
  void drop() override { blocks.clear(); oneshot_bytes = 0; }
  void finish() override { if (C->r.chance(1, 2)) while (!blocks.empty() && !C->abort) { if (blocks.back().reusable) release(blocks.size() - 1, true); else blocks.pop_back(); } }

  void track(void* p, size_t req, size_t got, bool reusable, const char* op) {
    if (!C->add_block(p, got, reusable ? "raw-reusable" : "raw-oneshot", op)) return;
    RawBlk b { (uint8_t*)p, req, got, reusable, C->next_id++ };
    stamp_fill(p, got, b.id);
    blocks.push_back(b);
    if (!reusable) oneshot_bytes += got;
  }
  void release(size_t i, bool by_got) {
    RawBlk b = blocks[i];
    verify(b, "before-free");
    C->remove_block(b.p, true);
    C->arena->free_reusable(b.p, by_got ? b.got : b.req);
    blocks.erase(blocks.begin() + i);
  }

  void oneshot(size_t size, const char* op) {
    Arena& A = *C->arena;
    bool zeroed = C->r.chance(1, 4);
    C->log(family, K, zeroed ? "alloc_oneshot_zeroed" : op, size, A.remaining_size());
    bool fired; void* p;
    { Fault f(C->maybe_fault()); p = zeroed ? A.alloc_oneshot_zeroed(size) : A.alloc_oneshot(size); fired = f.fired(); }
    if (!p) { if (!fired && !real_failure_ok()) C->viol("arena:alloc_oneshot-null", S("alloc_oneshot(%zu) returned null without an injected failure", size)); return; }
    if (fired) C->viol("arena:injected-failure-not-reported:alloc_oneshot", "alloc_oneshot returned memory although the request was refused");
    if (zeroed) for (size_t i = 0; i < size; i++) if (((uint8_t*)p)[i]) { C->viol("arena:alloc_oneshot_zeroed-not-zero", S("alloc_oneshot_zeroed(%zu) returned non-zero byte at %zu", size, i)); break; }
    track(p, size, size, false, "alloc_oneshot");
  }

  // after a soft reset: a request that does not fit the next retained block (but may fit a later one)
  bool probe_next_block() {
    Arena& A = *C->arena;
    Arena::ManagedBlock* nx = A._current_block->next;
    if (!nx) return false;
    size_t cap = size_t(nx->end() - Support::align_up(nx->data(), Arena::kAlignment));
    size_t size = Support::align_up<size_t>(cap + 8 + 8 * C->r.below(4), 8);
    if (size > (1u << 22)) return false;
    oneshot(size, "alloc_oneshot(>next-block)");
    return true;
  }

  // requests no allocator can satisfy: near SIZE_MAX (the arena's own overflow guards), half the address space, and sizes above
  // what malloc accepts (> 2^41 bytes: the real malloc-returns-null path behind the guards). Null is the only acceptable answer;
  // the block list must stay walkable (the caller walks it after every step) and later requests must still be served.
  void huge() {
    Arena& A = *C->arena; Rng& r = C->r;
    uint64_t cls = r.below(3), w = r.below(4);
    size_t n = cls == 0 ? SIZE_MAX - r.below(64) : cls == 1 ? (size_t(1) << 63) + r.below(4096) : (size_t(1) << (41 + r.below(21))) + r.below(4096);
    if (w < 2) n &= ~size_t(7);
    static const char* names[] = { "alloc_oneshot(huge)", "alloc_oneshot_zeroed(huge)", "alloc_reusable(huge)", "alloc_reusable_zeroed(huge)" };
    const char* op = names[w];
    bool retained = A._current_block->next != nullptr;   // after a soft reset: the failing request first walks (and frees) the retained blocks
    C->log(family, K, op, n, retained);
    void* p; size_t got = 0;
    { Fault f(false);
      p = w == 0 ? A.alloc_oneshot(n) : w == 1 ? A.alloc_oneshot_zeroed(n) : w == 2 ? (r.chance(1, 2) ? A.alloc_reusable<void>(n) : A.alloc_reusable<void>(n, Out(got))) : A.alloc_reusable_zeroed<void>(n, Out(got)); }
    if (p) { C->viol(S("arena:impossible-request-accepted:%s", op), S("%s with size %zu returned %p instead of null", op, n, p)); C->abort = true; return; }
    g_stats.huge_arena++; g_stats.huge_rejected++;
    if (cls) { g_stats.malloc_refused++; if (retained && w < 2) g_stats.malloc_refused_after_soft_reset++; }
    // still serviceable
    void* q; { Fault f(false); q = A.alloc_oneshot(16); }
    if (!q) { if (!real_failure_ok()) C->viol("arena:unusable-after-refused-request", S("alloc_oneshot(16) returned null right after %s was refused", op)); }
    else track(q, 16, 16, false, "alloc_oneshot");
  }

  void step() override {
    Arena& A = *C->arena; Rng& r = C->r;
    uint64_t c = r.below(100);
    size_t live_reusable = 0; for (auto& b : blocks) live_reusable += b.reusable;
    if ((blocks.size() >= soft_cap || oneshot_bytes > (4u << 20)) && c < 60 && live_reusable) c = 62;
    if (c < 20) {
      size_t size;
      uint64_t w = r.below(8);
      size_t rem = A.remaining_size();
      if (w == 0 && probe_next_block()) return;
      if (w == 1) size = rem & ~size_t(7);
      else if (w == 2) size = (rem & ~size_t(7)) + 8;
      else if (w == 3 && rem >= 16) size = (rem & ~size_t(7)) - 8;
      else size = Support::align_up<size_t>(pick_size(r), 8);
      if (!size) size = 8;
      if (oneshot_bytes > (4u << 20) && size > 4096) size = 64;
      oneshot(size, "alloc_oneshot");
    }
    else if (c < 24) {
      size_t n = r.chance(1, 8) ? 0 : pick_size(r) % 3000; bool nt = r.chance(1, 2);
      std::string txt = rand_text(r, n, true);
      C->log(family, K, nt ? "dup(nt)" : "dup", n);
      bool fired; void* p; { Fault f(C->maybe_fault()); p = A.dup(txt.data(), n, nt); fired = f.fired(); }
      if (n == 0) { if (p) C->viol("arena:dup-empty-not-null", "dup() of zero bytes returned non-null"); return; }
      if (!p) { if (!fired && !real_failure_ok()) C->viol("arena:dup-null", "dup() returned null without an injected failure"); return; }
      g_stats.compares++;
      if (memcmp(p, txt.data(), n) != 0) C->viol("arena:dup-content-wrong", S("dup(%zu) copy differs from the source", n));
      if (nt && ((char*)p)[n] != '\0') C->viol("arena:dup-not-null-terminated", S("dup(%zu, null_terminate) is not terminated", n));
      size_t got = Support::align_up<size_t>(n + size_t(nt), 8);
      track(p, n, got, false, "dup");
    }
    else if (c < 26) {
      size_t n = r.below(240); std::string txt = rand_text(r, n, false); int iv = int(r.below(100000));
      C->log(family, K, "sformat", n);
      char want[400]; snprintf(want, sizeof want, "%d:%s", iv, txt.c_str());
      bool fired; char* p; { Fault f(C->maybe_fault()); p = A.sformat("%d:%s", iv, txt.c_str()); fired = f.fired(); }
      if (!p) { if (!fired && !real_failure_ok()) C->viol("arena:sformat-null", "sformat() returned null without an injected failure"); return; }
      g_stats.compares++;
      if (strcmp(p, want) != 0) C->viol("arena:sformat-content-wrong", "sformat() result differs from snprintf");
      track(p, strlen(want) + 1, Support::align_up<size_t>(strlen(want) + 1, 8), false, "sformat");
    }
    else if (c < 60) {
      size_t size = pick_size(r); bool zeroed = r.chance(1, 3); bool want_got = r.chance(2, 3);
      const char* op = zeroed ? "alloc_reusable_zeroed" : "alloc_reusable";
      C->log(family, K, op, size, A.remaining_size());
      size_t got = size; bool fired; void* p;
      { Fault f(C->maybe_fault());
        if (want_got) p = zeroed ? A.alloc_reusable_zeroed<void>(size, Out(got)) : A.alloc_reusable<void>(size, Out(got));
        else p = zeroed ? A.alloc_reusable_zeroed<void>(size) : A.alloc_reusable<void>(size);
        fired = f.fired(); }
      if (!p) { if (!fired && !real_failure_ok()) C->viol("arena:alloc_reusable-null", S("alloc_reusable(%zu) returned null without an injected failure", size)); return; }
      if (fired) C->viol("arena:injected-failure-not-reported:alloc_reusable", "alloc_reusable returned memory although the request was refused");
      if (got < size) { C->viol("arena:allocated_size-below-request", S("alloc_reusable(%zu) reported allocated_size=%zu", size, got)); got = size; }
      if (zeroed) for (size_t i = 0; i < got; i++) if (((uint8_t*)p)[i]) { C->viol("arena:alloc_reusable_zeroed-not-zero", S("alloc_reusable_zeroed(%zu) (allocated %zu) has a non-zero byte at %zu", size, got, i)); break; }
      track(p, size, got, true, op);
    }
    else if (c < 95) {
      if (!live_reusable) return;
      size_t i; uint64_t how = r.below(3);
      if (how == 0) { i = blocks.size(); while (i-- > 0) if (blocks[i].reusable) break; }
      else if (how == 1) { for (i = 0; i < blocks.size(); i++) if (blocks[i].reusable) break; }
      else { i = r.below(blocks.size()); while (!blocks[i].reusable) i = (i + 1) % blocks.size(); }
      bool by_got = r.chance(1, 2);
      C->log(family, K, by_got ? "free_reusable(allocated_size)" : "free_reusable(size)", blocks[i].req, blocks[i].got);
      release(i, by_got);
    }
    else if (c < 97) huge();
    else if (c < 98) {
      // manual bump allocation through ptr()/end()/set_ptr() (the documented way to take exclusive memory from the current block)
      uint8_t* p = A.ptr(); uint8_t* e = A.end<uint8_t>();
      C->log(family, K, "ptr/set_ptr", size_t(e - p));
      g_stats.small_api_checks++;
      if (size_t(e - p) != A.remaining_size() || p != A._ptr || e != A._end) C->viol("arena:ptr-end-wrong", "ptr()/end() disagree with remaining_size()");
      if (size_t(e - p) < 16) return;
      size_t n = 8 * (1 + r.below(std::min<size_t>(size_t(e - p) / 8, 40)));
      A.set_ptr(p + n);
      if (A.ptr() != p + n) C->viol("arena:set_ptr-wrong", "set_ptr() did not move the cursor");
      track(p, n, n, false, "set_ptr");
    }
    else {
      C->log(family, K, "statistics");
      ArenaStatistics st = A.statistics();
      { ArenaStatistics sum = st; sum.aggregate(st); ArenaStatistics s2 = st; s2 += st; s2 += st;
        g_stats.small_api_checks++;
        if (sum.block_count() != 2 * st.block_count() || sum.used_size() != 2 * st.used_size() || sum.reserved_size() != 2 * st.reserved_size() || sum.overhead_size() != 2 * st.overhead_size() || sum.pooled_size() != 2 * st.pooled_size() || s2.reserved_size() != 3 * st.reserved_size() || s2.used_size() != 3 * st.used_size())
          C->viol("arena:statistics-aggregate-wrong", "ArenaStatistics::aggregate()/operator+= do not add the fields"); }
      size_t n = 0, reserved = 0;
      for (Arena::ManagedBlock* b = A._first_block; b; b = b->next) { n++; reserved += b->size; }
      g_stats.compares++;
      if (st.block_count() != n || st.reserved_size() != reserved) C->viol("arena:statistics-wrong", S("statistics(): blocks=%zu reserved=%zu, walk says %zu / %zu", st.block_count(), st.reserved_size(), n, reserved));
      if (st.used_size() > st.reserved_size()) C->viol("arena:statistics-used-above-reserved", S("statistics(): used %zu > reserved %zu", st.used_size(), st.reserved_size()));
    }
  }
};

// ---------------------------------------------------------------------------------------------------------
// Script runner
// ---------------------------------------------------------------------------------------------------------
struct ArenaBox {
  Arena* arena = nullptr; void* buf = nullptr; std::function<void()> destroy;
};

static ArenaBox make_arena(Ctx& c) {
  ArenaBox box;
  Rng& r = c.r;
  static const size_t mins[] = { 1024, 1024, 2048, 4096, 8192, 65536 };
  size_t min_block = mins[r.below(6)];
  uint64_t kind = r.below(10);
  if (kind < 5) {
    Arena* a = new Arena(min_block);
    box.arena = a; box.destroy = [a]() { delete a; };
    c.cfg = S("{\"arena\":\"heap\",\"min_block\":%zu", min_block);
  }
  else if (kind < 8) {
    static const size_t awkward[] = { 16, 17, 23, 24, 31, 40, 100, 255, 1000, 1023, 1025, 4097, 20000 };
    size_t n = awkward[r.below(13)];
    void* buf = malloc(n);
    Arena* a = new Arena(min_block, Span<uint8_t>((uint8_t*)buf, n));
    box.arena = a; box.buf = buf; box.destroy = [a, buf]() { delete a; free(buf); };
    c.static_block = buf; c.static_size = n;
    c.cfg = S("{\"arena\":\"user-buffer\",\"buffer\":%zu,\"min_block\":%zu", n, min_block);
    g_stats.static_arenas++;
  }
  else {
    uint64_t w = r.below(3);
    if (w == 0) { auto* a = new ArenaTmp<64>(min_block); box.arena = a; box.destroy = [a]() { delete a; }; c.static_block = a->_storage.data; c.static_size = 64; }
    else if (w == 1) { auto* a = new ArenaTmp<200>(min_block); box.arena = a; box.destroy = [a]() { delete a; }; c.static_block = a->_storage.data; c.static_size = 200; }
    else { auto* a = new ArenaTmp<1500>(min_block); box.arena = a; box.destroy = [a]() { delete a; }; c.static_block = a->_storage.data; c.static_size = 1500; }
    c.cfg = S("{\"arena\":\"ArenaTmp\",\"buffer\":%zu,\"min_block\":%zu", c.static_size, min_block);
    g_stats.static_arenas++;
  }
  return box;
}

static Harness* make_harness(int id) {
  switch (id) {
    case 0: return new VecH<uint32_t>();
    case 1: return new VecH<uint64_t>();
    case 2: return new VecH<uint8_t>();
    case 3: return new VecH<S12>();
    case 4: return new HashH();
    case 5: return new TreeH();
    case 6: return new ListH();
    case 7: return new BitSetH();
    case 8: return new BitVecHT<BitWord>();
    case 9: switch (C->r.below(4)) { case 0: return new PoolHT<PObj12>(); case 1: return new PoolHT<PObj20>(); case 2: return new PoolHT<PObj12, 20>(); default: return new PoolHT<PObj>(); }
    case 10: return new AStrH();
    case 11: return new StrH();
    case 13: return new BitVecHT<uint32_t>();
    default: return new RawH();
  }
}
static const int kHarnessCount = 14;
static const char* kHarnessNames[] = { "vec32", "vec64", "vec8", "vec12", "hash", "tree", "list", "bitset", "bitvec", "pool", "astring", "string", "raw", "bitvec32" };

static void run_script(uint64_t idx, uint64_t seed, size_t max_ops, bool fault, bool walks, bool verbose) {
  Ctx ctx;
  C = &ctx;
  ctx.script_idx = idx; ctx.script_seed = seed; ctx.r = Rng(seed);
  ctx.walks_enabled = walks;
  Rng& r = ctx.r;
  ArenaBox box = make_arena(ctx);
  ctx.arena = box.arena;
  ctx.fault_enabled = fault && r.chance(2, 3);

  // choose which containers share the arena in this script
  std::vector<int> ids;
  uint64_t how = r.below(10);
  size_t want = how < 2 ? 3 : how < 5 ? 3 + r.below(3) : how < 8 ? 5 + r.below(5) : kHarnessCount;
  std::vector<int> perm(kHarnessCount); for (int i = 0; i < kHarnessCount; i++) perm[i] = i;
  for (int i = kHarnessCount - 1; i > 0; i--) std::swap(perm[i], perm[r.below(i + 1)]);
  for (size_t i = 0; i < want && i < perm.size(); i++) ids.push_back(perm[i]);
  if (std::find(ids.begin(), ids.end(), 12) == ids.end() && r.chance(1, 2)) ids.push_back(12);   // raw blocks are the interval map's best witness
  std::vector<std::unique_ptr<Harness>> hs;
  std::string names;
  for (int id : ids) { hs.emplace_back(make_harness(id)); names += (names.empty() ? "" : ","); names += kHarnessNames[id]; }

  size_t n_ops;
  uint64_t shape = r.below(10);
  if (max_ops <= 60) n_ops = 10 + r.below(max_ops > 10 ? max_ops - 9 : 1);
  else if (shape == 0) n_ops = 10 + r.below(50);
  else if (shape < 3) n_ops = 50 + r.below(std::min<size_t>(max_ops - 50, 200) + 1);
  else n_ops = max_ops / 3 + r.below(max_ops - max_ops / 3 + 1);
  static const uint64_t periods[] = { 0, 0, 500, 150, 40 };
  uint64_t reset_period = periods[r.below(5)];
  ctx.cfg += S(",\"fault\":%d,\"reset_period\":%llu,\"ops\":%zu,\"containers\":\"%s\"}", (int)ctx.fault_enabled, (unsigned long long)reset_period, n_ops, names.c_str());
  if (verbose) fprintf(stderr, "script %llu seed %llu %s\n", (unsigned long long)idx, (unsigned long long)seed, ctx.cfg.c_str());

  ctx.block_count = arena_walk("start");
  if (r.chance(1, 24)) {
    // an arena that has only ever served requests above the slot sizes (malloc-backed dynamic blocks), then reset
    bool hard = r.chance(2, 3);
    size_t n = 1 + r.below(3);
    ctx.log(F_ARENA, "arena", hard ? "prelude:dynamic-only+reset(hard)" : "prelude:dynamic-only+reset(soft)", n);
    for (size_t i = 0; i < n; i++) { void* p = ctx.arena->alloc_reusable(Arena::kMaxReusableSlotSize + 1 + r.below(6000)); if (p) ctx.add_block(p, Arena::kMaxReusableSlotSize + 1, "raw-reusable", "alloc_reusable"); }
    std::vector<void*> dyn = dynamic_blocks_of(*ctx.arena);
    ctx.live.clear(); ctx.dead.clear();
    ctx.arena->reset(hard ? ResetPolicy::kHard : ResetPolicy::kSoft);
    expect_freed(dyn, hard ? "reset(hard)" : "reset(soft)", ctx.arena);
    if (hard) g_stats.resets_hard++; else g_stats.resets_soft++;
    ctx.block_count = arena_walk("after-reset");
  }
  bool after_soft = false;
  for (size_t i = 0; i < n_ops && !ctx.abort; i++) {
    if (reset_period && r.chance(1, reset_period)) {
      bool hard = r.chance(1, 3);
      ctx.log(F_ARENA, "arena", hard ? "reset(hard)" : "reset(soft)", ctx.live.size());
      for (auto& h : hs) { if (!ctx.abort) h->check_all("before-reset"); }
      if (ctx.abort) break;
      for (auto& h : hs) h->drop();
      ctx.live.clear(); ctx.dead.clear();
      std::vector<void*> dyn = dynamic_blocks_of(*ctx.arena);
      ctx.arena->reset(hard ? ResetPolicy::kHard : ResetPolicy::kSoft);
      expect_freed(dyn, hard ? "reset(hard)" : "reset(soft)", ctx.arena);
      if (hard) g_stats.resets_hard++; else g_stats.resets_soft++;
      ctx.block_count = arena_walk("after-reset");
      after_soft = !hard;
      continue;
    }
    Harness* h = hs[r.below(hs.size())].get();
    if (after_soft && r.chance(1, 2)) {
      // the interesting spot after a soft reset: requests relative to the retained blocks
      for (auto& hh : hs) if (hh->family == F_RAW) { RawH* rh = static_cast<RawH*>(hh.get()); if (r.chance(1, 4)) rh->huge(); else rh->probe_next_block(); break; }
      after_soft = r.chance(1, 2);
    }
    else h->step();
    if (verbose) { const OpRec& o = ctx.ring[(ctx.nops - 1) & 31]; fprintf(stderr, "  #%llu %s.%s(%llu,%llu)\n", (unsigned long long)ctx.nops, o.kind, o.op, (unsigned long long)o.a, (unsigned long long)o.b); }
    if (ctx.abort) break;
    size_t nb = arena_walk("step");
    if (nb < ctx.block_count) g_stats.skip_events++;
    ctx.block_count = nb;
    if ((i & 63) == 63) for (auto& hh : hs) { if (!ctx.abort) hh->check_all("periodic"); }
  }
  if (!ctx.abort) for (auto& h : hs) { if (!ctx.abort) h->check_all("end"); }
  if (!ctx.abort) { for (auto& h : hs) { if (!ctx.abort) h->finish(); } arena_walk("end"); }
  if (!ctx.abort && r.chance(1, 3)) { ctx.arena->reset(ResetPolicy::kSoft); arena_walk("final-soft-reset"); }

  // script accounting
  g_stats.scripts++;
  g_stats.distinct_all.insert(ctx.hash);
  int fams = __builtin_popcount(ctx.family_mask);
  bool nontrivial = fams >= 3 && ctx.switches >= 6;
  if (nontrivial) { g_stats.distinct_nt.insert(ctx.hash); g_stats.nontrivial_scripts++; }
  if (g_stats.samples.size() < 3) g_stats.samples.push_back(S("{\"script\":%llu,\"seed\":%llu,\"ops_executed\":%llu,\"families\":%d,\"family_switches\":%u,\"cfg\":", (unsigned long long)idx, (unsigned long long)seed, (unsigned long long)ctx.nops, fams, ctx.switches) + ctx.cfg + "}");

  hs.clear();              // containers first (String frees its heap buffers) ...
  std::vector<void*> dyn = ctx.walks_enabled ? dynamic_blocks_of(*ctx.arena) : std::vector<void*>();
  box.destroy();           // ... then ~Arena(): implicit hard reset; ASan watches the block walk
  expect_freed(dyn, "~Arena", nullptr);
  C = nullptr;
}


// ---------------------------------------------------------------------------------------------------------
// Directed scripts (run by the shards that get --directed 1): the parts of the growth policies and of the hash prime table
// that no random script reaches because they need containers above Globals::kGrowThreshold (16 MiB) / tables of 10^6 buckets.
// They are ordinary scripts for the bookkeeping: index scripts+k, "@script" line, violations through C->viol.
// ---------------------------------------------------------------------------------------------------------
static constexpr size_t kTH = Globals::kGrowThreshold;

template<typename T>
static void big_vector(Rng& r) {
  const char* K = VT<T>::name();
  Arena a(65536);
  ArenaVector<T> v; std::vector<T> m;
  auto verify = [&](const char* op) {
    g_stats.compares++;
    if (v.capacity() < v.size()) { C->viol(S("vector:capacity-below-size:big:%s", op), S("%s above kGrowThreshold: capacity %zu < size %zu after %s", K, v.capacity(), v.size(), op)); C->abort = true; return; }
    if (v.size() != m.size()) { C->viol(S("vector:size-mismatch:big:%s", op), S("%s above kGrowThreshold: size()=%zu, model %zu after %s", K, v.size(), m.size(), op)); C->abort = true; return; }
    if (m.size() && memcmp(v.data(), m.data(), m.size() * sizeof(T)) != 0) { size_t i = 0; while (v.data()[i] == m[i]) i++; C->viol(S("vector:content-mismatch:big:%s", op), S("%s above kGrowThreshold: element %zu of %zu differs from the model after %s", K, i, m.size(), op)); C->abort = true; return; }
    g_stats.big_bytes_verified += m.size() * sizeof(T);
  };
  auto grown = [&](size_t cap0) { if (v.capacity() != cap0 && cap0 * sizeof(T) >= kTH) g_stats.big_vec_growths++; };
  size_t n0 = kTH / sizeof(T) + 1 + r.below(3);
  C->log(F_VECTOR, K, "big:reserve_fit", n0);
  if (v.reserve_fit(a, n0) != Error::kOk || v.capacity() < n0) { C->viol("vector:unexpected-error:big:reserve_fit", S("%s reserve_fit(%zu) failed or left capacity %zu", K, n0, v.capacity())); return; }
  C->log(F_VECTOR, K, "big:resize_fit", n0);
  if (v.resize_fit(a, n0) != Error::kOk) { C->viol("vector:unexpected-error:big:resize_fit", S("%s resize_fit(%zu) failed", K, n0)); return; }
  { T z; memset(&z, 0, sizeof z); m.assign(n0, z); }
  verify("resize_fit"); if (C->abort) return;
  for (size_t i = 0; i < n0; i++) { T x = VT<T>::make(i * 0x9E3779B1u + 7); v.data()[i] = x; m[i] = x; }
  // size == capacity (or close): the next appends have to grow a buffer that is already above the threshold
  while (v.size() < v.capacity() && !C->abort) { T x = VT<T>::make(r.next()); v.append_unchecked(x); m.push_back(x); }
  for (int round = 0; round < 3 && !C->abort; round++) {
    size_t cap0 = v.capacity(); uint64_t w = round == 0 ? 0 : r.below(4);
    if (v.capacity() * sizeof(T) > (36u << 20)) break;
    if (w == 0) {
      C->log(F_VECTOR, K, "big:append", m.size(), cap0);
      T x = VT<T>::make(r.next()); Error e = v.append(a, x);
      if (e != Error::kOk) { C->viol("vector:unexpected-error:big:append", S("%s append at size %zu failed with %u", K, m.size(), (unsigned)e)); return; }
      m.push_back(x); grown(cap0); verify("append");
    }
    else if (w == 1) {
      size_t n = cap0 + 1 + r.below(kTH / sizeof(T) / 2);
      C->log(F_VECTOR, K, "big:reserve_grow", n, cap0);
      Error e = v.reserve_grow(a, n);
      if (e != Error::kOk || v.capacity() < n) { C->viol("vector:reserve-ok-without-capacity:big:reserve_grow", S("%s reserve_grow(%zu) returned %u with capacity %zu", K, n, (unsigned)e, v.capacity())); return; }
      grown(cap0); verify("reserve_grow");
    }
    else if (w == 2) {
      size_t n = cap0 + 1 + r.below(1000);
      C->log(F_VECTOR, K, "big:resize_grow", n, cap0);
      Error e = v.resize_grow(a, n);
      if (e != Error::kOk) { C->viol("vector:unexpected-error:big:resize_grow", S("%s resize_grow(%zu) failed with %u", K, n, (unsigned)e)); return; }
      { T z; memset(&z, 0, sizeof z); m.resize(n, z); } grown(cap0); verify("resize_grow");
    }
    else {
      size_t n = 1 + r.below(5000);
      C->log(F_VECTOR, K, "big:reserve_additional", n, cap0);
      while (v.size() < v.capacity()) { T x = VT<T>::make(r.next()); v.append_unchecked(x); m.push_back(x); }
      Error e = v.reserve_additional(a, n);
      if (e != Error::kOk || v.capacity() - v.size() < n) { C->viol("vector:reserve-ok-without-capacity:big:reserve_additional", S("%s reserve_additional(%zu) returned %u with capacity %zu, size %zu", K, n, (unsigned)e, v.capacity(), v.size())); return; }
      grown(cap0); verify("reserve_additional");
    }
  }
  v.release(a);
}

static void big_string(Rng& r) {
  String s0; StringTmp<130> t1;
  String& X = r.chance(1, 2) ? s0 : static_cast<String&>(t1);
  std::string m;
  auto verify = [&](const char* op) {
    g_stats.compares++;
    if (X.capacity() < X.size()) { C->viol(S("string:big:capacity-below-size"), S("above kGrowThreshold: capacity %zu < size %zu after %s", X.capacity(), X.size(), op)); C->abort = true; return; }
    if (X.size() != m.size()) { C->viol("string:big:size-mismatch", S("above kGrowThreshold: size()=%zu, model %zu after %s", X.size(), m.size(), op)); C->abort = true; return; }
    if (memcmp(X.data(), m.data(), m.size()) != 0) { size_t i = 0; while (X.data()[i] == m[i]) i++; C->viol("string:big:content-mismatch", S("above kGrowThreshold: byte %zu of %zu differs from the model after %s", i, m.size(), op)); C->abort = true; return; }
    if (X.data()[X.size()] != '\0') { C->viol("string:big:not-null-terminated", S("above kGrowThreshold: data()[size()] != 0 at size %zu after %s", X.size(), op)); C->abort = true; return; }
    g_stats.big_bytes_verified += m.size();
  };
  auto grown = [&](size_t cap0, size_t size0) { if (X.capacity() != cap0 && (size0 >= kTH || X.size() + 1 > kTH)) g_stats.big_string_growths++; };
  size_t piece = (9u << 20) + r.below(1u << 20);
  for (int i = 0; i < 2 && !C->abort; i++) {
    size_t cap0 = X.capacity(), size0 = X.size(); char ch = char('a' + i);
    C->log(F_STRING, "string", "big:append_chars", piece, size0);
    if (X.append_chars(ch, piece) != Error::kOk) { C->viol("string:big:unexpected-error", S("append_chars(%zu) at size %zu failed", piece, size0)); return; }
    m.append(piece, ch); grown(cap0, size0); verify("append_chars");
  }
  for (int round = 0; round < 3 && !C->abort; round++) {
    size_t cap0 = X.capacity(), size0 = X.size(); uint64_t w = r.below(4);
    if (m.size() > 44u << 20) break;
    if (w == 0) {
      // fill to the brim, then one more character
      C->log(F_STRING, "string", "big:fill+append(char)", cap0, size0);
      if (X.append_chars('f', cap0 - size0) != Error::kOk) { C->viol("string:big:unexpected-error", "append_chars up to the capacity failed"); return; }
      m.append(cap0 - size0, 'f');
      verify("fill"); if (C->abort) return;
      if (X.append('!') != Error::kOk) { C->viol("string:big:unexpected-error", "append(char) at size == capacity failed"); return; }
      m.push_back('!'); grown(cap0, cap0); verify("append(char)");
    }
    else if (w == 1) {
      std::string txt = rand_text(r, (1u << 20) + r.below(1u << 20), true);
      C->log(F_STRING, "string", "big:append(data,size)", txt.size(), size0);
      if (X.append(txt.data(), txt.size()) != Error::kOk) { C->viol("string:big:unexpected-error", "append(data,size) failed"); return; }
      m.append(txt); grown(cap0, size0); verify("append(data,size)");
    }
    else if (w == 2) {
      size_t n = X.capacity() + 1 + r.below(1u << 20); std::string txt(n, 'A'); for (size_t i = 0; i < n; i += 4093) txt[i] = char('0' + i % 10);
      C->log(F_STRING, "string", "big:assign(data,size)", n, size0);
      if (X.assign(txt.data(), n) != Error::kOk) { C->viol("string:big:unexpected-error", "assign(data,size) above the capacity failed"); return; }
      m = txt; grown(cap0, size0); verify("assign(data,size)");
    }
    else {
      size_t n = X.capacity() + 1 + r.below(1u << 20);
      C->log(F_STRING, "string", "big:assign_chars", n, size0);
      if (X.assign_chars('z', n) != Error::kOk) { C->viol("string:big:unexpected-error", "assign_chars above the capacity failed"); return; }
      m.assign(n, 'z'); grown(cap0, size0); verify("assign_chars");
    }
  }
}

static void big_bitset(Rng& r) {
  constexpr size_t kBits = size_t(Globals::kGrowThreshold) * 8u;    // the threshold of ArenaBitSet::_append
  Arena a(65536);
  ArenaBitSet b; bool v = r.chance(1, 2);
  std::map<size_t, bool> flips;      // sparse model: every bit is `fill(i)` unless listed
  std::vector<std::pair<size_t, bool>> segs;   // (end, value) runs in order
  auto verify = [&](const char* op, size_t size) {
    g_stats.compares++;
    if (b.size() != size || b.capacity() < b.size()) { C->viol(S("bitset:size-mismatch:big:%s", op), S("above the growth threshold: size()=%zu capacity()=%zu, model %zu after %s", b.size(), b.capacity(), size, op)); C->abort = true; return; }
    // whole words against the run model, flipped bits individually, the tail beyond size() must be clear
    size_t words = (size + 63) / 64, pos = 0, bad = SIZE_MAX;
    std::vector<BitWord> want(words, 0);
    for (auto& s : segs) { size_t e = std::min(s.first, size); if (s.second && e > pos) Support::bit_vector_fill(want.data(), pos, e - pos); pos = std::max(pos, e); }
    for (auto& f : flips) if (f.first < size) Support::bit_vector_set_bit(want.data(), f.first, f.second);
    for (size_t i = 0; i < words; i++) if (b.data()[i] != want[i]) { bad = i; break; }
    if (bad != SIZE_MAX) { C->viol(S("bitset:bit-mismatch:big:%s", op), S("above the growth threshold: word %zu of %zu differs from the model after %s (size %zu bits)", bad, words, op, size)); C->abort = true; return; }
    g_stats.big_bytes_verified += words * 8;
  };
  size_t n0 = kBits + 1 + r.below(200);
  C->log(F_BITSET, "bitset", "big:resize", n0, v);
  if (b.resize(a, n0, v) != Error::kOk) { C->viol("bitset:unexpected-error:big:resize", S("resize(%zu) failed", n0)); return; }
  segs.push_back({ n0, v });
  for (int i = 0; i < 64; i++) { size_t k = r.chance(1, 4) ? n0 - 1 - r.below(130) : r.below(n0); bool x = r.chance(1, 2); b.set_bit(k, x); flips[k] = x; }
  verify("resize", n0); if (C->abort) return;
  // up to the capacity with the other value, then appends: _append has to grow a set that is above the threshold
  size_t cap = b.capacity(), size = n0;
  if (cap > size) { C->log(F_BITSET, "bitset", "big:resize(capacity)", cap, !v); if (b.resize(a, cap, !v) != Error::kOk) { C->viol("bitset:unexpected-error:big:resize", "resize up to the capacity failed"); return; } segs.push_back({ cap, !v }); size = cap; verify("resize(capacity)", size); if (C->abort) return; }
  size_t n_app = 1 + r.below(200);
  C->log(F_BITSET, "bitset", "big:append", n_app, size);
  for (size_t i = 0; i < n_app; i++) {
    bool x = r.chance(1, 2); size_t cap0 = b.capacity();
    if (b.append(a, x) != Error::kOk) { C->viol("bitset:unexpected-error:big:append", S("append at size %zu failed", size)); return; }
    if (b.capacity() != cap0 && cap0 >= kBits) g_stats.big_bitset_growths++;
    flips[size] = x; size++;
  }
  segs.push_back({ size, false });
  verify("append", size); if (C->abort) return;
  // a copy into a fresh set (copy_from allocates the exact size)
  ArenaBitSet c2;
  C->log(F_BITSET, "bitset", "big:copy_from", size);
  if (c2.copy_from(a, b) != Error::kOk || !c2.equals(b) || c2.size() != size) C->viol("bitset:bit-mismatch:big:copy_from", "copy_from of a set above the threshold failed or the copy is not equal");
  c2.release(a); b.release(a);
}

static void hash_primes(Rng& r, uint32_t max_index) {
  Arena a(65536);
  ArenaHash<HNode> T;
  std::vector<HNode*> nodes;
  auto add = [&](uint32_t h) { HNode* n = a.new_oneshot<HNode>(h, uint32_t(nodes.size()), nodes.size()); if (n) { T.insert(a, n); nodes.push_back(n); } };
  for (uint32_t h : { 0u, 1u, 2u, 0x7FFFFFFFu, 0x80000000u, 0x80000001u, 0xFFFFFFFEu, 0xFFFFFFFFu }) add(h);
  for (int i = 0; i < 24; i++) add(uint32_t(r.next()) | (i & 1 ? 0xFF000000u : 0u));
  uint32_t prev_count = 0;
  for (uint32_t idx = 0; idx <= max_index && !C->abort; idx++) {
    C->log(F_HASH, "hash", "primes:rehash", idx);
    T._rehash(a, idx);
    if (T._prime_index != idx) { C->viol("hash:rehash-refused-without-fault", S("_rehash(%u) did not take effect although no failure was injected", idx)); return; }
    uint32_t count = T._buckets_count;
    if (count <= prev_count && idx) C->viol("hash:prime-table-not-ascending", S("prime index %u has %u buckets, index %u had %u", idx, count, idx - 1, prev_count));
    prev_count = count;
    // hash codes at the edges of every bucket-count multiple the 32-bit range allows, plus random ones
    uint32_t kmax = uint32_t(0xFFFFFFFFull / count);
    auto probe = [&](uint32_t h) {
      g_stats.calc_mod_checks++;
      uint32_t got = T._calc_mod(h);
      if (got >= count) { C->viol("hash:bucket-index-out-of-range", S("prime index %u (%u buckets): hash %08x maps to bucket %u (hash %% buckets = %u)", idx, count, h, got, h % count)); C->abort = true; }
    };
    for (uint32_t h : { 0u, 1u, count - 1, count, count + 1, 0x7FFFFFFFu, 0x80000000u, 0xFFFFFFFFu, 0xFFFFFFFEu, kmax * count, kmax * count - 1, uint32_t(uint64_t(kmax) * count + count - 1) }) probe(h);
    for (int i = 0; i < 400 && !C->abort; i++) { uint32_t k = uint32_t(r.below(uint64_t(kmax) + 1)); uint32_t base = k * count; probe(base); probe(base - 1); probe(base + 1); probe(base + count - 1); }
    for (int i = 0; i < 64 && !C->abort; i++) probe(0xFFFFFFFFu - uint32_t(i));
    for (int i = 0; i < 300 && !C->abort; i++) probe(uint32_t(r.next()));
    if (C->abort) break;
    // the nodes that went through the rehash are where lookups go
    for (HNode* n : nodes) {
      HNode* g = T.get(HKey{ n->_hash_code, n->key });
      if (g != n) { C->viol("hash:get-misses-present-key:primes", S("prime index %u (%u buckets): node with hash %08x is not found after _rehash", idx, count, n->_hash_code)); C->abort = true; break; }
    }
    g_stats.prime_indices++;
  }
  T.release(a);
}

static void run_directed(uint64_t idx, uint64_t seed, int part, uint32_t prime_max, bool verbose) {
  Ctx ctx; C = &ctx;
  ctx.script_idx = idx; ctx.script_seed = seed; ctx.r = Rng(seed ^ 0xD1EC7EDull);
  ctx.walks_enabled = false; ctx.fault_enabled = false;
  static const char* parts[] = { "big-vector", "big-string", "big-bitset", "hash-primes" };
  ctx.cfg = S("{\"directed\":\"%s\"}", parts[part]);
  if (verbose) fprintf(stderr, "script %llu seed %llu %s\n", (unsigned long long)idx, (unsigned long long)seed, ctx.cfg.c_str());
  Rng& r = ctx.r;
  if (part == 0) { switch (r.below(4)) { case 0: big_vector<uint8_t>(r); break; case 1: big_vector<uint32_t>(r); break; case 2: big_vector<uint64_t>(r); break; default: big_vector<S12>(r); } }
  else if (part == 1) big_string(r);
  else if (part == 2) big_bitset(r);
  else hash_primes(r, prime_max);
  g_stats.scripts++;
  g_stats.distinct_all.insert(ctx.hash);
  C = nullptr;
}

// Minimal reproducers (no harness-side walks/repairs: ASan is the only judge)
static int repro(const std::string& which) {
  if (which == "soft-reset-skip") {
    Arena a(1024);
    (void)a.alloc_oneshot(1000);     // block #1 (2000 usable)
    (void)a.alloc_oneshot(3000);     // block #2 (4048 usable)
    (void)a.alloc_oneshot(6000);     // block #3 (8144 usable)
    a.reset(ResetPolicy::kSoft);     // keeps all three, cursor back on #1
    (void)a.alloc_oneshot(5000);     // does not fit #1 nor #2 -> #2 is freed, #3 is used; #1->next still points to #2
    a.reset(ResetPolicy::kHard);     // walks #1 -> (freed #2)
    printf("{\"repro\":\"soft-reset-skip\",\"survived\":true}\n");
    return 0;
  }
  if (which == "hard-reset-leaks-dynamic") {
    { Arena a(1024); (void)a.alloc_reusable(5000); }    // only a dynamic block, no managed block: ~Arena() returns early
    printf("{\"repro\":\"hard-reset-leaks-dynamic\",\"note\":\"LeakSanitizer reports the 5000-byte block at exit\"}\n");
    return 0;
  }
  if (which == "bitset-resize") {
    Arena a(1024); ArenaBitSet b;
    (void)b.resize(a, 5, false);
    (void)b.resize(a, 70, true);                       // expected: 00000 followed by 65 ones
    std::string bits; for (size_t i = 0; i < 70; i++) bits += b.bit_at(i) ? '1' : '0';
    ArenaBitSet c;
    (void)c.resize(a, 5, false); c.set_bit(0, true); c.set_bit(2, true);
    (void)c.resize(a, 10, false);                      // expected: 1010000000
    std::string bits2; for (size_t i = 0; i < 10; i++) bits2 += c.bit_at(i) ? '1' : '0';
    printf("{\"repro\":\"bitset-resize\",\"zeros5_grow_to_70_with_ones\":\"%s\",\"10100_grow_to_10_with_zeros\":\"%s\"}\n", bits.c_str(), bits2.c_str());
    return 0;
  }
  if (which == "string-format-exact-fit") {
    String s; (void)s.assign_chars('a', 200);          // large, capacity 255
    std::string txt(s.capacity(), 'b');
    Error e = s.assign_format("%s", txt.c_str());
    printf("{\"repro\":\"string-format-exact-fit\",\"error\":%u,\"size\":%zu,\"capacity\":%zu,\"strlen\":%zu,\"last_byte\":%d}\n", (unsigned)e, s.size(), s.capacity(), strlen(s.data()), (int)s.data()[s.size() - 1]);
    return 0;
  }
  if (which == "string-assign-empty") {
    String s; (void)s.assign("hello");
    (void)s.assign_chars('x', 0);
    printf("{\"repro\":\"string-assign-empty\",\"after_assign_chars_0\":%s", jstr(s.data()).c_str());
    (void)s.assign(Span<const char>("", size_t(0)));
    printf(",\"after_assign_empty_span\":%s}\n", jstr(s.data()).c_str());
    return 0;
  }
  if (which == "vector-last-index-of") {
    Arena a(1024); ArenaVector<uint32_t> v;
    for (uint32_t x : { 7u, 1u, 7u, 2u }) (void)v.append(a, x);
    printf("{\"repro\":\"vector-last-index-of\",\"last_index_of_7\":%zu,\"expected\":2}\n", v.last_index_of(7u));
    return 0;
  }
  fprintf(stderr, "unknown repro\n");
  return 2;
}

int main(int argc, char** argv) {
  Args a(argc, argv);
  std::string mode = a.str("mode", "random");
  if (mode == "repro") return repro(a.str("which", "soft-reset-skip"));

  asmjit_verif_arena_fail_fn = fail_hook;
  uint64_t seed = a.u64("seed", 1);
  uint64_t scripts = a.u64("scripts", 100), max_ops = a.u64("max-ops", 500);
  uint64_t from = a.u64("from", 0);
  bool fault = a.u64("fault", 1) != 0, walks = !a.has("no-walks"), verbose = a.has("verbose");
  uint64_t only = a.has("only") ? a.u64("only", 0) : UINT64_MAX;
  g_real_oom = a.u64("real-oom", 0) != 0;

  for (uint64_t i = from; i < scripts; i++) {
    if (only != UINT64_MAX && i != only) continue;
    fprintf(stderr, "@script %llu\n", (unsigned long long)i);
    Rng r(seed * 1000003ull + i);
    run_script(i, r.next(), (size_t)max_ops, fault, walks, verbose);
  }
  if (a.u64("directed", 0)) {
    uint32_t prime_max = (uint32_t)a.u64("prime-max", 40);
    for (uint64_t k = 0; k < 4; k++) {
      uint64_t i = scripts + k;
      if (i < from || (only != UINT64_MAX && i != only)) continue;
      fprintf(stderr, "@script %llu\n", (unsigned long long)i);
      Rng r(seed * 1000003ull + i);
      run_directed(i, r.next(), (int)k, prime_max, verbose);
    }
  }

  printf("{\"violations\":[");
  for (size_t i = 0; i < g_viol.size(); i++)
    printf("%s{\"key\":%s,\"what\":%s,\"script\":%llu,\"count\":%llu}", i ? "," : "", jstr(g_viol[i].key).c_str(), jstr(g_viol[i].what).c_str(), (unsigned long long)g_viol[i].script, (unsigned long long)g_viol_count[g_viol[i].key]);
  printf("],\"scripts\":%llu,\"nontrivial_scripts\":%llu,\"ops_total\":%llu,\"compares\":%llu,\"walks\":%llu,\"arena_walks\":%llu,\"inj_armed\":%llu,\"inj_fired\":%llu,\"arena_requests\":%llu,"
         "\"resets_soft\":%llu,\"resets_hard\":%llu,\"reuse_observed\":%llu,\"static_arenas\":%llu,\"skip_events\":%llu,\"stamp_bytes\":%llu,\"max_blocks\":%llu,\"max_live_blocks\":%llu,"
         "\"huge_rejected\":%llu,\"sso_to_heap\":%llu,\"fmt_exact_fit\":%llu,\"ops_by_family\":{",
         (unsigned long long)g_stats.scripts, (unsigned long long)g_stats.nontrivial_scripts, (unsigned long long)g_stats.ops_total, (unsigned long long)g_stats.compares, (unsigned long long)g_stats.walks,
         (unsigned long long)g_stats.arena_walks, (unsigned long long)g_stats.inj_armed, (unsigned long long)g_stats.inj_fired, (unsigned long long)g_stats.arena_requests,
         (unsigned long long)g_stats.resets_soft, (unsigned long long)g_stats.resets_hard, (unsigned long long)g_stats.reuse_observed, (unsigned long long)g_stats.static_arenas,
         (unsigned long long)g_stats.skip_events, (unsigned long long)g_stats.stamp_bytes, (unsigned long long)g_stats.max_blocks, (unsigned long long)g_stats.max_live_blocks,
         (unsigned long long)g_stats.huge_rejected, (unsigned long long)g_stats.sso_to_heap, (unsigned long long)g_stats.fmt_exact_fit);
  for (int i = 0; i < F_COUNT; i++) printf("%s\"%s\":%llu", i ? "," : "", kFamilyNames[i], (unsigned long long)g_stats.ops[i]);
  printf("},\"extra\":{");
  {
    struct { const char* name; uint64_t v; } ex[] = {
      { "self_alias_string", g_stats.self_alias_string }, { "self_alias_string_grow", g_stats.self_alias_string_grow }, { "self_alias_vector", g_stats.self_alias_vector },
      { "self_alias_bitset", g_stats.self_alias_bitset }, { "self_swaps", g_stats.self_swaps }, { "child_probes", g_stats.child_probes }, { "child_probe_deaths", g_stats.child_probe_deaths },
      { "moves_hash", g_stats.moves_hash }, { "moves_hash_embedded", g_stats.moves_hash_embedded }, { "moves_tree", g_stats.moves_tree }, { "moves_list", g_stats.moves_list },
      { "huge_arena", g_stats.huge_arena }, { "huge_bitset", g_stats.huge_bitset }, { "huge_string", g_stats.huge_string }, { "malloc_refused", g_stats.malloc_refused },
      { "malloc_refused_after_soft_reset", g_stats.malloc_refused_after_soft_reset },
      { "big_vec_growths", g_stats.big_vec_growths }, { "big_string_growths", g_stats.big_string_growths }, { "big_bitset_growths", g_stats.big_bitset_growths }, { "big_bytes_verified", g_stats.big_bytes_verified },
      { "bitops_calls", g_stats.bitops_calls }, { "bitvec32_ops", g_stats.bitvec32_ops }, { "bitword_iter", g_stats.bitword_iter },
      { "real_oom_failures", g_real_oom_failures }, { "real_oom_scripts", g_real_oom ? g_stats.scripts : 0 },
      { "prime_indices", g_stats.prime_indices }, { "calc_mod_checks", g_stats.calc_mod_checks }, { "natural_rehashes", g_stats.natural_rehashes }, { "small_api_checks", g_stats.small_api_checks },
    };
    for (size_t i = 0; i < sizeof ex / sizeof ex[0]; i++) printf("%s\"%s\":%llu", i ? "," : "", ex[i].name, (unsigned long long)ex[i].v);
  }
  printf("},\"ops_by_name\":{");
  { std::map<std::string, uint64_t> byname; for (auto& kv : g_stats.opcount) byname[std::string(kv.first.first) + "." + kv.first.second] += kv.second;
    bool f = true; for (auto& kv : byname) { printf("%s%s:%llu", f ? "" : ",", jstr(kv.first).c_str(), (unsigned long long)kv.second); f = false; } }
  printf("},\"samples\":[");
  for (size_t i = 0; i < g_stats.samples.size(); i++) printf("%s%s", i ? "," : "", g_stats.samples[i].c_str());
  printf("],\"distinct\":[");
  { bool f = true; for (uint64_t h : g_stats.distinct_nt) { printf("%s%llu", f ? "" : ",", (unsigned long long)h); f = false; } }
  printf("],\"distinct_all\":%zu}\n", g_stats.distinct_all.size());
  return 0;
}
