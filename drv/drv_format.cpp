// C20 driver: formatter / logger transcript. Executes cases (the C01 x86 case language, the C02 AArch64 case language)
// with a StringLogger attached under several FormatFlags sets per case, or calls Formatter::format_instruction /
// format_operand / format_node directly (Assembler, Compiler with virtual registers, or no emitter). It records what
// was given and what text / bytes came back; all oracle logic lives in vlib/props/c20.py + vlib/fmttok.py.
//
// case line:   <id> <kind> <flags,flags,..(hex)> <arch> <rest>
//   kind  asm : emit through the Assembler with the logger attached
//         fa  : Formatter::format_instruction + format_operand, emitter = Assembler   (no emission)
//         fc  : the same with a Compiler attached (virtual registers, named labels)
//         fn  : the same with emitter = nullptr
//         fb  : the instruction is appended as a node to the Compiler and printed with Formatter::format_node
//   arch  x86|x64 : <rest> = <inst-name|#id> <opts-hex> <extra|-> <nops> <op>...      (vlib/x86gen.py operand tokens)
//         a64     : <rest> = <inst-name[.cc]|#id> <nops> <op>...                       (vlib/a64gen.py operand tokens)
//   register ids may be `v<k>` (virtual register k of the pool, kinds fc/fb), label operands `L:<a|n|g|l|x><k>` name pool labels.
// directives:  !vreg <arch> <k> <rtype> <name|->            create virtual register k (Compiler of <arch>)
//              !label <arch> <kindgroup a|c> <k> <a|n|g|l|x> <name|-> <parent-k|->   create pool label k (a = Assembler env, c = Compiler env)
#include <asmjit/core.h>
#include <asmjit/x86.h>
#include <asmjit/a64.h>
#include <asmjit/arm/a64instdb_p.h>
#include "vcommon.h"
#include <iostream>
#include <sstream>
#include <fstream>

using namespace asmjit;

struct CountingHandler : public ErrorHandler {
  int calls = 0;
  Error last = Error::kOk;
  void handle_error(Error err, const char*, BaseEmitter*) override { calls++; last = err; }
};

static std::vector<std::string> split(const std::string& s, char c) {
  std::vector<std::string> o; std::string cur;
  for (char ch : s) { if (ch == c) { o.push_back(cur); cur.clear(); } else cur += ch; }
  o.push_back(cur);
  return o;
}

static RegType reg_type_of(const std::string& s) {
  if (s == "gp8lo") return RegType::kGp8Lo;
  if (s == "gp8hi") return RegType::kGp8Hi;
  if (s == "gp16") return RegType::kGp16;
  if (s == "gp32") return RegType::kGp32;
  if (s == "gp64") return RegType::kGp64;
  if (s == "xmm") return RegType::kVec128;
  if (s == "ymm") return RegType::kVec256;
  if (s == "zmm") return RegType::kVec512;
  if (s == "mm") return RegType::kX86_Mm;
  if (s == "k") return RegType::kMask;
  if (s == "sreg") return RegType::kSegment;
  if (s == "creg") return RegType::kControl;
  if (s == "dreg") return RegType::kDebug;
  if (s == "st") return RegType::kX86_St;
  if (s == "bnd") return RegType::kX86_Bnd;
  if (s == "tmm") return RegType::kTile;
  if (s == "rip") return RegType::kPC;
  return RegType::kNone;
}

static TypeId type_id_of(const std::string& s) {
  if (s == "gp8lo" || s == "gp8hi") return TypeId::kInt8;
  if (s == "gp16") return TypeId::kInt16;
  if (s == "gp32" || s == "w") return TypeId::kInt32;
  if (s == "gp64" || s == "x") return TypeId::kInt64;
  if (s == "xmm" || s == "q") return TypeId::kInt32x4;
  if (s == "ymm") return TypeId::kInt32x8;
  if (s == "zmm") return TypeId::kInt32x16;
  if (s == "mm") return TypeId::kMmx64;
  if (s == "k") return TypeId::kMask64;
  if (s == "s") return TypeId::kFloat32;
  if (s == "d") return TypeId::kFloat64;
  return TypeId::kVoid;
}

static const uint64_t kBaseA64 = 0x40000000ull;

// One environment = one CodeHolder + one emitter (+ pools for the direct Formatter kinds).
struct Env {
  Arch arch = Arch::kX64;
  bool compiler = false;
  bool logging = false;
  CodeHolder code;
  x86::Assembler xa;
  a64::Assembler aa;
  x86::Compiler xc;
  a64::Compiler ac;
  StringLogger logger;
  CountingHandler eh;
  int n = 0;
  bool validate = true;
  std::map<int, Reg> vregs;
  std::map<std::string, Label> labels;   // "<kind><k>" -> label

  bool is_a64() const { return arch == Arch::kAArch64; }
  BaseEmitter* emitter() {
    if (compiler) return is_a64() ? (BaseEmitter*)&ac : (BaseEmitter*)&xc;
    return is_a64() ? (BaseEmitter*)&aa : (BaseEmitter*)&xa;
  }
  BaseAssembler* assembler() { return is_a64() ? (BaseAssembler*)&aa : (BaseAssembler*)&xa; }

  void init(Arch a, bool comp, bool log) { arch = a; compiler = comp; logging = log; reinit(); }
  void reinit() {
    code.reset(ResetPolicy::kHard);
    if (is_a64()) code.init(Environment(arch), kBaseA64); else code.init(Environment(arch));
    code.set_error_handler(&eh);
    if (logging) code.set_logger(&logger);
    code.attach(emitter());
    if (!compiler) {
      if (!is_a64() && validate) xa.add_diagnostic_options(DiagnosticOptions::kValidateAssembler);
      if (is_a64()) { for (int i = 0; i < 16; i++) aa.nop(); }
    }
    n = 0;
  }
};

static bool shift_op_of(const std::string& s, arm::ShiftOp* out) {
  static const char* names[] = { "lsl", "lsr", "asr", "ror", "rrx", "msl", "uxtb", "uxth", "uxtw", "uxtx", "sxtb", "sxth", "sxtw", "sxtx" };
  for (unsigned i = 0; i < 14; i++) if (s == names[i]) { *out = arm::ShiftOp(i); return true; }
  return false;
}

static a64::VecElementType et_of(const std::string& s) {
  if (s == "b") return a64::VecElementType::kB;
  if (s == "h") return a64::VecElementType::kH;
  if (s == "s") return a64::VecElementType::kS;
  if (s == "d") return a64::VecElementType::kD;
  if (s == "b4") return a64::VecElementType::kB4;
  if (s == "h2") return a64::VecElementType::kH2;
  return a64::VecElementType::kNone;
}

struct Parsed {
  Operand ops[6];
  int nops = 0;
  bool bad = false;
  bool has_vec = false;
  long l0 = -1;                 // id of the label bound immediately before the instruction (L:0 / ML / label base)
  std::vector<uint32_t> ln;     // ids of fresh unbound labels
};

// resolves a register id token: number or v<k>
static bool reg_id_of(Env& E, const std::string& s, uint32_t* out) {
  if (!s.empty() && s[0] == 'v') {
    auto it = E.vregs.find(atoi(s.c_str() + 1));
    if (it == E.vregs.end()) return false;
    *out = it->second.id();
    return true;
  }
  *out = (uint32_t)strtoul(s.c_str(), nullptr, 0);
  return true;
}

static bool label_of(Env& E, Parsed& P, const std::string& s, bool may_bind, Label* out) {
  if (!s.empty() && (s[0] < '0' || s[0] > '9')) {
    auto it = E.labels.find(s);
    if (it == E.labels.end()) return false;
    *out = it->second;
    return true;
  }
  int n = atoi(s.c_str());
  BaseEmitter* em = E.emitter();
  if (n == 0) {
    if (P.l0 < 0) {
      Label l = em->new_label();
      if (may_bind) em->bind(l);
      P.l0 = (long)l.id();
    }
    *out = Label(uint32_t(P.l0));
  }
  else {
    Label l = em->new_label();
    P.ln.push_back(l.id());
    *out = l;
  }
  return true;
}

static void parse_x86_ops(Env& E, std::istringstream& ss, int nops, bool may_bind, Parsed& P) {
  P.nops = nops;
  for (int i = 0; i < nops && i < 6; i++) {
    std::string tok; ss >> tok;
    std::vector<std::string> p = split(tok, ':');
    if (p[0] == "R" && p.size() >= 3) {
      uint32_t id; if (!reg_id_of(E, p[2], &id)) { P.bad = true; continue; }
      P.ops[i] = Reg::from_type_and_id(reg_type_of(p[1]), id);
    }
    else if (p[0] == "I" && p.size() >= 2) {
      P.ops[i] = Imm((int64_t)strtoll(p[1].c_str(), nullptr, 0));
      if (p[1].size() > 18 && p[1][0] != '-') P.ops[i] = Imm((uint64_t)strtoull(p[1].c_str(), nullptr, 0));
    }
    else if (p[0] == "L" && p.size() >= 2) {
      Label l; if (!label_of(E, P, p[1], may_bind, &l)) { P.bad = true; continue; }
      P.ops[i] = l;
    }
    else if (p[0] == "M" && p.size() >= 11) {
      uint32_t size = (uint32_t)strtoul(p[1].c_str(), nullptr, 0);
      std::string bt = p[2], it = p[4];
      uint32_t shift = (uint32_t)strtoul(p[6].c_str(), nullptr, 0);
      int64_t disp = strtoll(p[7].c_str(), nullptr, 0);
      if (p[7].size() > 18 && p[7][0] != '-') disp = (int64_t)strtoull(p[7].c_str(), nullptr, 0);
      uint32_t seg = (uint32_t)strtoul(p[8].c_str(), nullptr, 0);
      uint32_t bcst = (uint32_t)strtoul(p[9].c_str(), nullptr, 0);
      std::string addr = p[10];
      x86::Mem m;
      bool has_index = it != "none";
      uint32_t iid = 0, bid = 0;
      if (has_index && !reg_id_of(E, p[5], &iid)) { P.bad = true; continue; }
      Reg idx = has_index ? Reg::from_type_and_id(reg_type_of(it), iid) : Reg();
      if (bt == "none") {
        m = has_index ? x86::Mem(uint64_t(disp), idx, shift, size) : x86::Mem(uint64_t(disp), size);
      }
      else if (bt == "label") {
        Label l; if (!label_of(E, P, p[3], may_bind, &l)) { P.bad = true; continue; }
        m = has_index ? x86::Mem(l, idx, shift, int32_t(disp), size) : x86::Mem(l, int32_t(disp), size);
      }
      else {
        if (!reg_id_of(E, p[3], &bid)) { P.bad = true; continue; }
        Reg base = Reg::from_type_and_id(reg_type_of(bt), bid);
        m = has_index ? x86::Mem(base, idx, shift, int32_t(disp), size) : x86::Mem(base, int32_t(disp), size);
      }
      if (seg) m.set_segment(seg);
      if (bcst) m.set_broadcast(x86::Mem::Broadcast(bcst));
      if (addr == "abs") m.set_addr_abs();
      else if (addr == "rel") m.set_addr_rel();
      if (p.size() >= 12 && p[11] == "1") m.set_reg_home();
      P.ops[i] = m;
    }
    else P.bad = true;
  }
}

static void parse_a64_ops(Env& E, std::istringstream& ss, int nops, bool may_bind, uint64_t pc, Parsed& P) {
  P.nops = nops;
  for (int i = 0; i < nops && i < 6; i++) {
    std::string tok; ss >> tok;
    std::vector<std::string> p = split(tok, ':');
    const std::string& k = p[0];
    if (k == "G" && p.size() >= 3) {
      uint32_t rid; if (!reg_id_of(E, p[2], &rid)) { P.bad = true; continue; }
      P.ops[i] = p[1] == "w" ? a64::Gp::make_r32(rid) : a64::Gp::make_r64(rid);
    }
    else if (k == "V" && p.size() >= 3) {
      P.has_vec = true;
      uint32_t rid; if (!reg_id_of(E, p[2], &rid)) { P.bad = true; continue; }
      a64::Vec v;
      char t = p[1][0];
      v = t == 'b' ? a64::Vec::make_v8(rid) : t == 'h' ? a64::Vec::make_v16(rid) : t == 's' ? a64::Vec::make_v32(rid) :
          t == 'd' ? a64::Vec::make_v64(rid) : a64::Vec::make_v128(rid);
      if (p.size() >= 4 && p[3] != "-") v.set_element_type(et_of(p[3]));
      if (p.size() >= 5 && p[4] != "-") v.set_element_index((uint32_t)strtoul(p[4].c_str(), nullptr, 0));
      P.ops[i] = v;
    }
    else if (k == "I" && p.size() >= 2) P.ops[i] = Imm((int64_t)strtoll(p[1].c_str(), nullptr, 0));
    else if (k == "U" && p.size() >= 2) P.ops[i] = Imm((uint64_t)strtoull(p[1].c_str(), nullptr, 0));
    else if (k == "F" && p.size() >= 2) P.ops[i] = Imm(strtod(p[1].c_str(), nullptr));
    else if (k == "S" && p.size() >= 3) {
      arm::ShiftOp sop;
      if (!shift_op_of(p[1], &sop)) P.bad = true;
      else P.ops[i] = Imm(arm::Shift(sop, (uint32_t)strtoul(p[2].c_str(), nullptr, 0)));
    }
    else if (k == "M" && p.size() >= 4) {
      uint32_t bid; if (!reg_id_of(E, p[1], &bid)) { P.bad = true; continue; }
      int32_t off = (int32_t)strtoll(p[3].c_str(), nullptr, 0);
      a64::Mem m(a64::Gp::make_r64(bid), off);
      if (p[2] == "pre") m.make_pre_index();
      else if (p[2] == "post") m.make_post_index();
      P.ops[i] = m;
    }
    else if (k == "MX" && p.size() >= 7) {
      uint32_t bid, iid;
      if (!reg_id_of(E, p[1], &bid) || !reg_id_of(E, p[3], &iid)) { P.bad = true; continue; }
      a64::Gp idx = p[2] == "w" ? a64::Gp::make_r32(iid) : a64::Gp::make_r64(iid);
      a64::Mem m;
      if (p[4] == "-") m = a64::Mem(a64::Gp::make_r64(bid), idx);
      else {
        arm::ShiftOp sop;
        if (!shift_op_of(p[4], &sop)) P.bad = true;
        else m = a64::Mem(a64::Gp::make_r64(bid), idx, arm::Shift(sop, (uint32_t)strtoul(p[5].c_str(), nullptr, 0)));
      }
      if (p[6] == "pre") m.make_pre_index();
      else if (p[6] == "post") m.make_post_index();
      P.ops[i] = m;
    }
    else if (k == "ML" && p.size() >= 2) {
      Label l; if (!label_of(E, P, p.size() >= 3 ? p[2] : std::string("0"), may_bind, &l)) { P.bad = true; continue; }
      P.ops[i] = a64::Mem(l, (int32_t)strtoll(p[1].c_str(), nullptr, 0));
    }
    else if (k == "MA" && p.size() >= 2) {
      P.ops[i] = a64::Mem(uint64_t(pc + (uint64_t)strtoll(p[1].c_str(), nullptr, 0)));
    }
    else if (k == "L") {
      Label l; if (!label_of(E, P, p.size() >= 2 ? p[1] : std::string("0"), may_bind, &l)) { P.bad = true; continue; }
      P.ops[i] = l;
    }
    else if (k == "A" && p.size() >= 2) P.ops[i] = Imm(uint64_t(pc + (uint64_t)strtoll(p[1].c_str(), nullptr, 0)));
    else if (k == "AP" && p.size() >= 2) P.ops[i] = Imm(uint64_t((pc & ~uint64_t(4095)) + (uint64_t)strtoll(p[1].c_str(), nullptr, 0)));
    else P.bad = true;
  }
}

static std::string sstr(const String& s) { return std::string(s.data(), s.size()); }

int main(int argc, char** argv) {
  Args args(argc, argv);
  std::string in = args.str("cases", "-");
  bool validate = args.u64("validate", 1) != 0;

  // a64: name -> ids (one mnemonic for a GP and a SIMD id)
  std::map<std::string, std::vector<uint32_t>> by_name;
  for (uint32_t id = 1; id < a64::Inst::_kIdCount; id++) {
    String s;
    InstAPI::inst_id_to_string(Arch::kAArch64, id, InstStringifyOptions::kNone, s);
    by_name[sstr(s)].push_back(id);
  }
  if (args.has("names")) {
    for (auto& kv : by_name) {
      printf("%s", kv.first.c_str());
      for (uint32_t x : kv.second) printf(" %u", x);
      printf(" api=%u\n", InstAPI::string_to_inst_id(Arch::kAArch64, kv.first.c_str(), kv.first.size()));
    }
    return 0;
  }

  // environments: [arch 0..2][0 = emitting assembler with logger, 1 = assembler for Formatter calls, 2 = compiler]
  static Env envs[3][3];
  Arch archs[3] = { Arch::kX86, Arch::kX64, Arch::kAArch64 };
  bool inited[3][3] = {};
  auto env_of = [&](int ai, int ki) -> Env& {
    Env& E = envs[ai][ki];
    if (!inited[ai][ki]) { E.validate = validate; E.init(archs[ai], ki == 2, ki == 0); inited[ai][ki] = true; }
    return E;
  };
  auto arch_index = [](const std::string& a) { return a == "x86" ? 0 : a == "x64" ? 1 : a == "a64" ? 2 : -1; };

  std::istream* is = &std::cin;
  std::ifstream f;
  if (in != "-") { f.open(in); is = &f; }
  std::string line, out;
  out.reserve(1 << 20);
  auto flush = [&](bool force) { if (force || out.size() > (1 << 20)) { fwrite(out.data(), 1, out.size(), stdout); out.clear(); } };

  while (std::getline(*is, line)) {
    if (line.empty()) continue;
    std::istringstream ss(line);
    if (line[0] == '!') {
      std::string cmd, arch; ss >> cmd >> arch;
      int ai = arch_index(arch);
      if (ai < 0) { out += "{\"def\":\"bad\"}\n"; continue; }
      if (cmd == "!vreg") {
        int k; std::string rtype, name; ss >> k >> rtype >> name;
        Env& E = env_of(ai, 2);
        Reg r;
        BaseCompiler* cc = ai == 2 ? (BaseCompiler*)&E.ac : (BaseCompiler*)&E.xc;
        Error e = cc->_new_reg_with_name(Out<Reg>(r), type_id_of(rtype), name == "-" ? nullptr : name.c_str());
        E.vregs[k] = r;
        char b[256];
        snprintf(b, sizeof b, "{\"def\":\"vreg\",\"arch\":\"%s\",\"k\":%d,\"err\":%u,\"id\":%u,\"index\":%u,\"rtype\":%u}\n", arch.c_str(), k, unsigned(e), r.id(),
                 unsigned(Operand::virt_id_to_index(r.id())), unsigned(r.reg_type()));
        out += b;
      }
      else if (cmd == "!label") {
        std::string grp, kind, name, parent; int k; ss >> grp >> k >> kind >> name >> parent;
        Env& E = env_of(ai, grp == "c" ? 2 : 1);
        BaseEmitter* em = E.emitter();
        Label l;
        if (kind == "a") l = em->new_label();
        else {
          LabelType t = kind == "n" ? LabelType::kAnonymous : kind == "l" ? LabelType::kLocal : kind == "x" ? LabelType::kExternal : LabelType::kGlobal;
          uint32_t pid = Globals::kInvalidId;
          if (parent != "-") { auto it = E.labels.find(parent); if (it != E.labels.end()) pid = it->second.id(); }
          l = em->new_named_label(name.c_str(), name.size(), t, pid);
        }
        char key[32]; snprintf(key, sizeof key, "%s%d", kind.c_str(), k);
        E.labels[key] = l;
        char b[256];
        snprintf(b, sizeof b, "{\"def\":\"label\",\"arch\":\"%s\",\"grp\":\"%s\",\"key\":\"%s\",\"id\":%u,\"valid\":%d}\n", arch.c_str(), grp.c_str(), key, l.id(), int(l.is_valid()));
        out += b;
      }
      continue;
    }

    std::string id, kind, flags_s, arch;
    ss >> id >> kind >> flags_s >> arch;
    // layout of the logger line: <kind>@<indentation>,<padding of a regular line>,<padding of the machine code>,<inline comment 0|1|2>
    uint32_t lay_indent = 0, lay_pad = 0, lay_padmc = 0, lay_comment = 0;
    {
      size_t at = kind.find('@');
      if (at != std::string::npos) {
        std::vector<std::string> lp = split(kind.substr(at + 1), ',');
        kind = kind.substr(0, at);
        if (lp.size() >= 4) { lay_indent = (uint32_t)atoi(lp[0].c_str()); lay_pad = (uint32_t)atoi(lp[1].c_str()); lay_padmc = (uint32_t)atoi(lp[2].c_str()); lay_comment = (uint32_t)atoi(lp[3].c_str()); }
      }
    }
    std::string comment_text;
    if (lay_comment == 1) comment_text = "c20#" + id + " note";
    else if (lay_comment == 2) { comment_text = "c20#" + id + " "; while (comment_text.size() < 1100) comment_text += char('a' + comment_text.size() % 26); }
    int ai = arch_index(arch);
    int ki = kind == "asm" ? 0 : (kind == "fc" || kind == "fb") ? 2 : 1;
    if (ai < 0) { out += "{\"id\":" + id + ",\"parse\":1,\"res\":[]}\n"; continue; }
    Env& E = env_of(ai, ki);
    std::vector<uint32_t> flag_sets;
    for (auto& s : split(flags_s, ',')) flag_sets.push_back((uint32_t)strtoul(s.c_str(), nullptr, 16));
    std::string rest;
    std::getline(ss, rest);

    struct Res { std::vector<uint32_t> ff; std::string body; };
    std::vector<Res> results;
    uint32_t real_id = 0;
    int lookup_miss = 0, parse_bad = 0;

    // ---- directives: bind / align / embed / embed_data_array / embed_label / embed_label_delta / section / comment
    //      dir : on the logging Assembler (log text + bytes appended);  dirn : on the Compiler, the new nodes printed by Formatter::format_node
    if (kind == "dir" || kind == "dirn") {
      bool nodes = kind == "dirn";
      Env& D = env_of(ai, nodes ? 2 : 0);
      std::string out_rec = "{\"id\":" + id + ",\"parse\":0,\"res\":[";
      unsigned run = 0;
      for (uint32_t ff : flag_sets) {
        if (!nodes && ++D.n > 1500) D.reinit();
        std::istringstream rs(rest);
        std::string what; rs >> what;
        BaseEmitter* em = D.emitter();
        BaseAssembler* as = nodes ? nullptr : D.assembler();
        BaseBuilder* bb = nodes ? (ai == 2 ? (BaseBuilder*)&D.ac : (BaseBuilder*)&D.xc) : nullptr;
        D.logger.set_flags(FormatFlags(ff));
        D.logger.set_indentation(FormatIndentationGroup::kCode, lay_indent);
        D.logger.set_indentation(FormatIndentationGroup::kLabel, lay_indent);
        D.logger.set_padding(FormatPaddingGroup::kRegularLine, lay_pad);
        D.logger.set_padding(FormatPaddingGroup::kMachineCode, lay_padmc);
        std::vector<uint32_t> labs;
        Error err = Error::kOk;
        size_t off0 = 0;
        BaseNode* before = nullptr;
        bool bad = false;
        char sfx[24]; snprintf(sfx, sizeof sfx, "_%s_%u", id.c_str(), run++);
        auto mark = [&]() { D.logger.clear(); if (as) off0 = as->offset(); if (bb) before = bb->cursor(); D.eh.calls = 0; };
        mark();
        Section* back_to = nullptr;
        if (what == "bind") {
          std::string lk, name; rs >> lk >> name; name += sfx;
          Label l;
          if (lk == "a") l = em->new_label();
          else if (lk == "n") l = em->new_named_label(name.c_str(), name.size(), LabelType::kAnonymous);
          else if (lk == "g") l = em->new_named_label(name.c_str(), name.size(), LabelType::kGlobal);
          else if (lk == "l") {
            std::string pn = "p_" + name;
            Label p = em->new_named_label(pn.c_str(), pn.size(), LabelType::kGlobal);
            labs.push_back(p.id());
            l = em->new_named_label(name.c_str(), name.size(), LabelType::kLocal, p.id());
          }
          else bad = true;
          labs.insert(labs.begin(), l.id());
          mark();
          if (lay_comment && as) em->set_inline_comment(comment_text.c_str());     // (a Builder keeps a pending comment for the next instruction)
          if (!bad) err = em->bind(l);
        }
        else if (what == "align") {
          uint32_t mode = 0, n = 0; rs >> mode >> n;
          // an odd offset first, so that padding is needed
          uint8_t one = 0x90; if (as && (as->offset() % 2) == 0 && ai != 2) em->embed(&one, 1);
          mark();
          err = em->align(AlignMode(mode), n);
        }
        else if (what == "embed") {
          size_t n = 0; uint64_t seed = 0; rs >> n >> seed;
          Rng r(seed); std::vector<uint8_t> data(n ? n : 1); for (auto& x : data) x = uint8_t(r.next());
          err = em->embed(data.data(), n);
        }
        else if (what == "data") {
          uint32_t t = 0; size_t count = 0, rep = 0; uint64_t seed = 0; rs >> t >> count >> rep >> seed;
          Rng r(seed); std::vector<uint8_t> data(count * 64 + 64); for (auto& x : data) x = uint8_t(r.next());
          err = em->embed_data_array(TypeId(t), data.data(), count, rep);
        }
        else if (what == "elabel") {
          size_t size = 0; int bound = 0; rs >> size >> bound;
          Label l = em->new_label(); labs.push_back(l.id());
          if (bound) em->bind(l);
          mark();
          err = em->embed_label(l, size);
        }
        else if (what == "edelta") {
          size_t size = 0; int b1 = 0, b2 = 0; rs >> size >> b1 >> b2;
          Label l1 = em->new_label(), l2 = em->new_label(); labs.push_back(l1.id()); labs.push_back(l2.id());
          static const uint8_t pad[8] = { 0x90, 0x90, 0x90, 0x90, 0x90, 0x90, 0x90, 0x90 };
          if (b2) em->bind(l2);
          em->embed(pad, 8);
          if (b1) em->bind(l1);
          mark();
          err = em->embed_label_delta(l1, l2, size);
        }
        else if (what == "section") {
          std::string name; rs >> name; name += sfx; if (name.size() > 30) name.resize(30);
          Section* sec = nullptr;
          if (D.code.new_section(Out(sec), name.c_str(), name.size(), SectionFlags::kNone, 8, 0) != Error::kOk) bad = true;
          else { labs.push_back(sec->section_id()); mark(); err = em->section(sec); back_to = D.code.text_section(); }
        }
        else if (what == "comment") {
          std::string text; rs >> text;
          err = em->comment(text.c_str(), SIZE_MAX);
        }
        else bad = true;
        if (bad) parse_bad = 1;
        std::string text, bytes;
        if (as) {
          text = std::string(D.logger.data(), D.logger.data_size());
          if (!back_to && as->offset() > off0) bytes = hexstr(as->buffer_data() + off0, as->offset() - off0);
        }
        else if (bb) {
          // the nodes added after `before`, one line each
          FormatOptions fo; fo.set_flags(FormatFlags(ff));
          fo.set_padding(FormatPaddingGroup::kRegularLine, lay_pad);
          std::vector<BaseNode*> added;
          if (what == "section") { if (bb->cursor()) added.push_back(bb->cursor()); }       // (section() moves the cursor to the end of that section)
          else for (BaseNode* n = bb->cursor(); n && n != before; n = n->prev()) added.insert(added.begin(), n);
          // an inline comment on the node itself (every node kind can carry one)
          if (lay_comment && what != "comment" && added.size() == 1 && err == Error::kOk) added[0]->set_inline_comment(comment_text.c_str());
          for (BaseNode* n : added) { String sb; Formatter::format_node(sb, fo, bb, n); text += sstr(sb); text += "\n"; }
        }
        if (em->inline_comment()) em->reset_inline_comment();
        if (back_to) em->section(back_to);
        char head[200];
        snprintf(head, sizeof head, "%s{\"ff\":[%u],\"err\":%u,\"h\":%d,\"off0\":%zu,\"bytes\":\"", run > 1 ? "," : "", ff, unsigned(err), D.eh.calls, off0);
        out_rec += head; out_rec += bytes; out_rec += "\",\"lab\":[";
        for (size_t i = 0; i < labs.size(); i++) { if (i) out_rec += ","; out_rec += std::to_string(labs[i]); }
        out_rec += "],\"log\":" + jstr(text) + "}";
      }
      out_rec += "]}\n";
      if (parse_bad) out_rec = "{\"id\":" + id + ",\"parse\":1,\"res\":[]}\n";
      out += out_rec;
      flush(false);
      continue;
    }

    for (uint32_t ff : flag_sets) {
      if (ki == 0 && ++E.n > 1500) E.reinit();
      std::istringstream rs(rest);
      Parsed P;
      InstId inst_id = 0;
      uint32_t opts = 0;
      Reg extra_reg;
      bool has_extra = false;
      uint64_t pc = 0;
      if (ai < 2) {
        std::string name, opts_s, extra_s; int nops = 0;
        rs >> name >> opts_s >> extra_s >> nops;
        if (name[0] == '#') inst_id = (InstId)strtoul(name.c_str() + 1, nullptr, 0);
        else inst_id = InstAPI::string_to_inst_id(archs[ai], name.c_str(), name.size());
        real_id = inst_id;
        parse_x86_ops(E, rs, nops, ki == 0, P);
        opts = (uint32_t)strtoul(opts_s.c_str(), nullptr, 16);
        if (extra_s != "-") {
          std::vector<std::string> p = split(extra_s, ':');
          uint32_t xid = 0;
          if (p.size() >= 2 && reg_id_of(E, p[1], &xid)) { extra_reg = Reg::from_type_and_id(reg_type_of(p[0]), xid); has_extra = true; }
          else P.bad = true;
        }
      }
      else {
        std::string name; int nops = 0;
        rs >> name >> nops;
        if (ki == 0) pc = kBaseA64 + E.aa.offset();
        parse_a64_ops(E, rs, nops, ki == 0, pc, P);
        // the position only matters to (and is only reported for) operands given relative to it
        if (rest.find(" A:") == std::string::npos && rest.find(" AP:") == std::string::npos && rest.find(" MA:") == std::string::npos) pc = 0;
        uint32_t cc = 0;
        std::string base = name;
        size_t dot = name.find('.');
        if (dot != std::string::npos) { base = name.substr(0, dot); cc = (uint32_t)strtoul(name.c_str() + dot + 1, nullptr, 0); }
        if (base[0] == '#') inst_id = (InstId)strtoul(base.c_str() + 1, nullptr, 0);
        else {
          InstId api_id = InstAPI::string_to_inst_id(Arch::kAArch64, base.c_str(), base.size());
          inst_id = api_id;
          auto it = by_name.find(base);
          if (it != by_name.end()) {
            const std::vector<uint32_t>& ids = it->second;
            bool found = false;
            for (uint32_t x : ids) if (x == api_id) found = true;
            if (!found) lookup_miss = 1;
            else if (ids.size() > 1) inst_id = P.has_vec ? ids.back() : ids.front();
          }
        }
        real_id = inst_id;
        if (cc) inst_id = BaseInst::compose_arm_inst_id(inst_id, arm::CondCode(cc));
      }
      if (P.bad) parse_bad = 1;

      Error err = Error::kOk;
      std::string bytes, text;
      std::vector<std::string> optexts;
      E.eh.calls = 0;
      if (kind == "asm") {
        BaseAssembler* a = E.assembler();
        E.logger.set_flags(FormatFlags(ff));
        E.logger.set_indentation(FormatIndentationGroup::kCode, lay_indent);
        E.logger.set_padding(FormatPaddingGroup::kRegularLine, lay_pad);
        E.logger.set_padding(FormatPaddingGroup::kMachineCode, lay_padmc);
        if (lay_comment) a->set_inline_comment(comment_text.c_str());
        if (has_extra) a->set_extra_reg(extra_reg);
        a->set_inst_options(InstOptions(opts));
        size_t off0 = a->offset();
        E.logger.clear();
        if (P.bad) err = Error::kInvalidArgument;
        else if (real_id == 0) err = Error::kInvalidInstruction;
        else err = a->emit_op_array(inst_id, P.ops, (size_t)P.nops);
        size_t off1 = a->offset();
        if (uint32_t(a->inst_options()) != 0 || a->extra_reg().is_reg() || a->inline_comment() != nullptr) { a->reset_inst_options(); a->reset_extra_reg(); a->reset_inline_comment(); }
        if (off1 > off0) bytes = hexstr(a->buffer_data() + off0, off1 - off0);
        text = std::string(E.logger.data(), E.logger.data_size());
      }
      else if (kind == "fb") {
        BaseCompiler* cc = ai == 2 ? (BaseCompiler*)&E.ac : (BaseCompiler*)&E.xc;
        BaseNode* before = cc->cursor();
        if (has_extra) cc->set_extra_reg(extra_reg);
        cc->set_inst_options(InstOptions(opts));
        if (P.bad || real_id == 0) err = Error::kInvalidArgument;
        else err = cc->emit_op_array(inst_id, P.ops, (size_t)P.nops);
        cc->reset_inst_options(); cc->reset_extra_reg();
        BaseNode* node = cc->cursor();
        if (err == Error::kOk && node && node != before) {
          uint32_t pos = 1u + (uint32_t)(fnv1a(rest.data(), rest.size()) % 99990u);
          node->set_position(NodePosition(pos));
          FormatOptions fo; fo.set_flags(FormatFlags(ff));
          String sb;
          err = Formatter::format_node(sb, fo, cc, node);
          text = sstr(sb);
          char pb[32]; snprintf(pb, sizeof pb, "%u", pos); optexts.push_back(pb);
          // the node stays in the list (removing jump nodes needs a function context); it is never serialized
        }
        else if (err == Error::kOk) err = Error::kInvalidState;
      }
      else {
        const BaseEmitter* em = kind == "fn" ? nullptr : E.emitter();
        BaseInst bi(inst_id, InstOptions(opts));
        if (has_extra) bi = BaseInst(inst_id, InstOptions(opts), extra_reg);
        if (P.bad) err = Error::kInvalidArgument;
        else if (real_id == 0) err = Error::kInvalidInstruction;
        else {
          String sb;
          err = Formatter::format_instruction(sb, FormatFlags(ff), em, archs[ai], bi, Span<const Operand_>(P.ops, (size_t)P.nops));
          text = sstr(sb);
          for (int i = 0; i < P.nops && i < 6; i++) {
            String ob;
            Formatter::format_operand(ob, FormatFlags(ff), em, archs[ai], P.ops[i]);
            optexts.push_back(sstr(ob));
          }
        }
      }

      char head[256];
      snprintf(head, sizeof head, "\"err\":%u,\"h\":%d,\"l0\":%ld,\"pc\":%llu,\"bytes\":\"", unsigned(err), E.eh.calls, P.l0, (unsigned long long)pc);
      std::string body = head;
      body += bytes;
      body += "\",\"ln\":[";
      for (size_t i = 0; i < P.ln.size(); i++) { if (i) body += ","; body += std::to_string(P.ln[i]); }
      body += "],\"log\":" + jstr(text);
      if (!optexts.empty()) {
        body += ",\"ops\":[";
        for (size_t i = 0; i < optexts.size(); i++) { if (i) body += ","; body += jstr(optexts[i]); }
        body += "]";
      }
      bool merged = false;
      for (auto& r : results) if (r.body == body) { r.ff.push_back(ff); merged = true; break; }
      if (!merged) results.push_back(Res{ { ff }, body });
    }

    out += "{\"id\":" + id + ",\"inst\":" + std::to_string(real_id) + ",\"miss\":" + std::to_string(lookup_miss) + ",\"parse\":" + std::to_string(parse_bad) + ",\"res\":[";
    for (size_t i = 0; i < results.size(); i++) {
      if (i) out += ",";
      out += "{\"ff\":[";
      for (size_t j = 0; j < results[i].ff.size(); j++) { if (j) out += ","; out += std::to_string(results[i].ff[j]); }
      out += "]," + results[i].body + "}";
    }
    out += "]}\n";
    flush(false);
  }
  flush(true);
  return 0;
}
