// Generic x86/x64 emit driver (C01/C13/C14/C20): reads case lines, calls the public emitter API, reports what happened.
// No oracle logic here beyond recording; oracles live in vlib/*.py.
//
// case line: <id> <arch> <inst-name|#id> <opts-hex> <extra|-> <nops> <op>... [eo=<EncodingOptions hex>]
// (eo applies to this one case: the options are added before the call and cleared after it)
// [base=<hex>|none pad=<n>]: the case is assembled alone in a CodeHolder initialised with this base address (a holder of
// its own per base, reset before the case), after <n> bytes of padding; the record then carries "off" (offset of the
// instruction in the section), so that the oracle can compute the address a RIP-relative operand designates.
#include <asmjit/core.h>
#include <asmjit/x86.h>
#include <asmjit/a64.h>
#include "vcommon.h"
#include <iostream>
#include <sstream>
#include <fstream>
#include <map>

using namespace asmjit;

struct CountingHandler : public ErrorHandler {
  int calls = 0;
  Error last = Error::kOk;
  std::string msg;
  bool do_throw = false;
  void handle_error(Error err, const char* message, BaseEmitter*) override {
    calls++; last = err; msg = message ? message : "";
    if (do_throw) throw int(err);
  }
};

static RegType reg_type_of(const std::string& s) {
  if (s == "gp8lo") return RegType::kGp8Lo;
  if (s == "gp8hi") return RegType::kGp8Hi;
  if (s == "gp16") return RegType::kGp16;
  if (s == "gp32") return RegType::kGp32;
  if (s == "gp64") return RegType::kGp64;
  if (s == "xmm") return RegType::kVec128;
  if (s == "ymm") return RegType::kVec256;
  if (s == "zmm") return RegType::kVec512;
  if (s == "mm") return RegType::kX86_Mm;
  if (s == "k") return RegType::kMask;
  if (s == "sreg") return RegType::kSegment;
  if (s == "creg") return RegType::kControl;
  if (s == "dreg") return RegType::kDebug;
  if (s == "st") return RegType::kX86_St;
  if (s == "bnd") return RegType::kX86_Bnd;
  if (s == "tmm") return RegType::kTile;
  if (s == "rip") return RegType::kPC;
  return RegType::kNone;
}

static std::vector<std::string> split(const std::string& s, char c) {
  std::vector<std::string> o; std::string cur;
  for (char ch : s) { if (ch == c) { o.push_back(cur); cur.clear(); } else cur += ch; }
  o.push_back(cur);
  return o;
}

struct Env;
static Env* g_shared_current = nullptr;   // --shared-emitter: the Env whose CodeHolder the one assembler is attached to

enum EmitterKind { kAsm = 0, kBuilder = 1, kCompiler = 2 };

struct Env {
  Environment env;
  CodeHolder code;
  x86::Assembler a;
  x86::Assembler* ap = &a;   // --shared-emitter: both Envs point to the same object, re-attached when the mode changes
  // --emitter builder|compiler: the instruction is only appended as a node (no bytes); what is observed is the verdict of
  // DiagnosticOptions::kValidateIntermediate. The compiler replaces GP / vector / mask / MMX registers by virtual ones.
  x86::Builder b;
  x86::Compiler cc;
  int kind = kAsm;
  BaseEmitter* em() { return kind == kBuilder ? static_cast<BaseEmitter*>(&b) : kind == kCompiler ? static_cast<BaseEmitter*>(&cc) : static_cast<BaseEmitter*>(ap); }
  bool shared = false;
  StringLogger logger;
  CountingHandler eh;
  int cases_since_reset = 0;
  bool validate = true;
  uint32_t format_flags = 0;
  bool use_logger = false;

  uint64_t base = Globals::kNoBaseAddress;
  void init(Arch arch) {
    env = Environment(arch);
    reinit();
  }
  void reinit() {
    code.reset(ResetPolicy::kHard);
    code.init(env, base);
    code.set_error_handler(&eh);
    if (use_logger) {
      logger.set_flags(FormatFlags(format_flags));
      code.set_logger(&logger);
    }
    if (kind != kAsm) {
      code.attach(em());
      if (validate) em()->add_diagnostic_options(DiagnosticOptions::kValidateIntermediate);
    }
    else if (!shared || g_shared_current == this) {
      code.attach(ap);
      if (validate) ap->add_diagnostic_options(DiagnosticOptions::kValidateAssembler);
    }
    cases_since_reset = 0;
  }
  // --shared-emitter: detach the assembler from the other mode's holder and attach it here
  void use() {
    if (!shared || g_shared_current == this) return;
    if (g_shared_current) g_shared_current->code.detach(ap);
    g_shared_current = this;
    code.attach(ap);
    if (validate) ap->add_diagnostic_options(DiagnosticOptions::kValidateAssembler);
  }
};

int main(int argc, char** argv) {
  Args args(argc, argv);
  std::string in = args.str("cases", "-");
  bool validate = args.u64("validate", 1) != 0;
  bool use_logger = args.u64("log", 0) != 0;
  uint32_t format_flags = (uint32_t)args.u64("format-flags", 0);
  bool thrower = args.u64("throw", 0) != 0;

  bool api_validate = args.u64("api-validate", 0) != 0;
  if (args.u64("names", 0)) {
    // name round trip over every instruction id of an architecture (and its alias spellings)
    struct { Arch arch; const char* n; uint32_t count; } archs[] = {
      { Arch::kX64, "x64", x86::Inst::_kIdCount }, { Arch::kX86, "x86", x86::Inst::_kIdCount }, { Arch::kAArch64, "a64", 0 } };
    archs[2].count = a64::Inst::_kIdCount;
    for (auto& A : archs) {
      for (uint32_t id = 1; id < A.count; id++) {
        for (int alias = 0; alias < 2; alias++) {
          String s;
          Error e = InstAPI::inst_id_to_string(A.arch, id, alias ? InstStringifyOptions::kAliases : InstStringifyOptions::kNone, s);
          InstId back = e == Error::kOk ? InstAPI::string_to_inst_id(A.arch, s.data(), s.size()) : 0;
          String s2;
          if (back) InstAPI::inst_id_to_string(A.arch, back, alias ? InstStringifyOptions::kAliases : InstStringifyOptions::kNone, s2);
          printf("{\"arch\":\"%s\",\"id\":%u,\"alias\":%d,\"err\":%u,\"name\":%s,\"back\":%u,\"back_name\":%s}\n", A.n, id, alias, unsigned(e), jstr(std::string(s.data(), s.size())).c_str(), unsigned(back), jstr(std::string(s2.data(), s2.size())).c_str());
        }
      }
    }
    return 0;
  }

  Env envs[2];
  bool shared_emitter = args.u64("shared-emitter", 0) != 0;
  std::string emitter = args.str("emitter", "asm");
  int kind = emitter == "builder" ? kBuilder : emitter == "compiler" ? kCompiler : kAsm;
  if (kind != kAsm) shared_emitter = false;
  for (int i = 0; i < 2; i++) {
    envs[i].kind = kind;
    if (shared_emitter) { envs[i].shared = true; envs[i].ap = &envs[0].a; }
    envs[i].validate = validate;
    envs[i].use_logger = use_logger;
    envs[i].format_flags = format_flags;
    envs[i].eh.do_throw = thrower;
    envs[i].init(i == 0 ? Arch::kX86 : Arch::kX64);
  }

  std::map<std::pair<int, uint64_t>, Env*> based_envs;
  std::istream* is = &std::cin;
  std::ifstream f;
  if (in != "-") { f.open(in); is = &f; }
  std::string line;
  std::string out;
  out.reserve(1 << 20);
  while (std::getline(*is, line)) {
    if (line.empty()) continue;
    std::istringstream ss(line);
    std::string id, arch, name, opts_s, extra_s; int nops = 0;
    ss >> id >> arch >> name >> opts_s >> extra_s >> nops;
    Env* Ep = &envs[arch == "x64" ? 1 : 0];
    // base= / pad=: a holder of its own with a known (or explicitly unknown) base address, reset for this case
    bool based = false; size_t pad = 0;
    {
      size_t bp = line.find(" base=");
      if (bp != std::string::npos && kind == kAsm && !shared_emitter) {
        based = true;
        std::string bv = line.substr(bp + 6, line.find(' ', bp + 6) == std::string::npos ? std::string::npos : line.find(' ', bp + 6) - (bp + 6));
        uint64_t base = bv == "none" ? Globals::kNoBaseAddress : strtoull(bv.c_str(), nullptr, 16);
        size_t pp = line.find(" pad=");
        if (pp != std::string::npos) pad = (size_t)strtoull(line.c_str() + pp + 5, nullptr, 10);
        std::pair<int, uint64_t> key(arch == "x64" ? 1 : 0, base);
        auto it = based_envs.find(key);
        if (it == based_envs.end()) {
          Env* ne = new Env();
          ne->kind = kind; ne->validate = validate; ne->use_logger = use_logger; ne->format_flags = format_flags; ne->eh.do_throw = thrower;
          ne->base = base;
          ne->init(arch == "x64" ? Arch::kX64 : Arch::kX86);
          it = based_envs.insert(std::make_pair(key, ne)).first;
        }
        else it->second->reinit();
        if (pad) { std::string nops(pad, char(0x90)); it->second->ap->embed(nops.data(), nops.size()); }
        Ep = it->second;
      }
    }
    Env& E = *Ep;
    if (!based && ++E.cases_since_reset > 1500) E.reinit();
    E.use();
    BaseEmitter& a = *E.em();
    Arch A = arch == "x64" ? Arch::kX64 : Arch::kX86;
    // compiler: one virtual register per (register group, physical id) of the case, viewed through the operand's own type
    std::map<uint32_t, uint32_t> vmap;
    auto virt = [&](const Reg& r) -> Reg {
      if (kind != kCompiler) return r;
      Reg ref;
      uint32_t group;
      switch (r.reg_type()) {
        case RegType::kGp8Lo: case RegType::kGp16: case RegType::kGp32: case RegType::kGp64:
          group = 0; ref = A == Arch::kX64 ? Reg(x86::rax) : Reg(x86::eax); break;
        case RegType::kVec128: case RegType::kVec256: case RegType::kVec512:
          group = 1; ref = Reg::from_type_and_id(r.reg_type(), 0); break;
        case RegType::kMask: group = 2; ref = x86::k0; break;
        case RegType::kX86_Mm: group = 3; ref = x86::mm0; break;
        default: return r;
      }
      if (r.reg_type() == RegType::kGp64 && A != Arch::kX64) return r;
      uint32_t key = (group << 8) | r.id();
      auto it = vmap.find(key);
      if (it == vmap.end()) {
        Reg out;
        if (E.cc._new_reg(Out<Reg>(out), ref) != Error::kOk) return r;
        it = vmap.insert(std::make_pair(key, out.id())).first;
      }
      return Reg::from_type_and_id(r.reg_type(), it->second);
    };

    InstId inst_id;
    if (name[0] == '#') inst_id = (InstId)strtoul(name.c_str() + 1, nullptr, 0);
    else inst_id = InstAPI::string_to_inst_id(A, name.c_str(), name.size());

    Operand ops[6];
    bool bad = false;
    Label self_label;
    for (int i = 0; i < nops && i < 6; i++) {
      std::string tok; ss >> tok;
      std::vector<std::string> p = split(tok, ':');
      if (p[0] == "R") {
        ops[i] = virt(Reg::from_type_and_id(reg_type_of(p[1]), (uint32_t)strtoul(p[2].c_str(), nullptr, 0)));
      }
      else if (p[0] == "I") {
        ops[i] = Imm((int64_t)strtoll(p[1].c_str(), nullptr, 0));
        if (p[1].size() > 18 && p[1][0] != '-') ops[i] = Imm((uint64_t)strtoull(p[1].c_str(), nullptr, 0));
      }
      else if (p[0] == "L") {
        int n = atoi(p[1].c_str());
        if (n == 0) {
          if (!self_label.is_valid()) { self_label = a.new_label(); a.bind(self_label); }
          ops[i] = self_label;
        }
        else ops[i] = a.new_label();
      }
      else if (p[0] == "M") {
        // M:size:basetype:baseid:indextype:indexid:shift:disp:seg:bcst:addr
        uint32_t size = (uint32_t)strtoul(p[1].c_str(), nullptr, 0);
        std::string bt = p[2]; uint32_t bid = (uint32_t)strtoul(p[3].c_str(), nullptr, 0);
        std::string it = p[4]; uint32_t iid = (uint32_t)strtoul(p[5].c_str(), nullptr, 0);
        uint32_t shift = (uint32_t)strtoul(p[6].c_str(), nullptr, 0);
        int64_t disp = strtoll(p[7].c_str(), nullptr, 0);
        uint32_t seg = (uint32_t)strtoul(p[8].c_str(), nullptr, 0);
        uint32_t bcst = (uint32_t)strtoul(p[9].c_str(), nullptr, 0);
        std::string addr = p[10];
        x86::Mem m;
        bool has_index = it != "none";
        Reg idx = has_index ? virt(Reg::from_type_and_id(reg_type_of(it), iid)) : Reg();
        if (bt == "none") {
          m = has_index ? x86::Mem(uint64_t(disp), idx, shift, size) : x86::Mem(uint64_t(disp), size);
        }
        else if (bt == "label") {
          if (!self_label.is_valid()) { self_label = a.new_label(); a.bind(self_label); }
          m = has_index ? x86::Mem(self_label, idx, shift, int32_t(disp), size) : x86::Mem(self_label, int32_t(disp), size);
        }
        else {
          Reg base = virt(Reg::from_type_and_id(reg_type_of(bt), bid));
          m = has_index ? x86::Mem(base, idx, shift, int32_t(disp), size) : x86::Mem(base, int32_t(disp), size);
        }
        if (seg) m.set_segment(seg);
        if (bcst) m.set_broadcast(x86::Mem::Broadcast(bcst));
        if (addr == "abs") m.set_addr_abs();
        else if (addr == "rel") m.set_addr_rel();
        ops[i] = m;
      }
      else bad = true;
    }

    uint32_t eo = 0;
    { std::string tok; while (ss >> tok) if (tok.compare(0, 3, "eo=") == 0) eo = (uint32_t)strtoul(tok.c_str() + 3, nullptr, 16); }
    if (eo) a.add_encoding_options(EncodingOptions(eo));

    uint32_t opts = (uint32_t)strtoul(opts_s.c_str(), nullptr, 16);
    Reg extra_reg;
    if (extra_s != "-") {
      std::vector<std::string> p = split(extra_s, ':');
      extra_reg = Reg::from_type_and_id(reg_type_of(p[0]), (uint32_t)strtoul(p[1].c_str(), nullptr, 0));
      a.set_extra_reg(extra_reg);
    }
    a.set_inst_options(InstOptions(opts));
    int verr = -1;
    if (api_validate && !bad) {
      BaseInst bi(inst_id, InstOptions(opts));
      if (extra_s != "-") bi = BaseInst(inst_id, InstOptions(opts), extra_reg);
      verr = int(InstAPI::validate(A, bi, ops, (size_t)nops, ValidationFlags::kNone));
    }

    size_t off0 = kind == kAsm ? E.ap->offset() : 0;
    size_t labels0 = E.code.label_count();
    size_t fix0 = E.code.unresolved_fixup_count();
    size_t rel0 = E.code.reloc_entries().size();
    size_t sec0 = E.code.section_count();
    E.eh.calls = 0; E.eh.last = Error::kOk;
    E.logger.clear();
    Error err = Error::kOk;
    bool threw = false;
    if (bad) err = Error::kInvalidArgument;
    else {
      try { err = a.emit_op_array(inst_id, ops, (size_t)nops); }
      catch (int e) { threw = true; err = Error(e); }
    }
    size_t off1 = kind == kAsm ? E.ap->offset() : 0;
    if (eo) a.clear_encoding_options(EncodingOptions(eo));
    bool oneshot_left = uint32_t(a.inst_options()) != 0 || a.extra_reg().is_reg() || a.inline_comment() != nullptr;
    if (oneshot_left) { a.reset_inst_options(); a.reset_extra_reg(); a.reset_inline_comment(); }

    char head[256];
    snprintf(head, sizeof head, "{\"id\":%s,\"err\":%u,\"h\":%d,\"threw\":%d,\"oneshot\":%d,\"dl\":%zu,\"df\":%zu,\"dr\":%zu,\"ds\":%zu,\"bytes\":\"",
             id.c_str(), unsigned(err), E.eh.calls, int(threw), int(oneshot_left),
             E.code.label_count() - labels0, E.code.unresolved_fixup_count() - fix0,
             E.code.reloc_entries().size() - rel0, E.code.section_count() - sec0);
    out += head;
    if (off1 > off0) out += hexstr(E.ap->buffer_data() + off0, off1 - off0);
    out += "\"";
    if (off1 < off0) out += ",\"shrunk\":1";
    if (based) { char ob[48]; snprintf(ob, sizeof ob, ",\"off\":%zu", off0); out += ob; }
    if (api_validate) { char vb[64]; snprintf(vb, sizeof vb, ",\"v\":%d,\"iid\":%u", verr, unsigned(inst_id)); out += vb; }
    if (use_logger) { out += ",\"log\":"; out += jstr(std::string(E.logger.data(), E.logger.data_size())); }
    out += "}\n";
    if (out.size() > (1 << 20)) { fwrite(out.data(), 1, out.size(), stdout); out.clear(); }
  }
  fwrite(out.data(), 1, out.size(), stdout);
  for (auto& kv : based_envs) delete kv.second;
  return 0;
}
