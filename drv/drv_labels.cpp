// C03 / C04 driver: label programs and absolute-reference programs run against the real CodeHolder / Assembler code,
// observed by an independent oracle. Harness code; asmjit is only called through its public API.
//
//   --mode c03   random label programs (x86-32, x86-64, AArch64): every reference site is decoded with our own per-format
//                field extractor and compared with target - anchor + addend computed from offset() snapshots taken at the
//                API boundary; a shadow model of pending / cross-section fixups is compared with unresolved_fixup_count()
//                after every single API call.
//   --mode exec  x86-64 programs made of jumps/calls/indirect jumps through label tables are executed natively (forked
//                child); the marker trace must equal the control flow the generator intended.
//   --mode c04   programs with absolute references, assembled twice (base known at init / base given to relocate_to_base)
//                for a list of base addresses; the flattened image is evaluated by our own evaluator.
//   --mode jit   JitRuntime::add: installed bytes == independently relocated image; the code is then called and reaches
//                C functions of this driver through rel32 or the address table.
#include <asmjit/x86.h>
#include <asmjit/a64.h>
#include "vcommon.h"
#include <algorithm>
#include <memory>
#include <signal.h>
#include <stdarg.h>
#include <functional>
#include <sys/mman.h>
#include <sys/wait.h>
#include <unistd.h>

using namespace asmjit;
typedef unsigned long long ull;
typedef long long sll;

// ---------------------------------------------------------------------------------------------------------
// Results
// ---------------------------------------------------------------------------------------------------------

struct Violation { std::string key, what; uint64_t prog; uint64_t count; };
static std::vector<Violation> g_viol;
static std::map<std::string, size_t> g_viol_ix;
static uint64_t g_prog = 0;
static std::string g_prog_desc;
static bool g_verbose = false;
static std::map<std::string, uint64_t> CNT;
static std::map<std::string, uint64_t> MAXC;
static std::set<std::string> g_classes;       // distinct evidence classes
static std::vector<std::string> g_samples;    // human readable samples
static std::vector<std::string> g_decode;     // JSON records for the independent decoders (python side)
static size_t g_decode_cap = 60;

static void viol(const std::string& key, const std::string& what) {
  auto it = g_viol_ix.find(key);
  if (it != g_viol_ix.end()) { g_viol[it->second].count++; return; }
  g_viol_ix[key] = g_viol.size();
  g_viol.push_back(Violation{key, what + " | program " + std::to_string(g_prog) + ": " + g_prog_desc, g_prog, 1});
  if (g_verbose) fprintf(stderr, "VIOL %s: %s\n", key.c_str(), what.c_str());
}
static void maxc(const char* k, uint64_t v) { uint64_t& m = MAXC[k]; if (v > m) m = v; }

[[noreturn]] static void harness_fail(const std::string& msg) {
  fprintf(stderr, "HARNESS-FAIL program=%llu: %s\n", (ull)g_prog, msg.c_str());
  exit(3);
}
static std::string fmt(const char* f, ...) __attribute__((format(printf, 1, 2)));
static std::string fmt(const char* f, ...) {
  char b[2048]; va_list ap; va_start(ap, f); vsnprintf(b, sizeof b, f, ap); va_end(ap); return b;
}
static const char* errname(Error e) { return DebugUtils::error_as_string(e); }

#if defined(__SANITIZE_ADDRESS__)
#include <sanitizer/asan_interface.h>
static void on_asan_death() { fprintf(stderr, "@asan-death program=%llu desc=%s\n", (ull)g_prog, g_prog_desc.c_str()); }
#endif

// ---------------------------------------------------------------------------------------------------------
// Little helpers
// ---------------------------------------------------------------------------------------------------------

static inline uint64_t rd(const uint8_t* p, int n) { uint64_t v = 0; for (int i = 0; i < n; i++) v |= uint64_t(p[i]) << (8 * i); return v; }
static inline int64_t sx(uint64_t v, int bits) {
  if (bits >= 64) return int64_t(v);
  uint64_t m = 1ull << (bits - 1);
  v &= (1ull << bits) - 1;
  return int64_t((v ^ m) - m);
}
static inline uint64_t align_up(uint64_t v, uint64_t a) { return a <= 1 ? v : (v + a - 1) & ~(a - 1); }

enum { A_X64 = 0, A_X86 = 1, A_A64 = 2 };
static const char* kArchName[] = { "x64", "x86", "a64" };
static Arch arch_of(int a) { return a == A_X64 ? Arch::kX64 : a == A_X86 ? Arch::kX86 : Arch::kAArch64; }

// A big read-only zero region used as the source of filler (never touched -> stays the shared zero page).
static const uint8_t* g_zero = nullptr;
static size_t g_zero_size = 0;
static uint8_t g_int3[1 << 16];
static void init_zero() {
  g_zero_size = size_t(2304) << 20;
  void* p = mmap(nullptr, g_zero_size, PROT_READ, MAP_PRIVATE | MAP_ANONYMOUS | MAP_NORESERVE, -1, 0);
  if (p == MAP_FAILED) harness_fail("mmap zero region");
  g_zero = static_cast<const uint8_t*>(p);
  memset(g_int3, 0xCC, sizeof g_int3);
}

// memcpy(dst, nullptr, 0) inside copy_flattened_data / JitRuntime::add for a section that never got a buffer is C10's
// business (UBSan would stop this driver): give every empty section a buffer first.
static void materialize_null_buffers(CodeHolder& code) {
  for (Section* sec : code.sections()) {
    if (sec->buffer().is_allocated()) continue;
    if (code.reserve_buffer(&sec->buffer(), 8) != Error::kOk) harness_fail("reserve_buffer");
  }
}

// ---------------------------------------------------------------------------------------------------------
// Our own field extractors (written from the architecture manuals; nothing of asmjit in here)
// ---------------------------------------------------------------------------------------------------------

enum Fmt { F_NONE = 0, F_REL8, F_REL32, F_ABS32, F_ABS64, F_DELTA, F_IMM26, F_IMM19, F_IMM14, F_ADR, F_ADRP, F_MOFFS, F_SLOT };
static const char* kFmtName[] = { "none", "rel8", "rel32", "abs32", "abs64", "delta", "imm26", "imm19", "imm14", "adr", "adrp", "moffs", "slot" };

static bool fits(int f, int64_t v) {
  switch (f) {
    case F_REL8:  return v >= -128 && v <= 127;
    case F_REL32: return v >= INT32_MIN && v <= INT32_MAX;
    case F_IMM26: return !(v & 3) && v >= -(1ll << 27) && v < (1ll << 27);
    case F_IMM19: return !(v & 3) && v >= -(1ll << 20) && v < (1ll << 20);
    case F_IMM14: return !(v & 3) && v >= -(1ll << 15) && v < (1ll << 15);
    case F_ADR:   return v >= -(1ll << 20) && v < (1ll << 20);
    case F_ADRP:  return !(v & 0xFFF) && v >= -(1ll << 32) && v < (1ll << 32);
    default: return true;
  }
}
static void fmt_limits(int f, int64_t& lo, int64_t& hi, int64_t& unit) {
  switch (f) {
    case F_REL8:  lo = -128; hi = 127; unit = 1; break;
    case F_REL32: lo = INT32_MIN; hi = INT32_MAX; unit = 1; break;
    case F_IMM26: lo = -(1ll << 27); hi = (1ll << 27) - 4; unit = 4; break;
    case F_IMM19: lo = -(1ll << 20); hi = (1ll << 20) - 4; unit = 4; break;
    case F_IMM14: lo = -(1ll << 15); hi = (1ll << 15) - 4; unit = 4; break;
    case F_ADR:   lo = -(1ll << 20); hi = (1ll << 20) - 1; unit = 1; break;
    case F_ADRP:  lo = -(1ll << 32); hi = (1ll << 32) - 4096; unit = 4096; break;
    default: lo = INT64_MIN; hi = INT64_MAX; unit = 1; break;
  }
}

// x86: locate the displacement / relative / moffs field of one instruction.
enum { XC_BAD = 0, XC_BRANCH, XC_MOFFS, XC_MODRM };
enum { MK_NONE = 0, MK_RIP, MK_ABS32, MK_ABS_SIB, MK_OTHER };
struct XLoc {
  int cls = XC_BAD; int map = 0; uint8_t op = 0; bool has66 = false, has67 = false; uint8_t rex = 0; bool vex = false;
  int fpos = 0, fsize = 0, trail = 0; int memkind = MK_NONE; uint8_t modrm = 0, sib = 0; int opstart = 0; bool sib_index = false;
};
static XLoc x86_locate(const uint8_t* p, int len, bool is64) {
  XLoc L;
  int i = 0;
  while (i < len) {
    uint8_t b = p[i];
    if (b == 0x66) L.has66 = true; else if (b == 0x67) L.has67 = true;
    else if (b == 0xF2 || b == 0xF3 || b == 0x2E || b == 0x36 || b == 0x3E || b == 0x26 || b == 0x64 || b == 0x65 || b == 0xF0) {}
    else break;
    i++;
  }
  if (i >= len) return L;
  if (is64 && (p[i] & 0xF0) == 0x40) { L.rex = p[i]; i++; }
  if (i >= len) return L;
  L.opstart = i;
  if ((p[i] == 0xC5 || p[i] == 0xC4 || p[i] == 0x62) && i + 1 < len && (is64 || (p[i + 1] & 0xC0) == 0xC0)) {
    L.vex = true;
    if (p[i] == 0xC5) { L.map = 1; i += 2; }
    else if (p[i] == 0xC4) { L.map = p[i + 1] & 0x1F; if (p[i + 2] & 0x80) L.rex |= 0x48; if (!(p[i + 1] & 0x40)) L.rex |= 0x42; i += 3; }   // ~X
    else { L.map = p[i + 1] & 7; if (p[i + 2] & 0x80) L.rex |= 0x48; if (!(p[i + 1] & 0x40)) L.rex |= 0x42; i += 4; }
  }
  else if (p[i] == 0x0F) {
    i++;
    if (i < len && (p[i] == 0x38 || p[i] == 0x3A)) { L.map = p[i] == 0x38 ? 2 : 3; i++; } else L.map = 1;
  }
  if (i >= len) return L;
  L.op = p[i++];
  if (!L.vex && L.map == 0 && (L.op == 0xEB || L.op == 0xE3 || L.op == 0xE2 || L.op == 0xE1 || L.op == 0xE0 || (L.op & 0xF0) == 0x70)) {
    L.cls = XC_BRANCH; L.fpos = i; L.fsize = 1; L.trail = len - i - 1; return L;
  }
  if (!L.vex && ((L.map == 0 && (L.op == 0xE9 || L.op == 0xE8)) || (L.map == 1 && (L.op & 0xF0) == 0x80))) {
    L.cls = XC_BRANCH; L.fpos = i; L.fsize = 4; L.trail = len - i - 4; return L;
  }
  if (!L.vex && L.map == 0 && L.op == 0xC7 && i < len && p[i] == 0xF8) {   // xbegin rel32 (C7 F8 cd)
    L.cls = XC_BRANCH; L.modrm = 0xF8; L.fpos = i + 1; L.fsize = 4; L.trail = len - i - 5; return L;
  }
  if (!L.vex && L.map == 0 && L.op >= 0xA0 && L.op <= 0xA3) {
    L.cls = XC_MOFFS; L.fpos = i; L.fsize = is64 ? (L.has67 ? 4 : 8) : (L.has67 ? 2 : 4); L.trail = len - i - L.fsize; return L;
  }
  if (i >= len) return L;
  L.modrm = p[i++];
  int mod = L.modrm >> 6, rm = L.modrm & 7;
  L.cls = XC_MODRM;
  if (mod == 3) { L.memkind = MK_NONE; L.fpos = i; L.fsize = 0; L.trail = len - i; return L; }
  if (rm == 4) {
    if (i >= len) { L.cls = XC_BAD; return L; }
    L.sib = p[i++];
    L.sib_index = ((L.sib >> 3) & 7) != 4 || (L.rex & 2);
    if (mod == 0 && (L.sib & 7) == 5) { L.memkind = MK_ABS_SIB; L.fpos = i; L.fsize = 4; L.trail = len - i - 4; return L; }
    L.memkind = MK_OTHER; return L;
  }
  if (mod == 0 && rm == 5) { L.memkind = is64 ? MK_RIP : MK_ABS32; L.fpos = i; L.fsize = 4; L.trail = len - i - 4; return L; }
  L.memkind = MK_OTHER;
  return L;
}

// AArch64 classes and field extraction.
enum { AC_BAD = 0, AC_B, AC_BL, AC_BCOND, AC_CBZ, AC_CBNZ, AC_TBZ, AC_TBNZ, AC_ADR, AC_ADRP, AC_LDRLIT, AC_BC, AC_PRFMLIT };
static int a64_class(uint32_t w) {
  if ((w >> 26) == 0x05) return AC_B;
  if ((w >> 26) == 0x25) return AC_BL;
  if ((w >> 24) == 0x54) return (w & 0x10) ? AC_BC : AC_BCOND;
  if ((w >> 24) == 0xD8) return AC_PRFMLIT;
  if (((w >> 25) & 0x3F) == 0x1A) return (w >> 24) & 1 ? AC_CBNZ : AC_CBZ;
  if (((w >> 25) & 0x3F) == 0x1B) return (w >> 24) & 1 ? AC_TBNZ : AC_TBZ;
  if (((w >> 24) & 0x1F) == 0x10) return (w >> 31) ? AC_ADRP : AC_ADR;
  if (((w >> 24) & 0x3B) == 0x18) return AC_LDRLIT;
  return AC_BAD;
}
static int a64_fmt_of_class(int c) {
  switch (c) { case AC_B: case AC_BL: return F_IMM26; case AC_BCOND: case AC_CBZ: case AC_CBNZ: case AC_LDRLIT: case AC_BC: case AC_PRFMLIT: return F_IMM19;
               case AC_TBZ: case AC_TBNZ: return F_IMM14; case AC_ADR: return F_ADR; case AC_ADRP: return F_ADRP; default: return F_NONE; }
}
// displacement in bytes designated by the instruction word (for adrp: page delta in bytes)
static int64_t a64_disp(uint32_t w, int f) {
  switch (f) {
    case F_IMM26: return sx(w & 0x3FFFFFF, 26) * 4;
    case F_IMM19: return sx((w >> 5) & 0x7FFFF, 19) * 4;
    case F_IMM14: return sx((w >> 5) & 0x3FFF, 14) * 4;
    case F_ADR:   return sx((((w >> 5) & 0x7FFFF) << 2) | ((w >> 29) & 3), 21);
    case F_ADRP:  return sx((((w >> 5) & 0x7FFFF) << 2) | ((w >> 29) & 3), 21) * 4096;
    default: return 0;
  }
}

// ---------------------------------------------------------------------------------------------------------
// Reference kinds (C03)
// ---------------------------------------------------------------------------------------------------------

enum Kind { K_JMP = 0, K_JCC, K_CALL, K_JECXZ, K_LOOP, K_MEM, K_EMBED, K_DELTA,
            K_B, K_BL, K_BCOND, K_CBZ, K_CBNZ, K_TBZ, K_TBNZ, K_ADR, K_ADRP, K_LDRLIT,
            K_XBEGIN, K_BC, K_PRFM, K_COUNT };   // variants with an encoder branch of their own (appended: older numbering stays)
static const char* kKindName[] = { "jmp", "jcc", "call", "jecxz", "loop", "mem", "embed_label", "embed_label_delta",
                                   "b", "bl", "b.cond", "cbz", "cbnz", "tbz", "tbnz", "adr", "adrp", "ldr-literal",
                                   "xbegin", "bc.cond", "prfm-literal" };
static bool kind_is_x86(int k) { return k <= K_MEM || k == K_XBEGIN; }
static bool kind_is_a64(int k) { return (k >= K_B && k <= K_LDRLIT) || k == K_BC || k == K_PRFM; }

enum Pat { P_R_M, P_M_R, P_M_I, P_R_M_I, P_M_R_I, P_X_M, P_X_M_I, P_X_X_M, P_X_X_M_I };
struct MemVar { const char* name; uint32_t inst; int pat; int msize; int rbits; int64_t imm; int trail; int archmask; };
static const MemVar kMemVars[] = {
  { "lea",               x86::Inst::kIdLea,        P_R_M,     0,  0,   0,          0, 3 },
  { "mov.r32.m",         x86::Inst::kIdMov,        P_R_M,     4,  32,  0,          0, 3 },
  { "mov.m.r32",         x86::Inst::kIdMov,        P_M_R,     4,  32,  0,          0, 3 },
  { "mov.m32.imm32",     x86::Inst::kIdMov,        P_M_I,     4,  0,   0x12345678, 4, 3 },
  { "mov.m16.imm16",     x86::Inst::kIdMov,        P_M_I,     2,  0,   0x1234,     2, 3 },
  { "mov.m8.imm8",       x86::Inst::kIdMov,        P_M_I,     1,  0,   0x5A,       1, 3 },
  { "mov.m64.imm32",     x86::Inst::kIdMov,        P_M_I,     8,  0,   -5,         4, 1 },
  { "add.m32.imm8",      x86::Inst::kIdAdd,        P_M_I,     4,  0,   5,          1, 3 },
  { "add.m32.imm32",     x86::Inst::kIdAdd,        P_M_I,     4,  0,   0x12345,    4, 3 },
  { "cmp.m8.imm8",       x86::Inst::kIdCmp,        P_M_I,     1,  0,   7,          1, 3 },
  { "imul.r32.m.imm32",  x86::Inst::kIdImul,       P_R_M_I,   4,  32,  1000,       4, 3 },
  { "imul.r32.m.imm8",   x86::Inst::kIdImul,       P_R_M_I,   4,  32,  10,         1, 3 },
  { "shld.m.r32.imm8",   x86::Inst::kIdShld,       P_M_R_I,   4,  32,  3,          1, 3 },
  { "movaps.x.m",        x86::Inst::kIdMovaps,     P_X_M,     16, 128, 0,          0, 3 },
  { "pshufd.x.m.imm8",   x86::Inst::kIdPshufd,     P_X_M_I,   16, 128, 0x1B,       1, 3 },
  { "vaddps.y.y.m",      x86::Inst::kIdVaddps,     P_X_X_M,   32, 256, 0,          0, 3 },
  { "vshufps.y.y.m.imm8",x86::Inst::kIdVshufps,    P_X_X_M_I, 32, 256, 3,          1, 3 },
  { "vpaddd.z.z.m",      x86::Inst::kIdVpaddd,     P_X_X_M,   64, 512, 0,          0, 3 },
  { "vpternlogd.z.z.m.imm8", x86::Inst::kIdVpternlogd, P_X_X_M_I, 64, 512, 0xF0,   1, 3 },
};
static const int kNumMemVars = int(sizeof(kMemVars) / sizeof(kMemVars[0]));

struct RefSpec {
  int kind = K_JMP; int label = 0; int base = -1; int32_t disp = 0; int opt = 0; int var = 0; int size = 0; int reg = 0; int cc = 0; int bit = 0; bool idx = false;
  int hint = 0;      // jcc: 1 = taken(), 2 = not_taken()
  bool rex = false;  // jmp/call: rex() forced (x86-64)
};

static x86::Vec x86_vec(int bits, int id) { return bits == 128 ? x86::xmm(id) : bits == 256 ? x86::ymm(id) : x86::zmm(id); }

static Error emit_x86_mem(x86::Assembler& a, bool is64, const RefSpec& r, const x86::Mem& m0) {
  const MemVar& v = kMemVars[r.var];
  x86::Mem m = m0;
  m.set_size(uint32_t(v.msize));
  int gid = r.reg & (is64 ? 15 : 7); if (gid == 4) gid = 1;
  int vid = r.reg & (is64 ? (v.rbits == 512 ? 31 : 15) : 7);
  int vid2 = (r.reg >> 5) & (is64 ? 15 : 7);
  x86::Gp g = v.rbits == 32 ? x86::gpd(gid) : (is64 ? x86::gpq(gid) : x86::gpd(gid));
  switch (v.pat) {
    case P_R_M:     return a.emit(v.inst, g, m);
    case P_M_R:     return a.emit(v.inst, m, g);
    case P_M_I:     return a.emit(v.inst, m, Imm(v.imm));
    case P_R_M_I:   return a.emit(v.inst, g, m, Imm(v.imm));
    case P_M_R_I:   return a.emit(v.inst, m, g, Imm(v.imm));
    case P_X_M:     return a.emit(v.inst, x86_vec(v.rbits, vid), m);
    case P_X_M_I:   return a.emit(v.inst, x86_vec(v.rbits, vid), m, Imm(v.imm));
    case P_X_X_M:   return a.emit(v.inst, x86_vec(v.rbits, vid), x86_vec(v.rbits, vid2), m);
    case P_X_X_M_I: return a.emit(v.inst, x86_vec(v.rbits, vid), x86_vec(v.rbits, vid2), m, Imm(v.imm));
  }
  return Error::kInvalidArgument;
}

static void x86_opt(x86::Assembler& a, int opt) { if (opt == 1) a.short_(); else if (opt == 2) a.long_(); }

static Error emit_x86_ref(x86::Assembler& a, bool is64, const RefSpec& r, const Label& L, const Label& B) {
  switch (r.kind) {
    case K_JMP:   x86_opt(a, r.opt); if (r.rex) a.rex(); return a.jmp(L);
    case K_JCC:   x86_opt(a, r.opt); if (r.hint == 1) a.taken(); else if (r.hint == 2) a.not_taken(); return a.j(x86::CondCode(r.cc & 15), L);
    case K_CALL:  x86_opt(a, r.opt); if (r.rex) a.rex(); return a.call(L);
    case K_XBEGIN: x86_opt(a, r.opt); return a.xbegin(L);
    case K_JECXZ: x86_opt(a, r.opt); return (r.var & 1) ? a.jecxz(is64 ? x86::rcx : x86::ecx, L) : a.jecxz(is64 ? x86::ecx : x86::cx, L);
    case K_LOOP:  x86_opt(a, r.opt); return (r.var % 3) == 0 ? a.loop(L) : (r.var % 3) == 1 ? a.loope(L) : a.loopne(L);
    case K_MEM: {
      x86::Mem m = (r.idx && !is64) ? x86::ptr(L, x86::gpd((r.reg >> 3) & 3 ? 1 : 2), uint32_t(r.bit & 3), r.disp) : x86::ptr(L, r.disp);
      return emit_x86_mem(a, is64, r, m);
    }
    case K_EMBED: return a.embed_label(L, size_t(r.size));
    case K_DELTA: return a.embed_label_delta(L, B, size_t(r.size));
  }
  return Error::kInvalidArgument;
}

static Error emit_a64_ref(a64::Assembler& a, const RefSpec& r, const Label& L, const Label& B) {
  int id = r.reg % 31;
  switch (r.kind) {
    case K_B:     return a.b(L);
    case K_BL:    return a.bl(L);
    case K_BCOND: return a.b(arm::CondCode(2 + (r.cc % 14)), L);
    case K_BC:    return a.bc(arm::CondCode(2 + (r.cc % 14)), L);
    case K_PRFM:  { static const uint32_t ops[] = { 0, 1, 2, 3, 4, 5, 8, 16, 17, 21 }; return a.prfm(Imm(ops[r.var % 10]), a64::ptr(L, r.disp)); }
    case K_CBZ:   return (r.var & 1) ? a.cbz(a64::x(id), L) : a.cbz(a64::w(id), L);
    case K_CBNZ:  return (r.var & 1) ? a.cbnz(a64::x(id), L) : a.cbnz(a64::w(id), L);
    case K_TBZ:   return (r.bit >= 32) ? a.tbz(a64::x(id), Imm(r.bit & 63), L) : a.tbz(a64::w(id), Imm(r.bit & 31), L);
    case K_TBNZ:  return (r.bit >= 32) ? a.tbnz(a64::x(id), Imm(r.bit & 63), L) : a.tbnz(a64::w(id), Imm(r.bit & 31), L);
    case K_ADR:   return a.adr(a64::x(id), L);
    case K_ADRP:  return a.adrp(a64::x(id), L);
    case K_LDRLIT: {
      a64::Mem m = a64::ptr(L, r.disp);
      switch (r.var % 6) {
        case 0: return a.ldr(a64::w(id), m);
        case 1: return a.ldr(a64::x(id), m);
        case 2: return a.ldrsw(a64::x(id), m);
        case 3: return a.ldr(a64::s(id), m);
        case 4: return a.ldr(a64::d(id), m);
        default: return a.ldr(a64::q(id), m);
      }
    }
    case K_EMBED: return a.embed_label(L, size_t(r.size));
    case K_DELTA: return a.embed_label_delta(L, B, size_t(r.size));
  }
  return Error::kInvalidArgument;
}

static int a64_expected_class(int kind) {
  switch (kind) { case K_B: return AC_B; case K_BL: return AC_BL; case K_BCOND: return AC_BCOND; case K_CBZ: return AC_CBZ; case K_CBNZ: return AC_CBNZ;
                  case K_TBZ: return AC_TBZ; case K_TBNZ: return AC_TBNZ; case K_ADR: return AC_ADR; case K_ADRP: return AC_ADRP; case K_LDRLIT: return AC_LDRLIT; case K_BC: return AC_BC; case K_PRFM: return AC_PRFMLIT; }
  return AC_BAD;
}

// ---------------------------------------------------------------------------------------------------------
// C03 program specification (pure data from the seed)
// ---------------------------------------------------------------------------------------------------------

enum ItemT { I_REF, I_BIND, I_ALIGN, I_DATA, I_SECTION, I_PADFWD, I_PADBWD, I_BINDFAR };
struct Item { int t = I_DATA; RefSpec r; int label = 0; int sec = 0; int amode = 0; uint32_t aval = 0; uint64_t n = 0; int64_t v = 0; int refitem = -1; int est = 0; };
struct SecSpec { uint32_t align = 1; int32_t order = 0; };
struct ProgSpec {
  int arch = A_X64; std::vector<SecSpec> secs; int nlabels = 0; std::vector<Item> items;
  bool manual = false; bool allow_xsec_bound = false; uint64_t base = 0x10000; uint64_t lseed = 0; int profile = 0;
  bool predicted = false;      // EncodingOptions::kPredictedJumps: taken()/not_taken() emit a 3E/2E prefix
  bool tiny_base = false;      // base 0 / 0x100 / 0x8000: 1- and 2-byte embed_label can be representable
  int midpass = -1;            // >= 0: flatten() + resolve_cross_section_fixups() run once after this item, the rest of the
                               // program goes to the section that is laid out last (earlier offsets stay put)
  bool resolve_again = false;  // final flatten()/resolve run twice
};

static int pick_kind(Rng& r, int arch) {
  if (arch == A_A64) {
    static const int ks[] = { K_B, K_BL, K_BCOND, K_CBZ, K_CBNZ, K_TBZ, K_TBNZ, K_ADR, K_ADRP, K_LDRLIT, K_EMBED, K_DELTA, K_B, K_BCOND, K_LDRLIT, K_ADR };
    return ks[r.below(sizeof ks / sizeof ks[0])];
  }
  static const int ks[] = { K_JMP, K_JMP, K_JMP, K_JMP, K_JCC, K_JCC, K_JCC, K_JCC, K_CALL, K_CALL, K_CALL, K_JECXZ, K_LOOP, K_MEM, K_MEM, K_MEM, K_MEM, K_MEM, K_MEM, K_EMBED, K_EMBED, K_DELTA, K_DELTA };
  return ks[r.below(sizeof ks / sizeof ks[0])];
}

static RefSpec gen_ref(Rng& r, int arch, int kind, int label, int nlabels_for_base) {
  RefSpec s; s.kind = kind; s.label = label;
  s.reg = int(r.below(1024)); s.cc = int(r.below(16)); s.bit = int(r.below(64)); s.var = int(r.below(6));
  switch (kind) {
    case K_JMP: case K_JCC: case K_CALL: s.opt = r.chance(3, 5) ? 0 : (r.chance(3, 8) ? 1 : 2); if (kind == K_CALL && s.opt == 1) s.opt = r.chance(1, 8) ? 1 : 0; break;
    case K_JECXZ: case K_LOOP: s.opt = r.chance(1, 10) ? int(1 + r.below(2)) : 0; break;
    case K_MEM: {
      int tries = 0;
      do { s.var = int(r.below(kNumMemVars)); } while (!(kMemVars[s.var].archmask & (arch == A_X64 ? 1 : 2)) && ++tries < 100);
      static const int32_t ds[] = { 0, 0, 4, 8, -4, -8, 1, 127, 128, -129, 4096, -4096, 0x12345, -0x12345 };
      s.disp = ds[r.below(sizeof ds / sizeof ds[0])];
      s.idx = arch == A_X86 && r.chance(1, 5);
      break;
    }
    case K_EMBED: s.size = r.chance(1, 4) ? 0 : (r.chance(1, 2) ? 4 : 8); if (arch == A_X86 && s.size == 8 && r.chance(3, 4)) s.size = 4; break;
    case K_DELTA: { static const int sz[] = { 1, 2, 4, 8, 0, 4, 8, 4 }; s.size = sz[r.below(8)]; s.base = int(r.below(uint64_t(nlabels_for_base))); break; }
    case K_LDRLIT: { static const int32_t ds[] = { 0, 0, 0, 4, 8, -4, 16, 256, -1024 }; s.disp = ds[r.below(9)]; if (r.chance(1, 40)) s.disp = 2; break; }
    default: break;
  }
  return s;
}

// Which limit scenario kinds exist per arch: (kind, opt) whose format has a reachable limit inside one section.
struct LimitScn { int kind; int opt; int f; int est_x64; int est_x86; };
static const LimitScn kLimX86[] = {
  { K_JMP, 1, F_REL8, 2, 2 }, { K_JCC, 1, F_REL8, 2, 2 }, { K_JECXZ, 0, F_REL8, 3, 2 }, { K_LOOP, 0, F_REL8, 2, 2 },
  { K_JMP, 0, F_REL8, 2, 2 }, { K_JCC, 0, F_REL8, 2, 2 },   // default form: short if it fits (bound targets)
};
static const LimitScn kLimA64[] = {
  { K_TBZ, 0, F_IMM14, 0, 0 }, { K_TBNZ, 0, F_IMM14, 0, 0 }, { K_BCOND, 0, F_IMM19, 0, 0 }, { K_CBZ, 0, F_IMM19, 0, 0 }, { K_CBNZ, 0, F_IMM19, 0, 0 },
  { K_LDRLIT, 0, F_IMM19, 0, 0 }, { K_ADR, 0, F_ADR, 0, 0 }, { K_B, 0, F_IMM26, 0, 0 }, { K_BL, 0, F_IMM26, 0, 0 }, { K_ADRP, 0, F_ADRP, 0, 0 },
};

static int64_t near_limit_value(Rng& r, int f, bool fwd, bool inside) {
  int64_t lo, hi, unit; fmt_limits(f, lo, hi, unit);
  int64_t k = r.chance(1, 2) ? 0 : int64_t(r.below(4));
  if (r.chance(1, 6)) k = int64_t(r.below(64));
  if (fwd) return inside ? hi - k * unit : hi + (k + 1) * unit;
  return inside ? lo + k * unit : lo - (k + 1) * unit;
}

static ProgSpec gen_c03(Rng& r, int profile) {
  ProgSpec P; P.profile = profile;
  Rng sr(r.s ^ 0xC03D1A5EED5ull);     // side stream for the dimensions added later: the main stream draws exactly as before
  { uint64_t x = r.below(100); P.arch = x < 40 ? A_X64 : x < 65 ? A_X86 : A_A64; }
  if (profile == 2) P.arch = r.chance(1, 2) ? A_X64 : A_A64;
  if (profile >= 3) P.arch = A_X64;
  int nsec; { uint64_t x = r.below(100); nsec = x < 35 ? 1 : x < 65 ? 2 : x < 85 ? 3 : 4; }
  if (profile >= 2) nsec = 1 + int(r.below(2));
  P.secs.resize(size_t(nsec));
  for (int i = 1; i < nsec; i++) {
    static const uint32_t al[] = { 1, 1, 4, 8, 16, 64 };
    P.secs[size_t(i)].align = al[r.below(6)];
    if (P.arch == A_A64 && P.secs[size_t(i)].align < 4 && r.chance(3, 4)) P.secs[size_t(i)].align = 4;
    P.secs[size_t(i)].order = int32_t(r.below(4));
  }
  P.manual = nsec > 1 && r.chance(1, 3) && profile < 2;
  P.allow_xsec_bound = r.chance(1, 4);
  bool never_bind = r.chance(1, 8);
  bool clean = !never_bind && r.chance(2, 5);      // everything representable: the program must end with unresolved_fixup_count()==0
  P.base = P.arch == A_X86 ? (r.chance(1, 2) ? 0x10000u : 0x08048000u) : (r.chance(1, 3) ? 0x10000ull : r.chance(1, 2) ? 0x7f3a12340000ull : 0x400000ull);
  P.lseed = r.next();
  P.predicted = sr.chance(3, 4);
  P.resolve_again = sr.chance(1, 2);
  if (!clean && profile < 2 && sr.chance(1, 6)) { static const uint64_t tb[] = { 0, 0, 0x100, 0x8000 }; P.tiny_base = true; P.base = tb[sr.below(4)]; }

  std::vector<bool> bound;     // generator-level: label has a BIND item already
  std::vector<int> unbound;
  auto new_label = [&]() { bound.push_back(false); return P.nlabels++; };
  auto small_data = [&](uint64_t maxn) { Item it; it.t = I_DATA; it.n = r.below(maxn + 1); if (P.arch == A_A64 && r.chance(15, 16)) it.n &= ~3ull; P.items.push_back(it); };
  auto push_ref = [&](int kind, int label, int opt_override = -1, bool scenario = false) {
    if (clean && !scenario) { if (kind == K_JECXZ || kind == K_LOOP) kind = K_JMP; if (kind == K_TBZ || kind == K_TBNZ) kind = K_B; if (kind == K_DELTA) kind = K_EMBED; }
    Item it; it.t = I_REF; it.r = gen_ref(r, P.arch, kind, label, P.nlabels > 0 ? P.nlabels : 1);
    if (clean && !scenario && it.r.opt == 1) it.r.opt = 0;
    if (clean && it.r.kind == K_EMBED && it.r.size == 4 && P.arch != A_X86) it.r.size = 8;
    if (opt_override >= 0) it.r.opt = opt_override;
    {
      // ---- variants drawn from the side stream
      RefSpec& s = it.r; bool x64 = P.arch == A_X64;
      switch (s.kind) {
        case K_CALL:   if (!scenario && s.opt != 1 && sr.chance(1, 6)) s.kind = K_XBEGIN; else if (x64 && sr.chance(1, 6)) s.rex = true; break;
        case K_JMP:    if (x64 && sr.chance(1, 6)) s.rex = true; break;
        case K_JCC:    if (sr.chance(1, 3)) s.hint = int(1 + sr.below(2)); break;
        case K_BCOND:  if (sr.chance(1, 4)) s.kind = K_BC; break;
        case K_LDRLIT: if (sr.chance(1, 6)) s.kind = K_PRFM; break;
        case K_MEM: {
          // addends at the ends of the int32 range (the displacement itself is label + addend - end of instruction)
          static const int32_t ex[] = { INT32_MIN, INT32_MIN + 3, INT32_MIN + 9, INT32_MAX, INT32_MAX - 6, INT32_MIN + 4, INT32_MAX - 1 };
          if (!clean && !scenario && sr.chance(1, x64 ? 10 : 40)) s.disp = ex[sr.below(7)];
          break;
        }
        case K_EMBED:  if (!clean && sr.chance(1, P.tiny_base ? 3 : 40)) s.size = sr.chance(1, 2) ? 1 : 2; break;
        default: break;
      }
    }
    P.items.push_back(it); return int(P.items.size()) - 1;
  };
  auto push_bind = [&](int label) { Item it; it.t = I_BIND; it.label = label; bound[size_t(label)] = true; P.items.push_back(it); };
  auto push_section = [&]() { if (nsec > 1) { Item it; it.t = I_SECTION; it.sec = int(r.below(uint64_t(nsec))); P.items.push_back(it); } };

  int first = new_label(); (void)first; new_label();
  int nchunks = int(3 + r.below(8));
  if (profile >= 2) nchunks = 1;
  for (int c = 0; c < nchunks; c++) {
    uint64_t x = r.below(100);
    if (profile >= 2) x = 0;
    if (profile < 2 && P.arch != A_X86 && sr.chance(1, 6)) {
      // ---- a label bound through CodeHolder::bind_label(label, section, offset) far beyond the end of the buffer: the
      //      reference that follows is "bound before, same section" and lands next to the forward limit of its format
      //      without any filler (x86-64: +2 GiB of rel32; AArch64: every format)
      LimitScn s;
      if (P.arch == A_A64) s = kLimA64[sr.below(sizeof kLimA64 / sizeof kLimA64[0])];
      else { static const LimitScn xs[] = { { K_JMP, 0, F_REL32, 5, 5 }, { K_JMP, 2, F_REL32, 5, 5 }, { K_JCC, 0, F_REL32, 6, 6 }, { K_JCC, 2, F_REL32, 6, 6 }, { K_CALL, 0, F_REL32, 5, 5 }, { K_MEM, 0, F_REL32, 7, 7 }, { K_MEM, 0, F_REL32, 7, 7 } }; s = xs[sr.below(7)]; }
      bool inside = clean || sr.chance(1, 2);
      int64_t v = near_limit_value(sr, s.f, true, inside);
      if (clean && s.f == F_REL32) v -= 16;            // the estimate of the instruction size may be off by a few bytes
      int L = new_label();
      int ri = push_ref(s.kind, L, s.opt, true);
      Item bf; bf.t = I_BINDFAR; bf.label = L; bf.v = v + (P.arch == A_A64 ? 0 : s.est_x64) - int64_t(P.items[size_t(ri)].r.kind == K_MEM || P.items[size_t(ri)].r.kind == K_LDRLIT || P.items[size_t(ri)].r.kind == K_PRFM ? P.items[size_t(ri)].r.disp : 0);
      bound[size_t(L)] = true;
      P.items.insert(P.items.begin() + ri, bf);
    }
    if (x < 32) {
      // ---- limit scenario
      const LimitScn* tab = P.arch == A_A64 ? kLimA64 : kLimX86;
      size_t ntab = P.arch == A_A64 ? sizeof kLimA64 / sizeof kLimA64[0] : sizeof kLimX86 / sizeof kLimX86[0];
      LimitScn s = tab[r.below(ntab)];
      if (profile == 0 && (s.f == F_IMM26 || s.f == F_ADRP)) s = tab[r.below(6)];      // 128 MiB / 4 GiB inside one section: dedicated profiles only
      if (profile == 0 && (s.f == F_IMM19 || s.f == F_ADR) && r.chance(1, 2)) s = tab[r.below(2)];
      if (profile == 2) { s = P.arch == A_A64 ? kLimA64[7 + r.below(2)] : LimitScn{ K_JMP, 2, F_REL32, 5, 5 }; }
      if (profile == 3) { static const int ks[] = { K_JMP, K_JCC, K_CALL }; s = LimitScn{ ks[r.below(3)], 2, F_REL32, 5, 5 }; }
      if (profile == 4) s = LimitScn{ K_MEM, 0, F_REL32, 7, 7 };
      bool fwd = r.chance(1, 2), inside = clean || r.chance(1, 2);
      int64_t v = near_limit_value(r, s.f, fwd, inside);
      if (clean && s.f == F_REL8 && !fwd) v += 8;       // the estimate of the instruction size may be off by a prefix byte
      if (clean && s.f == F_REL8 && fwd) v -= 12;       // small items may follow the reference
      if (profile == 2 && P.arch != A_A64) v = fwd ? int64_t(140u << 20) : -int64_t(140u << 20);   // x86: just a long way (rel32 limit needs profile 3)
      int L = new_label();
      if (fwd) {
        int ri = push_ref(s.kind, L, s.opt, true);
        if (r.chance(1, 3)) small_data(8);
        if (r.chance(1, 4)) push_ref(pick_kind(r, P.arch), int(r.below(uint64_t(P.nlabels))));
        Item pad; pad.t = I_PADFWD; pad.refitem = ri; pad.v = v; P.items.push_back(pad);
        push_bind(L);
      }
      else {
        push_bind(L);
        if (r.chance(1, 3)) small_data(8);
        if (r.chance(1, 4)) push_ref(pick_kind(r, P.arch), int(r.below(uint64_t(P.nlabels))));
        Item pad; pad.t = I_PADBWD; pad.label = L; pad.v = v; pad.est = P.arch == A_X64 ? s.est_x64 : P.arch == A_X86 ? s.est_x86 : 0;
        if (s.f == F_REL32) pad.est = s.kind == K_JCC ? 6 : s.kind == K_MEM ? 7 : 5;
        P.items.push_back(pad);
        push_ref(s.kind, L, s.opt, true);
      }
    }
    else if (x < 42) {
      // ---- many fixups pending on one label, across sections
      int L = new_label();
      int m = int(2 + r.below(63));
      if (r.chance(1, 2)) m = int(2 + r.below(12));
      for (int i = 0; i < m; i++) {
        int k = pick_kind(r, P.arch);
        if (k == K_DELTA && r.chance(1, 2)) k = P.arch == A_A64 ? K_B : K_JMP;
        int opt = -1;
        if (k == K_JMP || k == K_JCC) opt = (!clean && r.chance(1, 8)) ? 1 : (r.chance(1, 2) ? 0 : 2);
        push_ref(k, L, opt);
        if (r.chance(1, 6)) push_section();
        if (r.chance(1, 4)) small_data(r.chance(1, 8) ? 9000 : 12);
      }
      if (r.chance(1, 2)) push_section();
      if (r.chance(1, 3)) { Item it; it.t = I_DATA; it.n = 9000 + r.below(30000); if (P.arch == A_A64) it.n &= ~3ull; P.items.push_back(it); }   // force growth before the bind
      push_bind(L);
    }
    else {
      // ---- a few random items
      int n = int(1 + r.below(8));
      for (int i = 0; i < n; i++) {
        uint64_t y = r.below(100);
        if (y < 45) {
          int L = r.chance(1, 5) ? new_label() : int(r.below(uint64_t(P.nlabels)));
          push_ref(pick_kind(r, P.arch), L);
        }
        else if (y < 60) {
          std::vector<int> ub; for (int l = 0; l < P.nlabels; l++) if (!bound[size_t(l)]) ub.push_back(l);
          if (!ub.empty()) push_bind(ub[r.below(ub.size())]);
        }
        else if (y < 70) { Item it; it.t = I_ALIGN; it.amode = int(r.below(3)); it.aval = 1u << r.below(7); P.items.push_back(it); }
        else if (y < 90) {
          Item it; it.t = I_DATA;
          uint64_t z = r.below(100);
          it.n = z < 50 ? r.below(17) : z < 75 ? 100 + r.below(200) : z < 92 ? 4000 + r.below(16000) : z < 98 ? 32000 + r.below(2000) : 60000 + r.below(1100000);
          if (P.arch == A_A64 && r.chance(15, 16)) it.n &= ~3ull;
          P.items.push_back(it);
        }
        else push_section();
      }
    }
  }
  // bind what is left (or leave some labels unbound for ever)
  for (int l = 0; l < P.nlabels; l++) {
    if (bound[size_t(l)]) continue;
    if (never_bind && r.chance(1, 2)) continue;
    if (r.chance(1, 3)) push_section();
    if (r.chance(1, 3)) small_data(40);
    push_bind(l);
  }
  if (r.chance(1, 2)) small_data(16);
  if (!P.manual && profile < 2 && P.items.size() >= 4 && sr.chance(1, 3)) P.midpass = int(1 + sr.below(P.items.size() - 2));
  return P;
}

// ---------------------------------------------------------------------------------------------------------
// C03 execution + oracle
// ---------------------------------------------------------------------------------------------------------

enum { ST_ERR = 0, ST_DIRECT, ST_PENDING, ST_CROSS, ST_RESOLVED, ST_RELOC, ST_SKIPPED };

struct RefM {
  RefSpec s; int sec = 0; uint64_t pre = 0, post = 0; Error err = Error::kOk; int state = ST_SKIPPED;
  int f = F_NONE; uint64_t fpos = 0; int fsize = 0; uint64_t anchor = 0; int trail = 0; bool has_reloc = false; bool uses_fixup = false;
  bool bound_at_emit = false, same_sec_at_emit = false; const uint8_t* buf_at_emit = nullptr; bool realloc_before_patch = false;
  bool delta_immediate = false; std::string form; bool reported = false;
  bool base_bound_at_emit = false; int base_sec_at_emit = -1; uint64_t base_off_at_emit = 0; int label_sec_at_emit = -1;
  bool resolved_mid = false; bool resolved_by_pass = false; int64_t res_delta = 0;   // resolved by a resolve pass: S[label section] - S[own section] at that time
  bool after_mid = false; bool prefix_seen = false;
};
struct LabelM { bool created = false; Label lab; bool bound = false; int sec = -1; uint64_t off = 0; bool poisoned = false; std::vector<int> pending; int ltype = 0; bool far = false; };
static const char* kLTypeName[] = { "plain", "named-global", "named-local", "named-anonymous" };

// Length of the x86 branch instruction in the given form, -1 when the ISA / the requested option has no such form.
static int x86_form_len(bool predicted, const RefSpec& s, int f) {
  int pre = 0;
  if (s.kind == K_JECXZ && !(s.var & 1)) pre++;
  if (s.kind == K_JCC && s.hint && predicted) pre++;
  if ((s.kind == K_JMP || s.kind == K_CALL) && s.rex) pre++;
  bool has8 = s.kind == K_JMP || s.kind == K_JCC || s.kind == K_JECXZ || s.kind == K_LOOP;
  bool has32 = s.kind == K_JMP || s.kind == K_JCC || s.kind == K_CALL || s.kind == K_XBEGIN;
  if (s.opt == 1) has32 = false;
  if (s.opt == 2) has8 = false;
  if (f == F_REL8) return has8 ? pre + 2 : -1;
  return has32 ? pre + ((s.kind == K_JCC || s.kind == K_XBEGIN) ? 6 : 5) : -1;
}

struct GuardBuf {
  uint8_t* base = nullptr; size_t size = 0; static constexpr size_t G = 64;
  explicit GuardBuf(size_t n) : size(n) { base = static_cast<uint8_t*>(malloc(n + 2 * G)); if (!base) harness_fail("malloc image"); memset(base, 0xA5, n + 2 * G); }
  ~GuardBuf() { free(base); }
  uint8_t* data() { return base + G; }
  bool intact() const { for (size_t i = 0; i < G; i++) if (base[i] != 0xA5 || base[G + size + i] != 0xA5) return false; return true; }
};

static std::string ref_form(int arch, const RefM& m) {
  std::string s = kKindName[m.s.kind];
  if (m.s.kind == K_MEM) { s += "."; s += kMemVars[m.s.var].name; if (m.s.idx) s += "+idx"; }
  if (m.s.kind == K_EMBED || m.s.kind == K_DELTA) s += fmt(".%d", m.fsize);
  else if (kind_is_x86(m.s.kind)) { s += "."; s += kFmtName[m.f]; }
  if (m.s.kind == K_LDRLIT) { static const char* v[] = { "w", "x", "sw", "s", "d", "q" }; s += "."; s += v[m.s.var % 6]; }
  if (m.s.rex) s += "+rex";
  if (m.s.hint && m.prefix_seen) s += m.s.hint == 1 ? "+taken" : "+not-taken";
  (void)arch;
  return s;
}

struct C03Run {
  const ProgSpec& P;
  CodeHolder code;
  std::unique_ptr<x86::Assembler> xa;
  std::unique_ptr<a64::Assembler> aa;
  BaseAssembler* ba = nullptr;
  std::vector<Section*> secs;
  std::vector<LabelM> labels;
  std::vector<RefM> refs;
  std::vector<int> item_ref;     // item index -> ref index
  int cursec = 0;
  bool count_tainted = false, tainted = false;
  bool mid_done = false;
  size_t max_pending = 0;
  std::vector<uint64_t> S;       // final section offsets

  explicit C03Run(const ProgSpec& p) : P(p) {}

  uint64_t off() const { return uint64_t(ba->offset()); }
  size_t model_count() const { size_t n = 0; for (const RefM& m : refs) if (m.state == ST_PENDING || m.state == ST_CROSS) n++; return n; }

  void check_count(const char* where) {
    if (count_tainted) return;
    size_t mc = model_count(), ac = code.unresolved_fixup_count();
    CNT["count_comparisons"]++;
    if (mc != ac) {
      viol(fmt("unresolved-count-mismatch:%s:%s", where, ac < mc ? "asmjit-lower" : "asmjit-higher"),
           fmt("%s: unresolved_fixup_count()=%zu after %s, our count of pending+cross-section fixups is %zu", kArchName[P.arch], ac, where, mc));
      count_tainted = true;
    }
  }

  Label& label_of(int l) {
    if (labels.size() <= size_t(l)) labels.resize(size_t(l) + 1);
    LabelM& m = labels[size_t(l)];
    if (!m.created) {
      // one label in four has ExtraData of its own (named global / local with a parent / anonymous with a name): bind_label(),
      // is_bound(), is_bound_to() and section_id() take another branch for those
      Rng lr(P.lseed ^ (0xA24BAED4963EE407ull * uint64_t(l + 1)));
      uint64_t h = lr.below(8);
      std::string name = fmt("L%d_%llx", l, (ull)(P.lseed & 0xFFFF));
      if (h == 0) { m.lab = ba->new_named_label(name.c_str(), SIZE_MAX, LabelType::kGlobal); m.ltype = 1; }
      else if (h == 1 && l > 0) {
        int parent = int(lr.below(uint64_t(l)));
        uint32_t pid = label_of(parent).id();
        m.lab = ba->new_named_label(name.c_str(), SIZE_MAX, LabelType::kLocal, pid); m.ltype = 2;
      }
      else if (h == 2) { m.lab = ba->new_anonymous_label(name.c_str()); m.ltype = 3; }
      else m.lab = ba->new_label();
      m.created = true; CNT["labels"]++; CNT[std::string("labels_") + kLTypeName[m.ltype]]++;
      if (!m.lab.is_valid()) harness_fail(fmt("creating a %s label failed", kLTypeName[m.ltype]));
    }
    return m.lab;
  }

  int64_t addend_of(const RefM& m) const { return (m.s.kind == K_MEM || m.s.kind == K_LDRLIT || m.s.kind == K_PRFM) ? int64_t(m.s.disp) : 0; }

  void filler(uint64_t n) {
    if (!n) return;
    if (n > g_zero_size) harness_fail("filler too large");
    Error e = ba->embed(g_zero, size_t(n));
    if (e != Error::kOk) harness_fail(fmt("embed(%llu zero bytes) failed: %s", (ull)n, errname(e)));
    CNT["filler_bytes"] += n;
  }

  void do_ref(const Item& it, int item_index) {
    const RefSpec& s = it.r;
    if (s.kind == K_DELTA && s.base < 0) return;
    Label L = label_of(s.label);
    Label B = s.kind == K_DELTA ? label_of(s.base) : Label();
    LabelM& lm = labels[size_t(s.label)];
    bool fixup_kind = !(s.kind == K_EMBED || s.kind == K_DELTA || (s.kind == K_MEM && P.arch == A_X86));
    if (lm.poisoned || (s.kind == K_DELTA && labels[size_t(s.base)].poisoned)) { CNT["refs_skipped_poisoned_label"]++; return; }
    if (fixup_kind && lm.bound && lm.sec != cursec && !P.allow_xsec_bound) { CNT["refs_skipped_xsec_bound_regime"]++; return; }

    RefM m; m.s = s; m.sec = cursec; m.pre = off();
    m.bound_at_emit = lm.bound; m.same_sec_at_emit = lm.bound && lm.sec == cursec; m.label_sec_at_emit = lm.bound ? lm.sec : -1;
    m.after_mid = mid_done;
    if (s.kind == K_DELTA) { const LabelM& bm0 = labels[size_t(s.base)]; m.base_bound_at_emit = bm0.bound; m.base_sec_at_emit = bm0.sec; m.base_off_at_emit = bm0.off; }
    if (mid_done) CNT["refs_emitted_after_intermediate_pass"]++;
    m.buf_at_emit = ba->buffer_data();
    uint64_t lbl_off_before = lm.bound ? code.label_offset(L) : 0;
    m.err = P.arch == A_A64 ? emit_a64_ref(*aa, s, L, B) : emit_x86_ref(*xa, P.arch == A_X64, s, L, B);
    m.post = off();
    m.buf_at_emit = ba->buffer_data();
    CNT[std::string("ref_") + kKindName[s.kind]]++;
    if (m.err != Error::kOk) {
      m.state = ST_ERR; CNT["refs_emit_error"]++;
      if (m.post != m.pre) CNT["emit_error_advanced_offset"]++;
      refs.push_back(m); item_ref[size_t(item_index)] = int(refs.size()) - 1;
      check_count(fmt("ref:%s:emit-error", kKindName[s.kind]).c_str());
      return;
    }
    const uint8_t* bytes = secs[size_t(cursec)]->data() + m.pre;
    int len = int(m.post - m.pre);
    // ---- decode the site with our own extractor
    if (s.kind == K_EMBED || s.kind == K_DELTA) {
      int want = s.size ? s.size : (P.arch == A_X86 ? 4 : 8);
      m.fpos = m.pre; m.fsize = want; m.anchor = m.pre;
      if (len != want) { viol(fmt("%s:%s:wrong-size", kArchName[P.arch], kKindName[s.kind]), fmt("%s of size %d appended %d bytes", kKindName[s.kind], want, len)); tainted = true; }
      m.f = s.kind == K_DELTA ? F_DELTA : (want == 8 ? F_ABS64 : F_ABS32);   // absolute field of `fsize` bytes (1/2/4: F_ABS32 class)
    }
    else if (P.arch == A_A64) {
      if (len != 4) { viol(fmt("a64:%s:not-4-bytes", kKindName[s.kind]), fmt("%s appended %d bytes", kKindName[s.kind], len)); tainted = true; refs.push_back(m); item_ref[size_t(item_index)] = int(refs.size()) - 1; return; }
      uint32_t w = uint32_t(rd(bytes, 4));
      int cls = a64_class(w);
      if (cls != a64_expected_class(s.kind)) { viol(fmt("a64:%s:wrong-instruction-class", kKindName[s.kind]), fmt("%s emitted word %08x which our decoder classifies as %d", kKindName[s.kind], w, cls)); tainted = true; }
      m.f = a64_fmt_of_class(a64_expected_class(s.kind)); m.fpos = m.pre; m.fsize = 4; m.anchor = m.pre;
    }
    else {
      XLoc xl = x86_locate(bytes, len, P.arch == A_X64);
      bool ok = false;
      if (s.kind == K_MEM) {
        ok = xl.cls == XC_MODRM && (P.arch == A_X64 ? xl.memkind == MK_RIP : (xl.memkind == MK_ABS32 || xl.memkind == MK_ABS_SIB));
        if (ok && xl.trail != kMemVars[s.var].trail) {
          viol(fmt("%s:mem:trailing-immediate-size", kArchName[P.arch]), fmt("%s: %d bytes follow the displacement, the form has a %d-byte immediate (%s)", kMemVars[s.var].name, xl.trail, kMemVars[s.var].trail, hexstr(bytes, size_t(len)).c_str()));
          tainted = true;
        }
        m.f = P.arch == A_X64 ? F_REL32 : F_ABS32;
      }
      else {
        ok = xl.cls == XC_BRANCH && xl.trail == 0;
        if (ok) {
          uint8_t op = xl.op;
          bool opok = false;
          switch (s.kind) {
            case K_JMP: opok = xl.map == 0 && (op == 0xEB || op == 0xE9); break;
            case K_JCC: opok = (xl.map == 0 && (op & 0xF0) == 0x70 && (op & 15) == (s.cc & 15)) || (xl.map == 1 && (op & 0xF0) == 0x80 && (op & 15) == (s.cc & 15)); break;
            case K_CALL: opok = xl.map == 0 && op == 0xE8; break;
            case K_JECXZ: opok = xl.map == 0 && op == 0xE3; break;
            case K_LOOP: opok = xl.map == 0 && (op == 0xE2 || op == 0xE1 || op == 0xE0); break;
            case K_XBEGIN: opok = xl.map == 0 && op == 0xC7 && xl.modrm == 0xF8 && xl.fsize == 4; break;
          }
          if (s.kind != K_XBEGIN && xl.modrm == 0xF8 && op == 0xC7) opok = false;
          if (s.kind == K_JCC && s.hint && (bytes[0] == 0x3E || bytes[0] == 0x2E)) {
            m.prefix_seen = true;      // (which prefix, and whether one is emitted at all, is not this property's business)
          }
          if (s.rex && bytes[0] == 0x40) m.prefix_seen = true;
          if (!opok) { viol(fmt("%s:%s:wrong-opcode", kArchName[P.arch], kKindName[s.kind]), fmt("%s emitted %s", kKindName[s.kind], hexstr(bytes, size_t(len)).c_str())); tainted = true; }
        }
        m.f = xl.fsize == 1 ? F_REL8 : F_REL32;
      }
      if (!ok) {
        viol(fmt("%s:%s:site-not-decodable", kArchName[P.arch], kKindName[s.kind]), fmt("%s emitted %s: our decoder finds no %s field", kKindName[s.kind], hexstr(bytes, size_t(len)).c_str(), s.kind == K_MEM ? "label displacement" : "relative"));
        tainted = true; refs.push_back(m); item_ref[size_t(item_index)] = int(refs.size()) - 1; return;
      }
      m.fpos = m.pre + uint64_t(xl.fpos); m.fsize = xl.fsize; m.trail = xl.trail; m.anchor = m.post;
    }
    m.form = ref_form(P.arch, m);
    // ---- what the reference became
    if (s.kind == K_DELTA) {
      LabelM& bm = labels[size_t(s.base)];
      if (lm.bound && bm.bound && lm.sec == bm.sec) { m.state = ST_DIRECT; m.delta_immediate = true; }
      else m.state = ST_RELOC;
    }
    else if (!fixup_kind) {
      m.has_reloc = true;
      if (lm.bound) m.state = ST_RELOC;
      else { m.state = ST_PENDING; m.uses_fixup = true; }
    }
    else {
      m.uses_fixup = true;
      if (lm.bound && lm.sec == cursec) { m.state = ST_DIRECT; m.uses_fixup = false; }
      else if (!lm.bound) m.state = ST_PENDING;
      else m.state = ST_CROSS;       // bound in another section: must be resolved by resolve_cross_section_fixups()
    }
    refs.push_back(m);
    int ri = int(refs.size()) - 1;
    item_ref[size_t(item_index)] = ri;
    if (m.state == ST_PENDING) { lm.pending.push_back(ri); if (lm.pending.size() > max_pending) max_pending = lm.pending.size(); }
    // a reference must not disturb a label that is already bound
    if (lm.bound) {
      uint64_t now = code.label_offset(L);
      if (now != lbl_off_before || now != lm.off || !code.is_label_bound(L)) {
        viol(fmt("ref-to-label-bound-in-other-section:label-offset-clobbered:%s", P.arch == A_A64 ? "a64" : "x86"),
             fmt("%s %s in section %d to a label bound at section %d offset %llu: label_offset() is 0x%llx afterwards", kArchName[P.arch], m.form.c_str(), cursec, lm.sec, (ull)lm.off, (ull)now));
        lm.poisoned = true; tainted = true; count_tainted = true;
      }
    }
    check_count(fmt("ref:%s", kKindName[s.kind]).c_str());
  }

  void do_bind(int l) {
    Label L = label_of(l);
    LabelM& lm = labels[size_t(l)];
    if (lm.bound) return;
    uint64_t o = off();
    const uint8_t* bufnow = ba->buffer_data();
    Error e = ba->bind(L);
    CNT["binds"]++;
    if (off() != o) { viol("bind:moved-offset", "bind() changed offset()"); tainted = true; }
    if (e != Error::kOk && e != Error::kInvalidDisplacement) { viol(fmt("bind:error:%s", errname(e)), fmt("bind() of an unbound valid label failed: %s", errname(e))); tainted = true; count_tainted = true; return; }
    lm.bound = true; lm.sec = cursec; lm.off = o;
    bool expect_err = false;
    maxc("max_pending_fixups_on_one_label", lm.pending.size());
    std::set<int> fromsecs;
    for (int ri : lm.pending) {
      RefM& m = refs[size_t(ri)];
      fromsecs.insert(m.sec);
      if (m.has_reloc) { m.state = ST_RELOC; continue; }
      if (m.sec != cursec) { m.state = ST_CROSS; continue; }
      int64_t v = int64_t(o) + addend_of(m) - int64_t(m.anchor);
      if (fits(m.f, v)) { m.state = ST_RESOLVED; if (m.buf_at_emit != bufnow) { m.realloc_before_patch = true; CNT["fixups_patched_after_buffer_moved"]++; } }
      else { m.state = ST_CROSS; expect_err = true; m.reported = true; }
    }
    if (lm.pending.size() >= 2) maxc("max_sections_with_pending_fixups_on_one_label", fromsecs.size());
    lm.pending.clear();
    if (e == Error::kInvalidDisplacement) {
      CNT["bind_reported_invalid_displacement"]++;
      if (!expect_err && !tainted) { CNT["bind_error_not_predicted"]++; viol(fmt("bind:invalid-displacement-though-every-fixup-representable:%s", kArchName[P.arch]), fmt("bind() at section %d offset %llu returned InvalidDisplacement; by our evaluation each of the pending same-section references can hold its distance", cursec, (ull)o)); }
    }
    else if (expect_err) CNT["bind_ok_though_fixup_unrepresentable(stays counted)"]++;
    if (code.label_offset(L) != o || !code.is_label_bound(L)) { viol("bind:label-offset-wrong", fmt("label_offset()=%llu after bind at %llu", (ull)code.label_offset(L), (ull)o)); tainted = true; }
    check_count("bind");
  }

  // bind through CodeHolder::bind_label(label, section id, offset) at a position beyond the end of the buffer
  void do_bind_far(int l, int64_t delta) {
    Label L = label_of(l);
    LabelM& lm = labels[size_t(l)];
    if (lm.bound || !lm.pending.empty() || delta <= 0) return;
    uint64_t o = off() + uint64_t(delta);
    Error e = code.bind_label(L, secs[size_t(cursec)]->section_id(), o);
    CNT["binds_far_beyond_buffer"]++;
    if (e != Error::kOk) { viol(fmt("bind_label:error:%s", errname(e)), fmt("CodeHolder::bind_label(unbound label without references, section %d, offset 0x%llx) failed: %s", cursec, (ull)o, errname(e))); tainted = true; count_tainted = true; return; }
    lm.bound = true; lm.sec = cursec; lm.off = o; lm.far = true;
    if (code.label_offset(L) != o || !code.is_label_bound(L)) { viol("bind:label-offset-wrong", fmt("label_offset()=%llu after bind_label(.., %llu)", (ull)code.label_offset(L), (ull)o)); tainted = true; }
    check_count("bind_label");
  }

  // what resolve_cross_section_fixups() has to do to our model, given the section offsets of the moment
  size_t model_resolve(const std::vector<uint64_t>& So, bool mid) {
    size_t n = 0;
    for (RefM& m : refs) {
      if (m.state != ST_CROSS) continue;
      const LabelM& lm = labels[size_t(m.s.label)];
      if (!lm.bound || lm.poisoned) continue;
      int64_t v = int64_t(So[size_t(lm.sec)] + lm.off) + addend_of(m) - int64_t(So[size_t(m.sec)] + m.anchor);
      if (fits(m.f, v)) { m.state = ST_RESOLVED; m.resolved_by_pass = true; m.resolved_mid = mid; m.res_delta = int64_t(So[size_t(lm.sec)]) - int64_t(So[size_t(m.sec)]); n++; }
      else if (!mid) m.reported = true;
    }
    return n;
  }

  // flatten() + resolve_cross_section_fixups() in the middle of the program (what a user does to size the code before
  // JitRuntime::add runs both again). Afterwards only the section laid out last receives code, so no offset moves.
  void do_midpass() {
    Section* last = code.sections_by_order()[code.section_count() - 1];
    int li = -1;
    for (size_t i = 0; i < secs.size(); i++) if (secs[i] == last) li = int(i);
    if (li < 0) harness_fail("last section not found");
    if (secs.size() > 1 && last->buffer_size() == 0) { CNT["intermediate_pass_skipped_last_section_empty"]++; return; }   // an empty section gets aligned (moves) with its first byte
    Error e = code.flatten();
    if (e != Error::kOk) { viol(fmt("flatten:error:%s", errname(e)), "intermediate flatten() failed on a small program"); tainted = true; return; }
    std::vector<uint64_t> Sm(secs.size());
    for (size_t i = 0; i < secs.size(); i++) Sm[i] = secs[i]->offset();
    Error re = code.resolve_cross_section_fixups();
    if (re != Error::kOk) CNT[std::string("resolve_error_") + errname(re)]++;
    size_t n = model_resolve(Sm, true);
    mid_done = true;
    CNT["intermediate_pass_programs"]++; CNT["intermediate_pass_refs_resolved"] += n;
    if (model_count()) CNT["intermediate_pass_programs_with_fixups_left_over"]++;
    check_count("resolve_cross_section_fixups:intermediate");
    if (li != cursec) { if (ba->section(last) != Error::kOk) harness_fail("section()"); cursec = li; }
  }

  // ---- own layout of the sections (order, then creation index; aligned only when non-empty)
  std::vector<uint64_t> own_layout() {
    std::vector<int> ix(secs.size());
    for (size_t i = 0; i < ix.size(); i++) ix[i] = int(i);
    std::stable_sort(ix.begin(), ix.end(), [&](int a, int b) { int32_t oa = a == 0 ? INT32_MIN : P.secs[size_t(a)].order, ob = b == 0 ? INT32_MIN : P.secs[size_t(b)].order; return oa < ob; });
    std::vector<uint64_t> o(secs.size());
    uint64_t cur = 0;
    for (int i : ix) {
      uint64_t sz = secs[size_t(i)]->buffer_size();
      if (sz) cur = align_up(cur, secs[size_t(i)]->alignment());
      o[size_t(i)] = cur; cur += sz;
    }
    return o;
  }

  void manual_layout(Rng& r) {
    // sections in creation order; section k is placed so that one cross-section reference lands near the limit of its format
    S.assign(secs.size(), 0);
    uint64_t end = secs[0]->buffer_size();
    for (size_t k = 1; k < secs.size(); k++) {
      uint64_t al = secs[k]->alignment();
      uint64_t want = 0; bool have = false;
      std::vector<int> cand;
      for (size_t i = 0; i < refs.size(); i++) {
        const RefM& m = refs[i];
        if (m.state != ST_CROSS || !labels[size_t(m.s.label)].bound) continue;
        int ls = labels[size_t(m.s.label)].sec;
        if ((size_t(m.sec) == k && size_t(ls) < k) || (size_t(ls) == k && size_t(m.sec) < k)) cand.push_back(int(i));
      }
      if (!cand.empty() && r.chance(4, 5)) {
        const RefM& m = refs[size_t(cand[r.below(cand.size())])];
        const LabelM& lm = labels[size_t(m.s.label)];
        bool label_in_k = size_t(lm.sec) == k;
        int64_t v = near_limit_value(r, m.f, label_in_k, r.chance(1, 2));
        if (m.f == F_ADRP) {
          // the displacement must also be a multiple of 4096 to be encodable at all: choose the section offset so that it is (sometimes)
          if (r.chance(1, 4)) v += 8;
        }
        // v = S[ls] + lm.off + addend - (S[m.sec] + anchor)
        int64_t sk = label_in_k ? int64_t(S[size_t(m.sec)] + m.anchor) + v - int64_t(lm.off) - addend_of(m)
                                : int64_t(S[size_t(lm.sec)] + lm.off) + addend_of(m) - v - int64_t(m.anchor);
        if (sk >= int64_t(end) && (P.arch != A_X86 || sk < (1ll << 30))) { want = uint64_t(sk); have = true; }
      }
      if (!have) {
        static const uint64_t gaps64[] = { 0, 0, 4096, 1u << 20, (128ull << 20) + 4096, (2ull << 30) + 65536, (4ull << 30) + 8192, 1ull << 40 };
        static const uint64_t gaps32[] = { 0, 0, 4096, 1u << 20, 64u << 20 };
        want = end + (P.arch == A_X86 ? gaps32[r.below(5)] : gaps64[r.below(8)]);
      }
      uint64_t a = align_up(want, al);
      if (al > 1 && a != want && (a - want) && r.chance(1, 2) && a - al >= end) a -= al;   // round down sometimes (stay on the same side is not guaranteed; sides are measured)
      S[k] = a;
      end = S[k] + secs[k]->buffer_size();
    }
    for (size_t k = 0; k < secs.size(); k++) secs[k]->set_offset(S[k]);
  }

  void note_verified(const RefM& m, const LabelM& lm) {
    if (lm.ltype) { CNT["refs_verified_on_named_labels"]++; CNT[std::string("refs_verified_on_") + kLTypeName[lm.ltype] + "_labels"]++; }
    if (m.s.rex && m.prefix_seen) CNT["refs_verified_with_forced_rex"]++;
    if (m.s.hint && m.prefix_seen) CNT["refs_verified_with_branch_hint_prefix"]++;
    if (m.s.kind == K_XBEGIN || m.s.kind == K_BC || m.s.kind == K_PRFM) CNT[std::string("refs_verified_") + kKindName[m.s.kind]]++;
    if (m.s.kind == K_MEM && (m.s.disp <= INT32_MIN + 16 || m.s.disp >= INT32_MAX - 16)) CNT["refs_verified_addend_at_int32_end"]++;
    if (m.s.kind == K_EMBED && m.fsize < 4) CNT["refs_verified_embed_label_1_or_2_bytes"]++;
    if (m.after_mid) CNT["refs_verified_emitted_after_intermediate_pass"]++;
    if (m.resolved_mid) CNT["refs_verified_resolved_by_intermediate_pass"]++;
  }

  void run();
  void final_checks(Rng& r);
};

static std::vector<std::string> g_c03_dummy;

void C03Run::run() {
  Rng r(P.lseed);
  Environment env(arch_of(P.arch));
  if (code.init(env) != Error::kOk) harness_fail("CodeHolder::init");
  secs.push_back(code.text_section());
  for (size_t i = 1; i < P.secs.size(); i++) {
    Section* s = nullptr;
    std::string name = fmt(".s%zu", i);
    if (code.new_section(Out(s), name.c_str(), SIZE_MAX, SectionFlags::kNone, P.secs[i].align, P.secs[i].order) != Error::kOk || !s) harness_fail("new_section");
    secs.push_back(s);
  }
  if (P.arch == A_A64) { aa.reset(new a64::Assembler(&code)); ba = aa.get(); } else { xa.reset(new x86::Assembler(&code)); ba = xa.get(); }
  if (P.predicted && P.arch != A_A64) { ba->add_encoding_options(EncodingOptions::kPredictedJumps); CNT["programs_with_predicted_jumps_option"]++; }
  item_ref.assign(P.items.size(), -1);
  labels.resize(size_t(P.nlabels));

  for (size_t ii = 0; ii < P.items.size(); ii++) {
    const Item& it = P.items[ii];
    switch (it.t) {
      case I_REF: do_ref(it, int(ii)); break;
      case I_BIND: do_bind(it.label); if (mid_done) CNT["binds_after_intermediate_pass"]++; break;
      case I_BINDFAR: do_bind_far(it.label, it.v); break;
      case I_ALIGN: { Error e = ba->align(AlignMode(it.amode), it.aval); CNT["aligns"]++; if (e != Error::kOk) CNT["align_errors"]++; break; }
      case I_DATA: filler(it.n); break;
      case I_SECTION: { if (size_t(it.sec) < secs.size() && !mid_done) { if (ba->section(secs[size_t(it.sec)]) != Error::kOk) harness_fail("section()"); cursec = it.sec; CNT["section_switches"]++; } break; }
      case I_PADFWD: {
        int ri = it.refitem >= 0 ? item_ref[size_t(it.refitem)] : -1;
        if (ri < 0) break;
        const RefM& m = refs[size_t(ri)];
        if (m.err != Error::kOk || m.sec != cursec) break;
        int64_t n = int64_t(m.anchor) + it.v - addend_of(m) - int64_t(off());
        if (n > 0 && uint64_t(n) <= g_zero_size) filler(uint64_t(n));
        break;
      }
      case I_PADBWD: {
        const LabelM& lm = labels[size_t(it.label)];
        if (!lm.bound || lm.sec != cursec) break;
        int64_t n = int64_t(lm.off) - it.v - it.est - int64_t(off());
        if (n > 0 && uint64_t(n) <= g_zero_size) filler(uint64_t(n));
        break;
      }
    }
    if (ii % 8 == 7) check_count("item");
    if (int(ii) == P.midpass && !tainted) do_midpass();
  }
  maxc("max_pending_fixups_on_one_label", max_pending);
  final_checks(r);
}

void C03Run::final_checks(Rng& r) {
  const char* an = kArchName[P.arch];
  // ---- layout
  std::vector<uint64_t> own = own_layout();
  if (P.manual) { manual_layout(r); CNT["programs_manual_layout"]++; }
  else {
    Error e = code.flatten();
    if (e != Error::kOk) { viol(fmt("flatten:error:%s", errname(e)), "flatten() failed on a small program"); return; }
    S.resize(secs.size());
    bool same = true;
    for (size_t i = 0; i < secs.size(); i++) { S[i] = secs[i]->offset(); if (S[i] != own[i] && secs[i]->buffer_size()) same = false; }
    CNT[same ? "own_layout_equals_flatten" : "own_layout_differs_from_flatten"]++;
    if (!same && g_verbose) fprintf(stderr, "program %llu: own layout differs from flatten()\n", (ull)g_prog);
  }
  // ---- cross-section resolution
  Error re = code.resolve_cross_section_fixups();
  if (re != Error::kOk) CNT[std::string("resolve_error_") + errname(re)]++;
  model_resolve(S, false);
  check_count("resolve_cross_section_fixups");
  if (P.resolve_again && !tainted) {
    // the same layout and resolution once more (JitRuntime::add does this after the user sized the code): nothing may
    // change - what is left stays counted, what was resolved is not resolved (or counted) a second time
    if (!P.manual) {
      Error e2 = code.flatten();
      if (e2 != Error::kOk) viol(fmt("flatten:error:%s", errname(e2)), "second flatten() failed");
      for (size_t i = 0; i < secs.size(); i++) if (secs[i]->offset() != S[i]) {
        // (an EMPTY section can move by the alignment padding of its successor: the first pass extended the virtual size of
        //  its predecessor. The layout of empty sections is C10's subject; references resolved with the earlier offset are
        //  judged against that offset below, or not at all.)
        if (secs[i]->buffer_size()) { viol("flatten:second-pass-moved-a-nonempty-section", fmt("section %zu offset %llu -> %llu without any change in between", i, (ull)S[i], (ull)secs[i]->offset())); tainted = true; }
        else CNT["second_flatten_moved_an_empty_section"]++;
        S[i] = secs[i]->offset();
      }
    }
    Error re2 = code.resolve_cross_section_fixups();
    model_resolve(S, false);
    if (re2 != re) CNT["resolve_again_other_result"]++;
    CNT["resolve_again_programs"]++;
    if (model_count()) CNT["resolve_again_programs_with_fixups_left_over"]++;
    check_count("resolve_cross_section_fixups:again");
  }
  size_t remaining = model_count();
  CNT[remaining ? "programs_with_unresolved_left" : "programs_fully_resolved"]++;
  if (!count_tainted) {
    bool zero = code.unresolved_fixup_count() == 0;
    if (zero != (remaining == 0)) viol("unresolved-count:zero-iff-none-remain", fmt("%s: unresolved_fixup_count()=%zu, references that remain unresolved by our count: %zu", an, code.unresolved_fixup_count(), remaining));
    if (code.has_unresolved_fixups() != !zero) viol("unresolved-count:has_unresolved_fixups-inconsistent", "has_unresolved_fixups() disagrees with unresolved_fixup_count()");
  }
  // ---- relocation (embed_label, 32-bit [label] operands, label deltas)
  bool expect_reloc_fail = false; std::string why;
  auto abs_label = [&](const LabelM& lm) { return S[size_t(lm.sec)] + lm.off; };
  for (RefM& m : refs) {
    if (m.err != Error::kOk || m.state == ST_SKIPPED) continue;
    const LabelM& lm = labels[size_t(m.s.label)];
    if (m.s.kind == K_DELTA) {
      if (m.delta_immediate) continue;
      const LabelM& bm = labels[size_t(m.s.base)];
      if (!lm.bound || !bm.bound) { expect_reloc_fail = true; why = "label delta with a label that was never bound"; continue; }
      if (lm.poisoned || bm.poisoned) continue;
      int64_t d = int64_t(abs_label(lm) - abs_label(bm));
      int bits = m.fsize * 8;
      if (bits < 64 && (d < -(1ll << (bits - 1)) || d > (1ll << (bits - 1)) - 1)) { expect_reloc_fail = true; m.reported = true; why = fmt("label delta %lld does not fit %d signed bytes", (sll)d, m.fsize); }
    }
    else if (m.has_reloc) {
      if (!lm.bound) { expect_reloc_fail = true; why = "absolute reference to a label that was never bound"; continue; }
      if (lm.poisoned) continue;
      uint64_t v = P.base + abs_label(lm) + uint64_t(addend_of(m));
      if (m.fsize < 8 && (v >> (8 * m.fsize))) { expect_reloc_fail = true; m.reported = true; why = fmt("absolute value 0x%llx does not fit %d bytes", (ull)v, m.fsize); }
    }
  }
  CodeHolder::RelocationSummary sum;
  Error le = code.relocate_to_base(P.base, &sum);
  bool reloc_ok = le == Error::kOk;
  if (reloc_ok) CNT["relocate_ok"]++; else CNT[std::string("relocate_error_") + errname(le)]++;
  if (!reloc_ok && !expect_reloc_fail && !tainted) viol(fmt("relocate:unexpected-error:%s", errname(le)), fmt("%s: relocate_to_base(0x%llx) failed with %s although every relocation is representable by our evaluation", an, (ull)P.base, errname(le)));
  if (expect_reloc_fail) CNT[reloc_ok ? "relocate_ok_though_unrepresentable_predicted" : "relocate_failure_predicted_and_reported"]++;

  // ---- image
  uint64_t total = 0;
  for (size_t i = 0; i < secs.size(); i++) total = std::max<uint64_t>(total, S[i] + secs[i]->buffer_size());
  std::unique_ptr<GuardBuf> img;
  if (!P.manual && total > 0 && total <= (48u << 20)) {
    img.reset(new GuardBuf(size_t(total)));
    materialize_null_buffers(code);
    Error ce = code.copy_flattened_data(img->data(), size_t(total), CopySectionFlags::kPadSectionBuffer | CopySectionFlags::kPadTargetBuffer);
    if (ce != Error::kOk) { viol(fmt("copy_flattened_data:error:%s", errname(ce)), fmt("copy_flattened_data(size=%llu) failed", (ull)total)); img.reset(); }
    else if (!img->intact()) { viol("copy_flattened_data:wrote-outside", "guard band around the destination was modified"); }
    CNT["images_copied"]++;
  }
  maxc("max_image_bytes", total);
  auto bytes_at = [&](int sec, uint64_t o) -> const uint8_t* { return img ? img->data() + S[size_t(sec)] + o : secs[size_t(sec)]->data() + o; };

  // ---- every reference site
  for (size_t i = 0; i < refs.size(); i++) {
    RefM& m = refs[i];
    if (m.state == ST_SKIPPED) continue;
    const LabelM& lm = labels[size_t(m.s.label)];
    CNT["refs_total"]++;
    if (lm.poisoned) { CNT["refs_not_judged_poisoned_label"]++; continue; }
    bool xsec = lm.bound && lm.sec != m.sec;
    std::string cls_base = std::string(an) + ":" + (m.form.empty() ? std::string(kKindName[m.s.kind]) : m.form);
    if (m.state == ST_ERR) {
      // reported at emit time. Either the requested form really cannot hold the distance (that is "reported", fine), or the
      // form does not exist (short call, long jecxz/loop), or - nothing else is a reason - a representable reference was refused.
      CNT["refs_reported_at_emit"]++;
      const bool same_at_emit = m.bound_at_emit && m.same_sec_at_emit;
      enum { J_OUTSIDE, J_NOFORM, J_DESIGN, J_AMBIGUOUS, J_REFUSED } j = J_REFUSED;
      int f = F_NONE; int64_t v = 0; std::string fname;
      if (m.s.kind == K_EMBED) { fname = fmt("%d", m.s.size); }
      else if (m.s.kind == K_DELTA) {
        int fsz = m.s.size ? m.s.size : (P.arch == A_X86 ? 4 : 8); fname = fmt("%d", fsz);
        if (m.bound_at_emit && m.base_bound_at_emit && m.label_sec_at_emit == m.base_sec_at_emit) {
          v = int64_t(lm.off - m.base_off_at_emit); int bits = fsz * 8;
          if (bits < 64 && (v < -(1ll << (bits - 1)) || v > (1ll << (bits - 1)) - 1)) j = J_OUTSIDE;
        }
      }
      else if (P.arch == A_A64) {
        f = a64_fmt_of_class(a64_expected_class(m.s.kind)); fname = kFmtName[f];
        if (same_at_emit) { v = int64_t(lm.off) + addend_of(m) - int64_t(m.pre); if (!fits(f, v)) j = J_OUTSIDE; }
      }
      else if (m.s.kind == K_MEM) {
        fname = P.arch == A_X64 ? "rel32" : "abs32"; f = P.arch == A_X64 ? F_REL32 : F_ABS32;
        if (P.arch == A_X64) {
          int64_t adj = int64_t(m.s.disp) - 4 - kMemVars[m.s.var].trail;
          if (adj < INT32_MIN || adj > INT32_MAX) j = J_DESIGN;      // the addend minus the bytes that follow the field must fit the fixup's int32 (documented at the site)
          else if (same_at_emit) {
            // the instruction was not emitted, its length (5..15 bytes) is not known exactly
            int64_t v5 = int64_t(lm.off) + m.s.disp - int64_t(m.pre + 5), v15 = int64_t(lm.off) + m.s.disp - int64_t(m.pre + 15);
            v = v5;
            if (!fits(F_REL32, v5) && !fits(F_REL32, v15)) j = J_OUTSIDE; else if (!fits(F_REL32, v5) || !fits(F_REL32, v15)) j = J_AMBIGUOUS;
          }
        }
      }
      else {
        int l8 = x86_form_len(P.predicted, m.s, F_REL8), l32 = x86_form_len(P.predicted, m.s, F_REL32);
        fname = l8 >= 0 && l32 >= 0 ? "rel8|rel32" : l8 >= 0 ? "rel8" : l32 >= 0 ? "rel32" : "none"; f = l8 >= 0 && l32 < 0 ? F_REL8 : F_REL32;
        if (l8 < 0 && l32 < 0) j = J_NOFORM;
        else if (same_at_emit) {
          int64_t v8 = int64_t(lm.off) - int64_t(m.pre + uint64_t(l8 < 0 ? 0 : l8)), v32 = int64_t(lm.off) - int64_t(m.pre + uint64_t(l32 < 0 ? 0 : l32));
          v = l8 >= 0 && l32 < 0 ? v8 : v32;
          if (!((l8 >= 0 && fits(F_REL8, v8)) || (l32 >= 0 && fits(F_REL32, v32)))) j = J_OUTSIDE;
        }
      }
      switch (j) {
        case J_OUTSIDE:
          g_classes.insert(cls_base + "." + fname + ":" + (v < 0 ? "bwd" : "fwd") + ":same:outside-reported-at-emit"); CNT["refs_unrepresentable_reported_at_emit"]++;
          if (lm.far) CNT["far_bound_label_refs_outside_reported_at_emit"]++;
          break;
        case J_NOFORM: CNT["refs_rejected_at_emit_form_does_not_exist"]++; g_classes.insert(cls_base + (m.s.opt == 1 ? ".short" : ".long") + ":form-does-not-exist:reported-at-emit"); break;
        case J_DESIGN: CNT["refs_rejected_at_emit_addend_adjustment_overflows_int32"]++; g_classes.insert(cls_base + ":addend-at-int32-end:reported-at-emit"); break;
        case J_AMBIGUOUS: CNT["refs_rejected_at_emit_not_judged_length_unknown"]++; break;
        case J_REFUSED:
          viol(fmt("representable-rejected-at-emit:%s:%s:%s:%s", an, kKindName[m.s.kind], fname.c_str(), same_at_emit ? "bound-before" : m.bound_at_emit ? "bound-in-other-section" : "unbound"),
               fmt("%s %s (opt=%d var=%d size=%d addend=%lld%s%s) at section %d offset %llu was refused with %s; the label was %s at that time%s - the form can hold that",
                   an, kKindName[m.s.kind], m.s.opt, m.s.var, m.s.size, (sll)addend_of(m), m.s.rex ? " rex" : "", m.s.hint ? " hint" : "", m.sec, (ull)m.pre, errname(m.err),
                   same_at_emit ? "bound in the same section" : m.bound_at_emit ? "bound in another section" : "not bound", same_at_emit ? fmt(" at offset %llu (distance about %lld)", (ull)lm.off, (sll)v).c_str() : ""));
          break;
      }
      CNT["refs_rejected_at_emit_judged"]++;
      continue;
    }
    if (m.state == ST_PENDING) { CNT["refs_left_pending_label_never_bound"]++; g_classes.insert(cls_base + ":never-bound:counted-unresolved"); continue; }
    const uint8_t* fp = bytes_at(m.sec, m.fpos);
    if (m.state == ST_CROSS) {
      // must be unrepresentable (that is how the model got here); it has to stay counted (checked above) and must not be half-patched
      int64_t v = int64_t(S[size_t(lm.sec)] + lm.off) + addend_of(m) - int64_t(S[size_t(m.sec)] + m.anchor);
      CNT["refs_unrepresentable_left_unresolved"]++;
      g_classes.insert(cls_base + ":" + (v < 0 ? "bwd" : "fwd") + ":" + (xsec ? "other" : "same") + ":outside-counted-unresolved");
      int64_t lo, hi, unit; fmt_limits(m.f, lo, hi, unit);
      if ((v > hi && v - hi <= 64 * unit) || (v < lo && lo - v <= 64 * unit)) CNT["near_limit_outside"]++;
      continue;
    }
    // ---- states with a value to check
    if (m.s.kind == K_DELTA) {
      const LabelM& bm = labels[size_t(m.s.base)];
      if (bm.poisoned) continue;
      if (m.state == ST_RELOC && !reloc_ok) { CNT["refs_not_judged_relocation_failed"]++; if (m.reported) g_classes.insert(cls_base + ":expression:outside-reported-by-relocate"); continue; }
      int64_t d = int64_t(abs_label(lm) - abs_label(bm));
      int bits = m.fsize * 8;
      uint64_t got = rd(fp, m.fsize);
      uint64_t mask = bits == 64 ? ~0ull : ((1ull << bits) - 1);
      bool fits_signed = bits == 64 || (d >= -(1ll << (bits - 1)) && d <= (1ll << (bits - 1)) - 1);
      bool fits_unsigned = bits == 64 || (d >= 0 && uint64_t(d) <= mask);
      const char* path = m.delta_immediate ? "both-bound-same-section" : "expression";
      if (fits_signed || fits_unsigned) {
        if (got != (uint64_t(d) & mask)) viol(fmt("%s:embed_label_delta:%d:%s:wrong-value", an, m.fsize, path), fmt("label delta field holds 0x%llx, labels are %lld apart", (ull)got, (sll)d));
        else { CNT["refs_verified"]++; g_classes.insert(cls_base + ":" + path + ":" + (d < 0 ? "neg" : "pos") + ":" + ((lm.sec != bm.sec) ? "other" : "same") + ":inside"); }
      }
      else {
        viol(fmt("embed_label_delta:%s:silently-truncated", path), fmt("%s: embed_label_delta(size %d) of labels %lld bytes apart returned kOk%s and the field holds 0x%llx", an, m.fsize, (sll)d, m.state == ST_RELOC ? ", relocate_to_base() succeeded" : "", (ull)got));
      }
      continue;
    }
    if (m.has_reloc) {
      if (!reloc_ok) { CNT["refs_not_judged_relocation_failed"]++; if (m.reported) { g_classes.insert(cls_base + ":abs:outside-reported-by-relocate"); if (m.s.kind == K_EMBED && m.fsize < 4) CNT["refs_embed_label_1_or_2_bytes_reported_by_relocate"]++; if (m.s.kind == K_MEM && (m.s.disp <= INT32_MIN + 16 || m.s.disp >= INT32_MAX - 16)) CNT["refs_addend_at_int32_end_reported_by_relocate"]++; } continue; }
      uint64_t v = P.base + abs_label(lm) + uint64_t(addend_of(m));
      uint64_t got = rd(fp, m.fsize);
      bool ok = m.fsize == 8 ? got == v : (!(v >> (8 * m.fsize)) ? got == v : false);
      if (!ok) viol(fmt("%s:%s:absolute-field-wrong", an, kKindName[m.s.kind]), fmt("%s %s: %d-byte field holds 0x%llx, base 0x%llx + section offset %llu + label offset %llu + addend %lld = 0x%llx (label bound %s the reference, %s section)",
                     an, m.form.c_str(), m.fsize, (ull)got, (ull)P.base, (ull)S[size_t(lm.sec)], (ull)lm.off, (sll)addend_of(m), (ull)v, m.bound_at_emit ? "before" : "after", xsec ? "other" : "same"));
      else { CNT["refs_verified"]++; note_verified(m, lm); g_classes.insert(cls_base + ":" + (m.bound_at_emit ? "bound-before" : "bound-after") + ":" + (xsec ? "other" : "same") + ":inside"); }
      if (ok && g_decode.size() < g_decode_cap && P.arch == A_X86 && m.s.kind == K_MEM && r.chance(1, 3))
        g_decode.push_back(fmt("{\"arch\":\"x86\",\"what\":\"abs\",\"form\":%s,\"bytes\":\"%s\",\"expect\":\"%llu\"}", jstr(m.form).c_str(), hexstr(bytes_at(m.sec, m.pre), size_t(m.post - m.pre)).c_str(), (ull)v));
      continue;
    }
    // pc-relative formats
    int64_t want = int64_t(S[size_t(lm.sec)] + lm.off) + addend_of(m) - int64_t(S[size_t(m.sec)] + m.anchor);
    if (m.resolved_by_pass) {
      // patched by a resolve pass with the section offsets of that time (they must not have moved since: after the
      // intermediate pass only the last section grew)
      if (int64_t(S[size_t(lm.sec)]) - int64_t(S[size_t(m.sec)]) != m.res_delta) { CNT["refs_not_judged_layout_moved_after_resolve_pass"]++; continue; }
      if (m.resolved_mid) CNT["intermediate_pass_refs_judged"]++;
    }
    int64_t got;
    if (P.arch == A_A64) got = a64_disp(uint32_t(rd(fp, 4)), m.f);
    else got = sx(rd(fp, m.fsize), m.fsize * 8);
    if (!fits(m.f, want)) {
      viol(fmt("unrepresentable-not-reported:%s:%s:%s", an, kFmtName[m.f], kKindName[m.s.kind]),
           fmt("%s %s: displacement %lld does not fit the %s field, yet emit/bind/resolve reported nothing and the reference is not counted as unresolved; field decodes to %lld", an, m.form.c_str(), (sll)want, kFmtName[m.f], (sll)got));
      continue;
    }
    if (got != want) {
      const char* how = m.state == ST_DIRECT ? "bound-before" : (xsec ? "cross-section" : "bound-after");
      viol(fmt("%s:%s:%s:%s:wrong-displacement", an, kKindName[m.s.kind], kFmtName[m.f], how),
           fmt("%s %s at section %d offset %llu..%llu (%s): field decodes to %lld, label (section %d offset %llu)%+lld - anchor = %lld; trailing bytes %d",
               an, m.form.c_str(), m.sec, (ull)m.pre, (ull)m.post, hexstr(bytes_at(m.sec, m.pre), size_t(std::min<uint64_t>(m.post - m.pre, 16))).c_str(), (sll)got, lm.sec, (ull)lm.off, (sll)addend_of(m), (sll)want, m.trail));
      continue;
    }
    CNT["refs_verified"]++; note_verified(m, lm);
    int64_t lo, hi, unit; fmt_limits(m.f, lo, hi, unit);
    bool near = (hi - want <= 64 * unit) || (want - lo <= 64 * unit);
    if (lm.far && m.state == ST_DIRECT) { CNT["far_bound_label_refs_verified"]++; if (near) CNT["far_bound_label_refs_verified_near_limit"]++; }
    if (near) CNT["near_limit_inside"]++;
    if (m.realloc_before_patch) CNT["refs_verified_patched_after_buffer_moved"]++;
    g_classes.insert(cls_base + ":" + (want < 0 ? "bwd" : "fwd") + ":" + (xsec ? "other" : "same") + ":inside" + (m.state == ST_DIRECT ? ":bound-before" : ":bound-after"));
    if (llabs(want) >= (1ll << 27)) CNT["verified_distance_ge_128MiB"]++;
    if (llabs(want) >= (1ll << 20)) CNT["verified_distance_ge_1MiB"]++;
    if (llabs(want) >= (1ll << 31) - (1 << 16)) CNT["verified_distance_near_2GiB"]++;
    if (g_decode.size() < g_decode_cap && (near ? r.chance(1, 2) : r.chance(1, 12))) {
      uint64_t len = m.post - m.pre;
      g_decode.push_back(fmt("{\"arch\":\"%s\",\"what\":\"rel\",\"form\":%s,\"bytes\":\"%s\",\"expect\":\"%lld\",\"page_off\":%llu}", an, jstr(m.form).c_str(), hexstr(bytes_at(m.sec, m.pre), size_t(len)).c_str(),
                             (sll)(want + int64_t(P.arch == A_A64 ? 0 : len)), (ull)((P.base + S[size_t(m.sec)] + m.pre) & 0xFFF)));
    }
  }
  if (g_samples.size() < 3 && refs.size() >= 4) {
    std::string s = fmt("%s program %llu: %zu sections (%s layout), %d labels, %zu references:", an, (ull)g_prog, secs.size(), P.manual ? "manual" : "flatten", P.nlabels, refs.size());
    for (size_t i = 0; i < refs.size() && i < 6; i++) { const RefM& m = refs[i]; s += fmt(" [%s -> L%d sec%d@%llu state=%d]", m.form.c_str(), m.s.label, m.sec, (ull)m.pre, m.state); }
    g_samples.push_back(s);
  }
}

static std::string describe_c03(const ProgSpec& P) {
  return fmt("c03 arch=%s sections=%zu manual=%d items=%zu labels=%d xsec_bound=%d base=0x%llx profile=%d", kArchName[P.arch], P.secs.size(), int(P.manual), P.items.size(), P.nlabels, int(P.allow_xsec_bound), (ull)P.base, P.profile);
}

static void run_c03(Rng& r, int profile) {
  ProgSpec P = gen_c03(r, profile);
  g_prog_desc = describe_c03(P);
  C03Run run(P);
  run.run();
  CNT["programs"]++;
  CNT[std::string("programs_") + kArchName[P.arch]]++;
  CNT[fmt("programs_%zu_sections", P.secs.size())]++;
}

// ---------------------------------------------------------------------------------------------------------
// Native execution helper: the code runs in a forked child (a wrong jump cannot hurt the harness); results come back
// through a shared page.
// ---------------------------------------------------------------------------------------------------------

struct ExecShared { uint32_t done; uint32_t count; uint64_t ret; uint32_t nrec; uint32_t pad; uint64_t rec[64][4]; uint32_t trace[8192]; };
static ExecShared* g_sh = nullptr;
static void init_shared() {
  void* p = mmap(nullptr, sizeof(ExecShared), PROT_READ | PROT_WRITE, MAP_SHARED | MAP_ANONYMOUS, -1, 0);
  if (p == MAP_FAILED) harness_fail("mmap shared");
  g_sh = static_cast<ExecShared*>(p);
}
// returns 0 when the child finished normally, the signal number when it was killed, -1 on timeout
static int fork_call(const std::function<void()>& f) {
  fflush(stdout); fflush(stderr);
  pid_t pid = fork();
  if (pid < 0) harness_fail("fork");
  if (pid == 0) {
    struct sigaction sa; memset(&sa, 0, sizeof sa); sa.sa_handler = SIG_DFL;
    int sigs[] = { SIGSEGV, SIGBUS, SIGILL, SIGTRAP, SIGFPE, SIGABRT };
    for (int s : sigs) sigaction(s, &sa, nullptr);
    alarm(10);
    f();
    _exit(0);
  }
  int st = 0;
  if (waitpid(pid, &st, 0) != pid) harness_fail("waitpid");
  if (WIFSIGNALED(st)) return WTERMSIG(st) == SIGALRM ? -1 : WTERMSIG(st);
  return WEXITSTATUS(st) == 0 ? 0 : 1000 + WEXITSTATUS(st);
}

// ---------------------------------------------------------------------------------------------------------
// exec mode: x86-64 jump programs executed natively
// ---------------------------------------------------------------------------------------------------------

enum { T_JMP = 0, T_JMP_LONG, T_JCC_T, T_JCC_NT, T_LEA, T_TABLE, T_DELTA, T_JMP_SHORT, T_JCC_SHORT, T_JECXZ, T_LOOP, T_CALL, T_CALL_TABLE, T_COUNT };
static const char* kTName[] = { "jmp", "jmp.long", "jcc.taken", "jcc.not-taken+jmp", "lea+jmp-reg", "jmp[label-table]", "label-delta+jmp-reg", "jmp.short", "jcc.short", "jecxz", "loop", "call", "call[label-table]" };

static void run_exec(Rng& r) {
  using namespace x86;
  int nb = int(3 + r.below(22));
  int nsec = int(1 + r.below(3));
  g_prog_desc = fmt("exec blocks=%d sections=%d", nb, nsec);
  CodeHolder code;
  if (code.init(Environment(Arch::kX64)) != Error::kOk) harness_fail("init");
  std::vector<Section*> secs; secs.push_back(code.text_section());
  for (int i = 1; i < nsec; i++) {
    Section* s = nullptr; static const uint32_t al[] = { 1, 8, 16, 64 };
    if (code.new_section(Out(s), fmt(".x%d", i).c_str(), SIZE_MAX, SectionFlags::kExecutable, al[r.below(4)], i) != Error::kOk) harness_fail("new_section");
    secs.push_back(s);
  }
  x86::Assembler a(&code);
  const size_t NB = size_t(nb);
  std::vector<int> path(NB), order(NB), pos_in_order(NB), next(NB, -1);
  for (int i = 0; i < nb; i++) path[size_t(i)] = order[size_t(i)] = i;
  for (int i = nb - 1; i > 0; i--) { std::swap(path[size_t(i)], path[r.below(uint64_t(i) + 1)]); std::swap(order[size_t(i)], order[r.below(uint64_t(i) + 1)]); }
  for (int i = 0; i < nb; i++) pos_in_order[size_t(order[size_t(i)])] = i;
  for (int i = 0; i + 1 < nb; i++) next[size_t(path[size_t(i)])] = path[size_t(i) + 1];
  std::vector<int> bsec(NB); std::vector<uint64_t> fill(NB); std::vector<bool> by_call(NB, false), near_fwd(NB, false);
  for (int b = 0; b < nb; b++) {
    bsec[size_t(b)] = int(r.below(uint64_t(nsec)));
    uint64_t x = r.below(100);
    fill[size_t(b)] = x < 50 ? r.below(17) : x < 75 ? 100 + r.below(45) : x < 87 ? 1000 + r.below(4000) : x < 93 ? 32600 + r.below(400) : x < 98 ? 66000 + r.below(9000) : (1u << 20) + r.below(200000);
    if (b != path[0]) by_call[size_t(b)] = r.chance(1, 4);
  }
  for (int b = 0; b < nb; b++) {
    int t = next[size_t(b)];
    if (t >= 0 && pos_in_order[size_t(t)] == pos_in_order[size_t(b)] + 1 && bsec[size_t(t)] == bsec[size_t(b)] && r.chance(2, 3)) { near_fwd[size_t(b)] = true; fill[size_t(t)] = r.below(50); }
  }
  std::vector<Label> L(NB); std::vector<bool> bound(NB, false);
  for (int b = 0; b < nb; b++) L[size_t(b)] = a.new_label();
  Label Trap = a.new_label();
  struct Slot { Label S; int kind; Label T, A; };
  struct Const { Label C; int disp; uint64_t val; int width; };
  std::vector<Slot> slots; std::vector<Const> consts;
  std::vector<int> call_sec(NB, -1); std::vector<uint64_t> call_post(NB, 0);
  int cursec = 0;
  bool any_err = false, short_unbound_risk = false;
  size_t bind_errors = 0;
  std::vector<std::string> used;

  auto must = [&](Error e, const char* what) { if (e != Error::kOk) { any_err = true; viol(fmt("exec:emit-error:%s", what), fmt("%s failed: %s", what, errname(e))); } };
  auto emit_slot_inline = [&](const Slot& s) {
    Error e = a.bind(s.S); if (e != Error::kOk) bind_errors++;
    if (s.kind == 0) must(a.embed_label(s.T, 8), "embed_label"); else must(a.embed_label_delta(s.T, s.A, 4), "embed_label_delta");
  };
  auto transfer = [&](int from, int t, bool call_edge) {
    bool tb = bound[size_t(t)], other = tb && bsec[size_t(t)] != cursec;
    bool nearb = tb && !other && (uint64_t(a.offset()) - code.label_offset(L[size_t(t)])) < 90;
    bool nearf = !tb && from >= 0 && near_fwd[size_t(from)];
    std::vector<int> ks;
    if (call_edge) { if (!other) ks.push_back(T_CALL); ks.push_back(T_CALL_TABLE); }
    else {
      if (!other) { ks = { T_JMP, T_JMP_LONG, T_JCC_T, T_JCC_NT, T_LEA }; if (nearb || nearf) { ks.push_back(T_JMP_SHORT); ks.push_back(T_JCC_SHORT); ks.push_back(T_JECXZ); ks.push_back(T_LOOP); ks.push_back(T_JMP_SHORT); ks.push_back(T_JECXZ); } }
      ks.push_back(T_TABLE); ks.push_back(T_DELTA);
    }
    int k = ks[r.below(ks.size())];
    if (!call_edge && !other && (nearb || nearf) && r.chance(3, 5)) { static const int sk[] = { T_JMP_SHORT, T_JCC_SHORT, T_JECXZ, T_LOOP }; k = sk[r.below(4)]; }
    const Label& T = L[size_t(t)];
    static const int ccT[] = { 4, 3, 6, 13, 14, 9, 1, 10 }, ccF[] = { 5, 2, 7, 12, 15, 8, 0, 11 };
    CNT[std::string("exec_transfer_") + kTName[k]]++;
    g_classes.insert(std::string("exec:") + kTName[k] + ":" + (tb ? "bwd" : "fwd") + ":" + (tb ? (other ? "other" : "same") : (bsec[size_t(t)] != cursec ? "other" : "same")));
    switch (k) {
      case T_JMP: must(a.jmp(T), "jmp"); break;
      case T_JMP_LONG: must(a.long_().jmp(T), "jmp.long"); break;
      case T_JCC_T: a.cmp(eax, eax); if (r.chance(1, 2)) a.long_(); must(a.j(x86::CondCode(ccT[r.below(8)]), T), "jcc"); a.ud2(); break;
      case T_JCC_NT: a.cmp(eax, eax); must(a.j(x86::CondCode(ccF[r.below(8)]), Trap), "jcc"); must(a.jmp(T), "jmp"); break;
      case T_LEA: { int32_t d = r.chance(1, 2) ? 0 : int32_t(r.below(4000)) - 2000; must(a.lea(rdx, x86::ptr(T, d)), "lea"); if (d) a.sub(rdx, Imm(d)); a.jmp(rdx); break; }
      case T_JMP_SHORT: case T_JCC_SHORT: case T_JECXZ: case T_LOOP: {
        Error e;
        if (k == T_JMP_SHORT) e = a.short_().jmp(T);
        else if (k == T_JCC_SHORT) { a.cmp(eax, eax); e = a.short_().j(x86::CondCode(ccT[r.below(8)]), T); }
        else if (k == T_JECXZ) { a.xor_(ecx, ecx); e = r.chance(1, 2) ? a.jecxz(ecx, T) : a.jecxz(rcx, T); }
        else { a.mov(ecx, Imm(2)); e = a.loop(T); }
        if (e != Error::kOk) {
          // short forms are only chosen for a bound target less than 90 bytes back or for an unbound one (fixup): no reason to refuse
          CNT["exec_short_form_rejected_at_emit"]++; any_err = true;
          viol(fmt("exec:short-form-rejected-at-emit:%s", kTName[k]), fmt("%s to a label %s was refused: %s", kTName[k], tb ? fmt("bound %llu bytes back", (ull)(uint64_t(a.offset()) - code.label_offset(T))).c_str() : "not yet bound", errname(e)));
        }
        else { if (!tb) short_unbound_risk = true; a.ud2(); }
        break;
      }
      case T_CALL: must(a.call(T), "call"); call_sec[size_t(t)] = cursec; call_post[size_t(t)] = uint64_t(a.offset()); a.ud2(); break;
      case T_TABLE: case T_CALL_TABLE: {
        Slot s; s.S = a.new_label(); s.kind = 0; s.T = T;
        if (k == T_TABLE) must(a.jmp(x86::qword_ptr(s.S)), "jmp[mem]");
        else { must(a.call(x86::qword_ptr(s.S)), "call[mem]"); call_sec[size_t(t)] = cursec; call_post[size_t(t)] = uint64_t(a.offset()); a.ud2(); }
        if (r.chance(1, 2)) emit_slot_inline(s); else slots.push_back(s);
        break;
      }
      case T_DELTA: {
        Slot s; s.S = a.new_label(); s.kind = 1; s.T = T; s.A = a.new_label();
        if (a.bind(s.A) != Error::kOk) bind_errors++;
        must(a.lea(rdx, x86::ptr(s.A)), "lea");
        must(a.movsxd(rcx, x86::dword_ptr(s.S)), "movsxd");
        a.add(rdx, rcx); a.jmp(rdx);
        if (r.chance(1, 2)) emit_slot_inline(s); else slots.push_back(s);
        break;
      }
    }
  };

  // entry stub
  Label Entry = a.new_label(); a.bind(Entry);
  a.xor_(eax, eax);
  transfer(-1, path[0], false);
  for (int oi = 0; oi < nb; oi++) {
    int b = order[size_t(oi)];
    if (bsec[size_t(b)] != cursec) { a.section(secs[size_t(bsec[size_t(b)])]); cursec = bsec[size_t(b)]; }
    for (uint64_t n = fill[size_t(b)]; n;) { uint64_t c = std::min<uint64_t>(n, sizeof g_int3); a.embed(g_int3, size_t(c)); n -= c; }
    if (r.chance(1, 5) && !(oi > 0 && near_fwd[size_t(order[size_t(oi) - 1])])) a.align(AlignMode::kCode, 1u << r.below(6));
    Error be = a.bind(L[size_t(b)]); bound[size_t(b)] = true;
    if (be != Error::kOk) bind_errors++;
    if (by_call[size_t(b)]) { a.pop(rdx); a.sub(rdx, rsi); a.mov(x86::dword_ptr(rdi, rax, 2), edx); a.inc(eax); }
    a.mov(x86::dword_ptr(rdi, rax, 2), Imm(0x1000 + b)); a.inc(eax);
    if (r.chance(1, 2)) {
      Const c; c.C = a.new_label(); static const int ds[] = { 0, 0, 4, 16, -8, 128, -132 }; c.disp = ds[r.below(7)];
      int cv = int(r.below(6));
      c.width = cv == 2 ? 1 : cv == 3 ? 2 : cv == 5 ? 8 : 4;
      c.val = cv == 1 ? r.below(100) : cv == 2 ? r.below(128) : cv == 3 ? 0x1000 + r.below(0x6000) : cv == 5 ? uint64_t(int64_t(-int64_t(r.below(1u << 30)) - 1)) : 0x10000000 + r.below(0x60000000);
      x86::Mem m = x86::ptr(c.C, c.disp, uint32_t(c.width));
      if (cv == 4) { a.mov(edx, Imm(uint32_t(c.val))); must(a.cmp(m, edx), "cmp m,r"); }
      else must(a.cmp(m, Imm(c.width == 8 ? int64_t(c.val) : int64_t(c.val))), "cmp m,imm");
      must(a.jne(Trap), "jne");
      consts.push_back(c);
      CNT[fmt("exec_const_check_width%d_%s", c.width, cv == 4 ? "reg" : cv == 1 ? "imm8" : "imm")]++;
    }
    int t = next[size_t(b)];
    if (t < 0) a.ret(); else transfer(b, t, by_call[size_t(t)]);
  }
  // trap + deferred data
  if (cursec != 0) { a.section(secs[0]); cursec = 0; }
  a.embed(g_int3, size_t(r.below(20)));
  if (a.bind(Trap) != Error::kOk) bind_errors++;
  a.mov(x86::dword_ptr(rdi, rax, 2), Imm(0xDEAD0000u)); a.inc(eax); a.ret();
  int dsec = int(r.below(uint64_t(nsec)));
  if (dsec != cursec) { a.section(secs[size_t(dsec)]); cursec = dsec; }
  a.embed(g_int3, size_t(1 + r.below(9)));
  for (const Slot& s : slots) { if (r.chance(1, 3)) a.align(AlignMode::kData, 8); emit_slot_inline(s); }
  for (const Const& c : consts) {
    uint8_t pad[160]; memset(pad, 0xCC, sizeof pad);
    uint8_t vb[8]; for (int i = 0; i < 8; i++) vb[i] = uint8_t(c.val >> (8 * i));
    if (c.disp >= 0) { if (a.bind(c.C) != Error::kOk) bind_errors++; a.embed(pad, size_t(c.disp)); a.embed(vb, size_t(c.width)); }
    else { a.embed(vb, size_t(c.width)); a.embed(pad, size_t(-c.disp - c.width)); if (a.bind(c.C) != Error::kOk) bind_errors++; a.embed(pad, 3); }
  }
  CNT["exec_programs_built"]++;
  if (any_err) return;
  if (code.flatten() != Error::kOk) { viol("exec:flatten-failed", "flatten failed"); return; }
  Error re = code.resolve_cross_section_fixups();
  if (code.unresolved_fixup_count() != 0 || re != Error::kOk || bind_errors) {
    if (short_unbound_risk && (bind_errors || code.unresolved_fixup_count())) { CNT["exec_skipped_short_forward_out_of_range"]++; return; }
    viol("exec:unresolved-after-all-binds", fmt("every label is bound and every reference is representable, yet unresolved_fixup_count()=%zu resolve=%s bind errors=%zu", code.unresolved_fixup_count(), errname(re), bind_errors));
    return;
  }
  size_t size = code.code_size();
  size_t msize = (size + 4095) & ~size_t(4095);
  void* mem = mmap(nullptr, msize, PROT_READ | PROT_WRITE | PROT_EXEC, MAP_PRIVATE | MAP_ANONYMOUS, -1, 0);
  if (mem == MAP_FAILED) harness_fail("mmap rwx");
  memset(mem, 0xCC, msize);
  uint64_t base = uint64_t(uintptr_t(mem));
  Error le = code.relocate_to_base(base);
  if (le != Error::kOk) { viol(fmt("exec:relocate-error:%s", errname(le)), "relocate_to_base failed for a program whose references are all representable"); munmap(mem, msize); return; }
  materialize_null_buffers(code);
  Error ce = code.copy_flattened_data(mem, size, CopySectionFlags::kPadSectionBuffer);
  if (ce != Error::kOk) { viol("exec:copy-failed", fmt("copy_flattened_data: %s", errname(ce))); munmap(mem, msize); return; }
  // expected trace
  std::vector<uint32_t> expect;
  for (int i = 0; i < nb; i++) {
    int b = path[size_t(i)];
    if (by_call[size_t(b)]) expect.push_back(uint32_t(secs[size_t(call_sec[size_t(b)])]->offset() + call_post[size_t(b)]));
    expect.push_back(uint32_t(0x1000 + b));
  }
  memset(g_sh, 0, sizeof(uint32_t) * 16);
  memset(g_sh->trace, 0, sizeof(uint32_t) * (expect.size() + 8));
  typedef uint32_t (*Fn)(uint32_t*, uint64_t);
  Fn fn = Fn(uintptr_t(base + secs[0]->offset()));
  int st = fork_call([&]() { g_sh->count = fn(g_sh->trace, base); g_sh->done = 1; });
  CNT["exec_programs_run"]++;
  CNT["exec_blocks_run"] += uint64_t(nb);
  maxc("exec_max_image_bytes", size);
  bool ok = st == 0 && g_sh->done == 1 && g_sh->count == expect.size();
  size_t firstbad = 0;
  if (ok) for (size_t i = 0; i < expect.size(); i++) if (g_sh->trace[i] != expect[i]) { ok = false; firstbad = i; break; }
  if (!ok) {
    std::string got, exp;
    size_t n = 0; while (n < expect.size() + 4 && g_sh->trace[n]) n++;
    for (size_t i = 0; i < n && i < 40; i++) got += fmt("%x ", g_sh->trace[i]);
    for (size_t i = 0; i < expect.size() && i < 40; i++) exp += fmt("%x ", expect[i]);
    const char* kind = st > 0 && st < 1000 ? "crashed" : st == -1 ? "hung" : (n && (g_sh->trace[n - 1] & 0xFFFF0000u) == 0xDEAD0000u) ? "reached-trap" : "trace-mismatch";
    viol(fmt("exec:%s", kind), fmt("native run: status %d, done=%u, count=%u (expected %zu), first difference at entry %zu; trace [%s] expected [%s]", st, g_sh->done, g_sh->count, expect.size(), firstbad, got.c_str(), exp.c_str()));
  }
  else CNT["exec_traces_equal"]++;
  munmap(mem, msize);
}

// ---------------------------------------------------------------------------------------------------------
// C04: programs with absolute references
// ---------------------------------------------------------------------------------------------------------

enum AKind { AK_EMBED = 0, AK_MEM32, AK_MOVABS, AK_MEMABS, AK_JMPIMM, AK_CALLIMM, AK_JCCIMM, AK_JECXZIMM, AK_A64IMM, AK_DELTA, AK_COUNT };
static const char* kAKName[] = { "embed_label", "x86-32[label]", "mov-acc-moffs", "mem[abs]", "jmp-imm", "call-imm", "jcc-imm", "jecxz-imm", "a64-imm", "embed_label_delta" };
enum TClass { TC_NEAR = 0, TC_EDGE_HI, TC_EDGE_LO, TC_FAR_REL, TC_LOW, TC_U32, TC_ABS64, TC_COUNT, TC_SITE };
static const char* kTCName[] = { "near", "edge+2GiB", "edge-2GiB", "far-rel", "low", "u32", "abs64", "", "site-relative" };
enum AItemT { AI_REF, AI_BIND, AI_DATA, AI_SECTION, AI_ALIGN };
struct AItem {
  int t = AI_DATA; int kind = 0; int label = 0, base = 0; int size = 0; int32_t disp = 0; int var = 0; int reg = 0; int cc = 0; int bit = 0;
  int tclass = TC_NEAR; int64_t toff = 0; uint64_t tabs = 0; int addrtype = 0; bool seg = false; bool store = false; uint64_t n = 0; int sec = 0; uint32_t aval = 0;
  bool idx = false; int shift = 0;    // mem[abs]: [abs + index << shift]
  bool ripform = false;               // x86-32[label] replaced by [rip + disp] assembled for 32-bit mode (relocated to an absolute address)
  int modopt = 0;                     // mov acc,[abs]: 1 = mod_rm(), 2 = mod_mr() (no moffs form)
  bool after = false;                 // emitted into the section ordered behind .addrtab
};
struct ASpec { int arch = A_X64; std::vector<SecSpec> secs; int nlabels = 0; std::vector<AItem> items; int extra = 0; /*0 none, 1 table pre-created + later section, 2 section added at the end*/
               int after_label = -1; /* bound in the section ordered behind .addrtab */ bool predicted = false;
               bool small_fields = false; /* 1- and 2-byte embed_label, bases 0 / 0x100 / 0x1000 in front of the base list */
               int late = 0; /* n > 0: after a first flatten() the first n reference items are emitted once more into the section that
                                is laid out last - at emit time the section offset is then known and non-zero */ };

static uint64_t a_target(const AItem& it, uint64_t B, int arch, uint64_t site_off) {
  uint64_t t;
  switch (it.tclass) {
    case TC_SITE: t = B + site_off + uint64_t(it.toff); break;
    case TC_NEAR: case TC_FAR_REL: t = B + uint64_t(it.toff); break;
    case TC_EDGE_HI: t = B + 0x80000000ull + uint64_t(it.toff); break;
    case TC_EDGE_LO: t = B - 0x80000000ull + uint64_t(it.toff); break;
    default: t = it.tabs; break;
  }
  if (arch == A_X86) t &= 0xFFFFFFFFull;
  return t;
}

static const int kA64ImmKinds[] = { K_B, K_BL, K_BCOND, K_CBZ, K_CBNZ, K_TBZ, K_TBNZ, K_ADR, K_ADRP };

static ASpec gen_c04(Rng& r) {
  ASpec P;
  Rng sr(r.s ^ 0xC04D1A5EED5ull);     // side stream for the dimensions added later: the main stream draws exactly as before
  { uint64_t x = r.below(100); P.arch = x < 45 ? A_X64 : x < 72 ? A_X86 : A_A64; }
  int nsec = int(1 + r.below(3));
  P.secs.resize(size_t(nsec));
  for (int i = 1; i < nsec; i++) { static const uint32_t al[] = { 1, 4, 8, 16, 64 }; P.secs[size_t(i)].align = al[r.below(5)]; if (P.arch == A_A64 && P.secs[size_t(i)].align < 4) P.secs[size_t(i)].align = 4; P.secs[size_t(i)].order = int32_t(r.below(3)); }
  if (P.arch == A_X64) { uint64_t x = r.below(100); P.extra = x < 55 ? 0 : x < 80 ? 1 : 2; }
  else if (r.chance(1, 6)) P.extra = 2;
  P.nlabels = int(1 + r.below(6));
  std::vector<bool> bound; bound.assign(size_t(P.nlabels), false);
  bool allow_risky = r.chance(1, 6); int risky_left = 1;
  int n = int(6 + r.below(26));
  auto absval_of = [](Rng& g, int tc) -> uint64_t {
    switch (tc) { case TC_LOW: return 0x1000 + g.below(0x7FFF0000ull); case TC_U32: return 0x80000000ull + g.below(0x7FFFF000ull);
                  default: { uint64_t v = g.next(); if (g.chance(1, 2)) v &= 0x00007FFFFFFFFFFFull; if (v < 0x100000000ull) v += 0x100000000ull; return v; } }
  };
  auto absval = [&](int tc) -> uint64_t { return absval_of(r, tc); };
  auto side_target = [&](AItem& it) {    // a target of any class, drawn from the side stream
    uint64_t z = sr.below(100);
    it.tclass = z < 25 ? TC_NEAR : z < 35 ? TC_EDGE_HI : z < 45 ? TC_EDGE_LO : z < 60 ? TC_FAR_REL : z < 70 ? TC_LOW : z < 80 ? TC_U32 : TC_ABS64;
    switch (it.tclass) {
      case TC_NEAR: it.toff = int64_t(sr.below(1u << 30)) - (1 << 29); if (sr.chance(1, 3)) it.toff = int64_t(sr.below(400)) - 150; break;
      case TC_EDGE_HI: case TC_EDGE_LO: it.toff = int64_t(sr.below(16384)) - 8192; if (sr.chance(1, 3)) it.toff = int64_t(sr.below(64)) - 32; break;
      case TC_FAR_REL: it.toff = (sr.chance(1, 2) ? 1 : -1) * int64_t((1ull << (32 + sr.below(14))) + sr.below(1u << 20)); break;
      default: it.tabs = absval_of(sr, it.tclass); break;
    }
  };
  for (int i = 0; i < n; i++) {
    AItem it; uint64_t x = r.below(100);
    it.reg = int(r.below(1024)); it.cc = int(r.below(16)); it.bit = int(r.below(64)); it.var = int(r.below(64));
    if (x < 62) {
      it.t = AI_REF;
      uint64_t y = r.below(100);
      if (P.arch == A_X64) it.kind = y < 14 ? AK_EMBED : y < 34 ? AK_MEMABS : y < 48 ? AK_MOVABS : y < 60 ? AK_JMPIMM : y < 78 ? AK_CALLIMM : y < 86 ? AK_JCCIMM : y < 88 ? AK_JECXZIMM : AK_DELTA;
      else if (P.arch == A_X86) it.kind = y < 15 ? AK_EMBED : y < 42 ? AK_MEM32 : y < 54 ? AK_MOVABS : y < 64 ? AK_JMPIMM : y < 76 ? AK_CALLIMM : y < 84 ? AK_JCCIMM : y < 87 ? AK_JECXZIMM : AK_DELTA;
      else it.kind = y < 25 ? AK_EMBED : y < 82 ? AK_A64IMM : AK_DELTA;
      it.label = int(r.below(uint64_t(P.nlabels))); it.base = int(r.below(uint64_t(P.nlabels)));
      bool universal = P.arch == A_X86 || it.kind == AK_JMPIMM || it.kind == AK_CALLIMM;
      // target
      uint64_t z = r.below(100);
      if (universal) it.tclass = z < 30 ? TC_NEAR : z < 40 ? TC_EDGE_HI : z < 50 ? TC_EDGE_LO : z < 65 ? TC_FAR_REL : z < 75 ? TC_LOW : z < 83 ? TC_U32 : TC_ABS64;
      else if (it.kind == AK_MOVABS) it.tclass = z < 35 ? TC_NEAR : z < 75 ? TC_ABS64 : z < 80 ? TC_EDGE_HI : z < 85 ? TC_EDGE_LO : z < 90 ? TC_FAR_REL : z < 95 ? TC_LOW : TC_U32;
      else it.tclass = TC_NEAR;
      if (!universal && it.kind != AK_MOVABS && allow_risky && risky_left > 0 && r.chance(1, 5)) { risky_left--; it.tclass = int(1 + r.below(TC_COUNT - 1)); }
      switch (it.tclass) {
        case TC_NEAR: it.toff = int64_t(r.below(1u << 30)) - (1 << 29); if (r.chance(1, 3)) it.toff = int64_t(r.below(400)) - 150; break;
        case TC_EDGE_HI: case TC_EDGE_LO: it.toff = int64_t(r.below(16384)) - 8192; if (r.chance(1, 3)) it.toff = int64_t(r.below(64)) - 32; break;
        case TC_FAR_REL: it.toff = (r.chance(1, 2) ? 1 : -1) * int64_t((1ull << (32 + r.below(14))) + r.below(1u << 20)); break;
        default: it.tabs = absval(it.tclass); break;
      }
      if (it.kind == AK_JECXZIMM && r.chance(9, 10)) { it.tclass = TC_SITE; it.toff = r.chance(4, 5) ? int64_t(r.below(240)) - 118 : (r.chance(1, 2) ? 127 + int64_t(r.below(6)) : -128 - int64_t(r.below(6))) ; }
      switch (it.kind) {
        case AK_EMBED: if (P.arch == A_X86) it.size = r.chance(1, 4) ? 0 : (r.chance(3, 4) ? 4 : 8); else it.size = r.chance(1, 3) ? 0 : (r.chance(1, 8) ? 4 : 8); break;
        case AK_DELTA: { static const int sz[] = { 1, 2, 4, 8, 0, 4, 8, 4, 8, 0, 2, 4 }; it.size = sz[r.below(12)]; break; }
        case AK_MEM32: { int tries = 0; do { it.var = int(r.below(kNumMemVars)); } while (!(kMemVars[it.var].archmask & 2) && ++tries < 100);
                         static const int32_t ds[] = { 0, 0, 4, -4, 8, 127, 128, -129, 0x1234, -0x1234 }; it.disp = ds[r.below(10)]; break; }
        case AK_MEMABS: { int tries = 0; do { it.var = int(r.below(kNumMemVars)); } while (!(kMemVars[it.var].archmask & 1) && ++tries < 100);
                          uint64_t q = r.below(100); it.addrtype = q < 60 ? 0 : q < 75 ? 1 : 2; it.seg = r.chance(1, 10); break; }
        case AK_MOVABS: it.size = 1 << r.below(P.arch == A_X64 ? 4 : 3); it.store = r.chance(1, 3); { uint64_t q = r.below(100); it.addrtype = q < 75 ? 0 : q < 95 ? 1 : 2; } break;
        case AK_A64IMM: {
          it.var = kA64ImmKinds[r.below(9)];
          int f = a64_fmt_of_class(a64_expected_class(it.var));
          int64_t lo, hi, unit; fmt_limits(f, lo, hi, unit);
          uint64_t q = r.below(100);
          it.tclass = TC_SITE;     // relative to the site (exact in .text, whose offset is 0; approximate elsewhere - sides are measured)
          if (q < 60) it.toff = (int64_t(r.below(uint64_t(hi / unit) * 9 / 10)) * (r.chance(1, 2) ? 1 : -1)) * unit;
          else if (q < 85 || !(allow_risky && risky_left > 0)) it.toff = near_limit_value(r, f, r.chance(1, 2), true);
          else { risky_left--; it.toff = q < 95 ? near_limit_value(r, f, r.chance(1, 2), false) : int64_t(r.below(1ull << 40)) & ~3ll; }
          if (f == F_ADRP && it.toff > (1ll << 31)) it.toff = int64_t(r.below(1u << 30)) & ~0xFFFll;
          if (f == F_ADRP && r.chance(1, 6) && allow_risky) it.toff += int64_t(r.below(4096));   // page offsets that may or may not be encodable (reported when not)
          break;
        }
        default: break;
      }
    }
    else if (x < 75) {
      std::vector<int> ub; for (int l = 0; l < P.nlabels; l++) if (!bound[size_t(l)]) ub.push_back(l);
      if (ub.empty()) { it.t = AI_DATA; it.n = r.below(20); }
      else { it.t = AI_BIND; it.label = ub[r.below(ub.size())]; bound[size_t(it.label)] = true; }
    }
    else if (x < 90) { it.t = AI_DATA; uint64_t z = r.below(100); it.n = z < 60 ? r.below(24) : z < 90 ? 100 + r.below(400) : 3000 + r.below(9000); if (P.arch == A_X86 && it.n > 600) it.n = 600; }
    else if (x < 95) { it.t = AI_ALIGN; it.aval = 1u << r.below(6); }
    else { it.t = AI_SECTION; it.sec = int(r.below(uint64_t(nsec))); }
    if (P.arch == A_A64 && it.t == AI_DATA) it.n &= ~3ull;
    P.items.push_back(it);
  }
  for (int l = 0; l < P.nlabels; l++) if (!bound[size_t(l)]) {
    if (nsec > 1 && r.chance(1, 2)) { AItem s; s.t = AI_SECTION; s.sec = int(r.below(uint64_t(nsec))); P.items.push_back(s); }
    AItem it; it.t = AI_BIND; it.label = l; P.items.push_back(it);
  }
  { AItem it; it.t = AI_DATA; it.n = 4 + 4 * r.below(4); P.items.push_back(it); }
  // ---- dimensions drawn from the side stream
  P.predicted = sr.chance(3, 4);
  P.small_fields = sr.chance(1, 10);
  for (AItem& it : P.items) {
    if (it.t != AI_REF) continue;
    switch (it.kind) {
      case AK_MEMABS:
        if (sr.chance(1, 4)) {
          it.idx = true; it.shift = int(sr.below(4)); it.addrtype = sr.chance(1, 4) ? 1 : 0; it.seg = false;
          uint64_t z = sr.below(100);
          if (z < 75) { it.tclass = z < 35 ? TC_LOW : z < 55 ? TC_U32 : TC_ABS64; it.tabs = absval_of(sr, it.tclass); if (it.tclass == TC_ABS64 && sr.chance(1, 3)) it.tabs |= 0xFFFFFFFF80000000ull; }
        }
        break;
      case AK_EMBED: if (sr.chance(1, P.small_fields ? 2 : 60)) it.size = sr.chance(1, 3) ? 1 : 2; break;
      case AK_MEM32: if (sr.chance(1, 8)) it.ripform = true; break;
      case AK_MOVABS: if (sr.chance(1, 6)) it.modopt = int(1 + sr.below(2)); break;
      case AK_JCCIMM: if (it.tclass == TC_NEAR && sr.chance(1, 5)) it.toff = (sr.chance(1, 2) ? 1 : -1) * int64_t((1ull << 30) + sr.below((1ull << 30) - (1ull << 16))); break;   // upper half of the rel32 range
      default: break;
    }
  }
  if (P.extra != 0 && sr.chance(3, 4)) {
    // references that live behind the address table: a label bound there, 1-3 reference sites there, and (sometimes) an
    // earlier embed_label that designates the label bound there
    P.after_label = P.nlabels++;
    if (sr.chance(1, 2)) for (AItem& it : P.items) if (it.t == AI_REF && it.kind == AK_EMBED) { it.label = P.after_label; break; }
    int na = int(1 + sr.below(3));
    for (int i = 0; i < na; i++) {
      AItem it; it.t = AI_REF; it.after = true;
      it.reg = int(sr.below(1024)); it.cc = int(sr.below(16)); it.bit = int(sr.below(64)); it.var = int(sr.below(64));
      it.label = sr.chance(1, 2) ? P.after_label : int(sr.below(uint64_t(P.nlabels))); it.base = int(sr.below(uint64_t(P.nlabels)));
      uint64_t y = sr.below(100);
      if (P.arch == A_A64) it.kind = y < 60 ? AK_EMBED : AK_DELTA;
      else it.kind = y < 35 ? AK_CALLIMM : y < 60 ? AK_JMPIMM : y < 85 ? AK_EMBED : P.arch == A_X86 ? AK_MEM32 : AK_DELTA;
      switch (it.kind) {
        case AK_CALLIMM: case AK_JMPIMM: side_target(it); break;
        case AK_EMBED: it.size = P.arch == A_X86 ? (sr.chance(1, 4) ? 0 : 4) : (sr.chance(1, 3) ? 0 : sr.chance(1, 8) ? 4 : 8); break;
        case AK_DELTA: { static const int sz[] = { 2, 4, 8, 0, 4, 8 }; it.size = sz[sr.below(6)]; break; }
        case AK_MEM32: { int tries = 0; do { it.var = int(sr.below(uint64_t(kNumMemVars))); } while (!(kMemVars[it.var].archmask & 2) && ++tries < 100); it.disp = int32_t(sr.below(64)) - 16; break; }
        default: break;
      }
      P.items.push_back(it);
    }
  }
  return P;
}

struct ARef { int item = 0; int sec = 0; uint64_t pre = 0, post = 0; Error err = Error::kOk; std::vector<uint8_t> emitted; };
struct AResult {
  bool built = false; Error reloc = Error::kOk; std::vector<ARef> refs; std::vector<uint64_t> S; std::vector<uint64_t> bsize;
  std::vector<int> lsec; std::vector<uint64_t> loff; std::vector<uint8_t> image; uint64_t size_before = 0, size_after = 0, reduction = 0;
  int addrtab_sec = -1; uint64_t addrtab_off = 0, addrtab_size = 0, addrtab_vsize_before = 0; bool addrtab_last = true; bool has_addrtab = false;
  std::vector<int> verdict; std::vector<uint64_t> designated; bool reloc_fail_justified = false; std::string fail_reason; std::string secdump;
  std::vector<std::string> forms; std::vector<int> ffmt;   // per reference: the form that came out and the Fmt of its field (F_NONE when it has no pc-relative field)
};
enum { V_NONE = 0, V_OK, V_EMIT_ERR, V_WRONG, V_NOT_JUDGED };

static Error emit_c04_ref(BaseAssembler* ba, int arch, const AItem& it, uint64_t target, std::vector<Label>& labs) {
  if (arch == A_A64) {
    a64::Assembler& a = *static_cast<a64::Assembler*>(ba);
    int id = it.reg % 31;
    switch (it.kind) {
      case AK_EMBED: return a.embed_label(labs[size_t(it.label)], size_t(it.size));
      case AK_DELTA: return a.embed_label_delta(labs[size_t(it.label)], labs[size_t(it.base)], size_t(it.size));
      case AK_A64IMM: {
        Imm t(target);
        switch (it.var) {
          case K_B: return a.b(t); case K_BL: return a.bl(t); case K_BCOND: return a.b(arm::CondCode(2 + (it.cc % 14)), t);
          case K_CBZ: return a.cbz(a64::x(id), t); case K_CBNZ: return a.cbnz(a64::w(id), t);
          case K_TBZ: return a.tbz(a64::x(id), Imm(it.bit & 63), t); case K_TBNZ: return a.tbnz(a64::w(id), Imm(it.bit & 31), t);
          case K_ADR: return a.adr(a64::x(id), t); case K_ADRP: return a.adrp(a64::x(id), t);
        }
      }
    }
    return Error::kInvalidArgument;
  }
  x86::Assembler& a = *static_cast<x86::Assembler*>(ba);
  bool is64 = arch == A_X64;
  switch (it.kind) {
    case AK_EMBED: return a.embed_label(labs[size_t(it.label)], size_t(it.size));
    case AK_DELTA: return a.embed_label_delta(labs[size_t(it.label)], labs[size_t(it.base)], size_t(it.size));
    case AK_MEM32: { RefSpec rs; rs.var = it.var; rs.reg = it.reg; return emit_x86_mem(a, false, rs, it.ripform ? x86::ptr(x86::rip, it.disp) : x86::ptr(labs[size_t(it.label)], it.disp)); }
    case AK_MEMABS: {
      x86::Mem m = it.addrtype == 1 ? x86::ptr_abs(target) : it.addrtype == 2 ? x86::ptr_rel(target) : x86::ptr(target);
      if (it.idx) {
        static const int ids[] = { 1, 2, 3, 6, 7, 9, 12, 13 };
        x86::Gp ix = (it.reg & 3) == 0 ? x86::gpd(uint32_t(ids[(it.reg >> 2) & 7])) : x86::gpq(uint32_t(ids[(it.reg >> 2) & 7]));   // 32-bit index: 67h, the address wraps at 2^32
        m = it.addrtype == 1 ? x86::ptr_abs(target, ix, uint32_t(it.shift)) : x86::ptr(target, ix, uint32_t(it.shift));
      }
      if (it.seg) m.set_segment(it.reg & 1 ? x86::fs : x86::gs);
      RefSpec rs; rs.var = it.var; rs.reg = it.reg; return emit_x86_mem(a, is64, rs, m);
    }
    case AK_MOVABS: {
      x86::Mem m = it.addrtype == 1 ? x86::ptr_abs(target) : it.addrtype == 2 ? x86::ptr_rel(target) : x86::ptr(target);
      m.set_size(uint32_t(it.size));
      x86::Gp acc = it.size == 1 ? x86::al : it.size == 2 ? x86::ax : it.size == 4 ? x86::eax : x86::rax;
      if (it.modopt == 1) a.mod_rm(); else if (it.modopt == 2) a.mod_mr();
      return it.store ? a.mov(m, acc) : a.mov(acc, m);
    }
    // (prefixes and options in front of the opcode: the Imm path must account for them - forced REX, branch hints, 67h)
    case AK_JMPIMM: if (is64 && (it.var & 16)) a.rex(); return a.jmp(Imm(target));
    case AK_CALLIMM: if (is64 && (it.var & 16)) a.rex(); return a.call(Imm(target));
    case AK_JCCIMM: if (it.var & 4) a.taken(); else if (it.var & 8) a.not_taken(); return a.j(x86::CondCode(it.cc & 15), Imm(target));
    case AK_JECXZIMM:
      if (it.var & 2) return (it.var & 1) ? a.jecxz(is64 ? x86::ecx : x86::cx, Imm(target)) : a.loop(is64 ? x86::ecx : x86::cx, Imm(target));
      return (it.var & 1) ? a.jecxz(is64 ? x86::rcx : x86::ecx, Imm(target)) : a.loop(Imm(target));
  }
  return Error::kInvalidArgument;
}

static void build_c04(const ASpec& P, uint64_t B, bool known, AResult& R) {
  CodeHolder code;
  Environment env(arch_of(P.arch));
  if (code.init(env, known ? B : Globals::kNoBaseAddress) != Error::kOk) harness_fail("CodeHolder::init");
  std::vector<Section*> secs; secs.push_back(code.text_section());
  for (size_t i = 1; i < P.secs.size(); i++) {
    Section* s = nullptr;
    if (code.new_section(Out(s), fmt(".c%zu", i).c_str(), SIZE_MAX, SectionFlags::kNone, P.secs[i].align, P.secs[i].order) != Error::kOk || !s) harness_fail("new_section");
    secs.push_back(s);
  }
  Section* extra = nullptr;
  if (P.extra == 1) {
    if (!code.ensure_address_table_section()) harness_fail("ensure_address_table_section");
    if (code.new_section(Out(extra), ".after", SIZE_MAX, SectionFlags::kNone, 8, std::numeric_limits<int32_t>::max()) != Error::kOk) harness_fail("new_section(.after)");
  }
  std::unique_ptr<x86::Assembler> xa; std::unique_ptr<a64::Assembler> aa; BaseAssembler* ba;
  if (P.arch == A_A64) { aa.reset(new a64::Assembler(&code)); ba = aa.get(); } else { xa.reset(new x86::Assembler(&code)); ba = xa.get(); }
  if (P.predicted && P.arch != A_A64) ba->add_encoding_options(EncodingOptions::kPredictedJumps);
  std::vector<Label> labs; labs.resize(size_t(P.nlabels));
  for (auto& l : labs) l = ba->new_label();
  R.lsec.assign(size_t(P.nlabels), -1); R.loff.assign(size_t(P.nlabels), 0);
  int cursec = 0;
  for (size_t ii = 0; ii < P.items.size(); ii++) {
    const AItem& it = P.items[ii];
    if (it.after) continue;
    switch (it.t) {
      case AI_REF: {
        ARef ar; ar.item = int(ii); ar.sec = cursec; ar.pre = uint64_t(ba->offset());
        ar.err = emit_c04_ref(ba, P.arch, it, a_target(it, B, P.arch, ar.pre), labs);
        ar.post = uint64_t(ba->offset());
        if (ar.err == Error::kOk && ar.post > ar.pre) ar.emitted.assign(secs[size_t(cursec)]->data() + ar.pre, secs[size_t(cursec)]->data() + ar.post);
        R.refs.push_back(ar);
        break;
      }
      case AI_BIND: { uint64_t o = uint64_t(ba->offset()); Error e = ba->bind(labs[size_t(it.label)]); if (e != Error::kOk) harness_fail(fmt("bind: %s", errname(e))); R.lsec[size_t(it.label)] = cursec; R.loff[size_t(it.label)] = o; break; }
      case AI_DATA: if (it.n) { if (ba->embed(g_zero, size_t(it.n)) != Error::kOk) harness_fail("embed"); } break;
      case AI_SECTION: if (ba->section(secs[size_t(it.sec)]) != Error::kOk) harness_fail("section"); cursec = it.sec; break;
      case AI_ALIGN: ba->align(AlignMode::kZero, it.aval); break;
    }
  }
  if (P.extra == 2 || P.extra == 1) {
    if (!extra && code.new_section(Out(extra), ".after", SIZE_MAX, SectionFlags::kNone, 8, std::numeric_limits<int32_t>::max()) != Error::kOk) harness_fail("new_section(.after)");
    ba->section(extra);
    static const uint8_t tail[24] = { 0xEE, 0xEE, 0xEE, 0xEE, 0xEE, 0xEE, 0xEE, 0xEE, 0xEE, 0xEE, 0xEE, 0xEE, 0xEE, 0xEE, 0xEE, 0xEE, 0xEE, 0xEE, 0xEE, 0xEE, 0xEE, 0xEE, 0xEE, 0xEE };
    ba->embed(tail, sizeof tail);
    // a label and reference sites behind the address table (slot displacements are negative from here, absolute
    // addresses depend on the table's reserved size)
    int xsec = int(extra->section_id());
    if (P.after_label >= 0) {
      uint64_t o = uint64_t(ba->offset()); Error e = ba->bind(labs[size_t(P.after_label)]);
      if (e != Error::kOk) harness_fail(fmt("bind in .after: %s", errname(e)));
      R.lsec[size_t(P.after_label)] = xsec; R.loff[size_t(P.after_label)] = o;
    }
    for (size_t ii = 0; ii < P.items.size(); ii++) {
      const AItem& it = P.items[ii];
      if (!it.after || it.t != AI_REF) continue;
      ARef ar; ar.item = int(ii); ar.sec = xsec; ar.pre = uint64_t(ba->offset());
      ar.err = emit_c04_ref(ba, P.arch, it, a_target(it, B, P.arch, ar.pre), labs);
      ar.post = uint64_t(ba->offset());
      if (ar.err == Error::kOk && ar.post > ar.pre) ar.emitted.assign(extra->data() + ar.pre, extra->data() + ar.post);
      R.refs.push_back(ar);
      CNT["c04_references_behind_addrtab_section"]++;
    }
    static const uint8_t tail2[8] = { 0xEF, 0xEF, 0xEF, 0xEF, 0xEF, 0xEF, 0xEF, 0xEF };
    ba->embed(tail2, sizeof tail2);
  }
  Error fe = code.flatten();
  if (fe != Error::kOk) { viol(fmt("c04:flatten-error:%s", errname(fe)), "flatten failed"); return; }
  if (P.late > 0 && P.extra == 0 && !code.has_address_table_section() && code.section_count() >= 2) {
    // late emission: the layout is known now; append to the section that is last in layout order (nothing moves) and lay
    // out again. References with an absolute target emitted here see base + section offset + code offset at emit time.
    Section* last = code.sections_by_order()[code.section_count() - 1];
    int lastsec = -1;
    for (size_t i = 0; i < secs.size(); i++) if (secs[i] == last) lastsec = int(i);
    // (an empty section is not aligned by flatten(): it would move once it gets content - only sections that keep their offset)
    if (lastsec > 0 && last->offset() != 0 && last->buffer_size() != 0 && ba->section(last) == Error::kOk) {
      int done = 0;
      for (size_t ii = 0; ii < P.items.size() && done < P.late; ii++) {
        const AItem& it = P.items[ii];
        if (it.t != AI_REF || it.after) continue;
        if (!(it.kind == AK_JMPIMM || it.kind == AK_CALLIMM || it.kind == AK_JCCIMM || it.kind == AK_A64IMM || it.kind == AK_MEMABS || it.kind == AK_MOVABS)) continue;
        ARef ar; ar.item = int(ii); ar.sec = lastsec; ar.pre = uint64_t(ba->offset());
        ar.err = emit_c04_ref(ba, P.arch, it, a_target(it, B, P.arch, ar.pre), labs);
        ar.post = uint64_t(ba->offset());
        if (ar.err == Error::kOk && ar.post > ar.pre) ar.emitted.assign(last->data() + ar.pre, last->data() + ar.post);
        R.refs.push_back(ar);
        done++;
        CNT["c04_late_references_after_flatten"]++;
      }
      fe = code.flatten();
      if (fe != Error::kOk) { viol(fmt("c04:flatten-error:%s", errname(fe)), "second flatten failed"); return; }
    }
  }
  Error xe = code.resolve_cross_section_fixups();
  if (xe != Error::kOk || code.unresolved_fixup_count()) { viol("c04:unresolved-fixups", fmt("resolve=%s unresolved=%zu in a program without pc-relative label references", errname(xe), code.unresolved_fixup_count())); return; }
  R.size_before = code.code_size();
  auto sdump = [&](const char* t) { R.secdump += t; for (Section* s : code.sections_by_order()) R.secdump += fmt(" {id=%u align=%u order=%d off=%llu buf=%zu virt=%llu}", s->section_id(), s->alignment(), s->order(), (ull)s->offset(), s->buffer_size(), (ull)s->virtual_size()); };
  sdump("before:");
  if (code.has_address_table_section()) R.addrtab_vsize_before = code.address_table_section()->virtual_size();
  CodeHolder::RelocationSummary sum; sum.code_size_reduction = 0;
  R.reloc = code.relocate_to_base(B, &sum);
  R.size_after = code.code_size();
  R.reduction = sum.code_size_reduction;
  sdump(" after:");
  for (Section* s : code.sections()) { R.S.push_back(s->offset()); R.bsize.push_back(s->buffer_size()); }
  if (code.has_address_table_section()) {
    Section* at = code.address_table_section();
    R.has_addrtab = true; R.addrtab_sec = int(at->section_id()); R.addrtab_off = at->offset(); R.addrtab_size = at->real_size();
    R.addrtab_last = code.sections_by_order()[code.section_count() - 1] == at;
  }
  R.built = true;
  if (R.reloc != Error::kOk) return;
  if (R.size_after > (16u << 20)) harness_fail("c04 image unexpectedly large");
  GuardBuf gb(size_t(R.size_after));
  materialize_null_buffers(code);
  Error ce = code.copy_flattened_data(gb.data(), size_t(R.size_after), CopySectionFlags::kPadSectionBuffer | CopySectionFlags::kPadTargetBuffer);
  if (ce != Error::kOk) { viol(fmt("c04:copy_flattened_data:error:%s", errname(ce)), fmt("copy_flattened_data(dst_size=code_size()=%llu) failed after relocate_to_base", (ull)R.size_after)); R.built = false; return; }
  if (!gb.intact()) viol("c04:copy_flattened_data:wrote-outside", "guard band modified");
  R.image.assign(gb.data(), gb.data() + R.size_after);
}

static const char* base_class(uint64_t B) {
  if (B < 0x10000) return "low";
  if (B < 0x80000000ull) return B >= 0x7FF00000ull ? "just-below-2^31" : "below-2^31";
  if (B < 0x100000000ull) return B < 0x80100000ull ? "at-2^31" : B >= 0xFFF00000ull ? "just-below-2^32" : "below-2^32";
  if (B < 0x100100000ull) return "at-2^32";
  if (B < (1ull << 47)) return B >= (1ull << 47) - (1ull << 21) ? "just-below-2^47" : "user-47bit";
  if (B >= 0xFFFF800000000000ull) return "kernel-half";
  if (B < (1ull << 63)) return B >= (1ull << 63) - (1ull << 21) ? "just-below-2^63" : "below-2^63";
  return B < (1ull << 63) + (1ull << 21) ? "at-2^63" : "above-2^63";
}

// Evaluate every reference of one build. Fills verdict/designated; reports violations.
static void eval_c04(const ASpec& P, uint64_t B, bool known, AResult& R, Rng& sr) {
  const char* an = kArchName[P.arch];
  bool is64 = P.arch != A_X86;
  uint64_t amask = is64 ? ~0ull : 0xFFFFFFFFull;
  R.verdict.assign(R.refs.size(), V_NONE); R.designated.assign(R.refs.size(), 0); R.forms.assign(R.refs.size(), std::string()); R.ffmt.assign(R.refs.size(), F_NONE);
  std::string cfg = std::string(base_class(B)) + ":" + (known ? "base-known" : "base-at-relocate") + ":" + (!R.has_addrtab ? "no-addrtab" : R.addrtab_last ? "addrtab-last" : "addrtab-not-last");
  bool reloc_ok = R.reloc == Error::kOk;
  if (reloc_ok) {
    // what JitRuntime::add does with the summary: installs estimated - reduction bytes. That must cover every section, and
    // the reduction must be what the address table really gave back.
    uint64_t extent = 0;
    for (size_t i = 0; i < R.S.size(); i++) extent = std::max<uint64_t>(extent, R.S[i] + R.bsize[i]);
    uint64_t tab_gave_back = R.has_addrtab && R.addrtab_last ? R.addrtab_vsize_before - R.addrtab_size : 0;
    if (R.reduction > R.size_before || R.size_before - R.reduction < extent || R.reduction != tab_gave_back)
      viol("c04:relocate:code_size_reduction-wrong", fmt("code_size() %llu before relocate_to_base, RelocationSummary.code_size_reduction=%llu, sections extend to %llu, address table shrank by %llu; sections by order %s", (ull)R.size_before, (ull)R.reduction, (ull)extent, (ull)tab_gave_back, R.secdump.c_str()));
    else CNT["c04_code_size_reduction_checked"]++;
  }
  for (size_t i = 0; i < R.refs.size(); i++) {
    const ARef& ar = R.refs[i]; const AItem& it = P.items[size_t(ar.item)];
    CNT["c04_refs"]++;
    if (ar.err != Error::kOk) {
      R.verdict[i] = V_EMIT_ERR; CNT[std::string("c04_emit_error_") + kAKName[it.kind]]++; R.forms[i] = errname(ar.err);
      // "targets that cannot be reached are reported" - and only those: a branch to an absolute target may be refused at emit
      // time only by the direct path (base and section offset known) and only when no form of the instruction reaches it
      bool branch = it.kind == AK_JMPIMM || it.kind == AK_CALLIMM || it.kind == AK_JCCIMM || it.kind == AK_JECXZIMM;
      if (branch || (it.kind == AK_A64IMM && a64_fmt_of_class(a64_expected_class(it.var)) != F_ADRP)) {
        uint64_t tgt = a_target(it, B, P.arch, ar.pre);
        uint64_t st = (B + R.S[size_t(ar.sec)] + ar.pre) & amask;
        bool legit = false; int64_t need = 0;
        if (known) {
          if (it.kind == AK_A64IMM) { need = int64_t(tgt - st); legit = !fits(a64_fmt_of_class(a64_expected_class(it.var)), need); }
          else if (it.kind == AK_JECXZIMM) { uint64_t l8 = 2 + ((it.var & 2) ? 1 : 0); need = is64 ? int64_t(tgt - (st + l8)) : sx(tgt - (st + l8), 32); legit = !fits(F_REL8, need); }
          else if (it.kind == AK_JCCIMM) { uint64_t l32 = 6 + (((it.var & 12) && P.predicted) ? 1 : 0); need = int64_t(tgt - (st + l32)); legit = is64 && !fits(F_REL32, need); }
        }
        if (legit) { CNT["c04_emit_errors_judged_target_out_of_reach"]++; g_classes.insert(std::string("c04:") + an + ":" + (it.kind == AK_A64IMM ? std::string("a64-imm:") + kKindName[it.var] : std::string(kAKName[it.kind])) + ":" + cfg + ":unreachable-reported-at-emit"); }
        else viol(it.kind == AK_A64IMM ? fmt("c04:reachable-target-rejected-at-emit:a64-imm:%s:%s", kKindName[it.var], known ? "base-known" : "base-at-relocate")
                                       : fmt("c04:reachable-target-rejected-at-emit:%s:%s", kAKName[it.kind], known ? "base-known" : "base-at-relocate"),
                  fmt("%s %s to 0x%llx from 0x%llx (%s) was refused at emit time with %s; %s", an, it.kind == AK_A64IMM ? kKindName[it.var] : kAKName[it.kind], (ull)tgt, (ull)st, cfg.c_str(), errname(ar.err),
                      known ? fmt("the distance %lld fits a form of the instruction", (sll)need).c_str() : "without a known base the reference is a relocation, there is nothing to refuse yet"));
        CNT["c04_emit_errors_judged"]++;
      }
      continue;
    }
    if (it.after) CNT["c04_references_behind_addrtab_evaluated"]++;
    uint64_t target = a_target(it, B, P.arch, ar.pre);
    uint64_t site = (B + R.S[size_t(ar.sec)] + ar.pre) & amask, site_end = (B + R.S[size_t(ar.sec)] + ar.post) & amask;
    uint64_t len = ar.post - ar.pre;
    std::string form = kAKName[it.kind];
    // bytes: after a successful relocation from the image, otherwise nothing to read (only justification of the failure)
    const uint8_t* p = reloc_ok ? R.image.data() + R.S[size_t(ar.sec)] + ar.pre : nullptr;
    if (reloc_ok && R.S[size_t(ar.sec)] + ar.post > R.image.size()) { viol("c04:image-too-small", "a reference site lies beyond code_size()"); continue; }
    bool ok = false, judged = true; uint64_t got = 0, want = target; std::string detail;
    bool unrepresentable = false;   // by our evaluation the emitted form cannot designate the target
    switch (it.kind) {
      case AK_EMBED: case AK_MEM32: {
        int ls = R.lsec[size_t(it.label)];
        want = (B + R.S[size_t(ls)] + R.loff[size_t(it.label)] + uint64_t(int64_t(it.kind == AK_MEM32 ? it.disp : 0)));
        if (it.kind == AK_MEM32 && it.ripform) { want = B + R.S[size_t(ar.sec)] + ar.post + uint64_t(int64_t(it.disp)); form = "x86-32[rip+disp]"; }   // what the operand would designate if 32-bit code had it: end of the instruction + disp
        int fsize = it.kind == AK_MEM32 ? 4 : (it.size ? it.size : (is64 ? 8 : 4));
        uint64_t fpos = 0;
        if (it.kind == AK_MEM32) {
          form += std::string(".") + kMemVars[it.var].name;
          if (reloc_ok) { XLoc xl = x86_locate(p, int(len), false); if (xl.cls != XC_MODRM || (xl.memkind != MK_ABS32 && xl.memkind != MK_ABS_SIB) || xl.trail != kMemVars[it.var].trail) { viol("c04:x86-32[label]:site-not-decodable", hexstr(p, size_t(len))); judged = false; break; } fpos = uint64_t(xl.fpos); }
        }
        else form += fmt(".%d", fsize);
        if (fsize < 8 && (want >> (8 * fsize))) { unrepresentable = true; want &= (1ull << (8 * fsize)) - 1; }   // 32-bit code, 4-byte field: wrap-around or an error are both fine; otherwise it has to be an error
        if (reloc_ok) { got = rd(p + fpos, fsize); ok = got == want && !(unrepresentable && (is64 || fsize < 4)); if (ok && fsize < 4) CNT["c04_embed_label_1_or_2_bytes_verified"]++; if (ok && it.ripform) CNT["c04_x86_32_rip_form_verified"]++; }
        if (unrepresentable && fsize < 4) CNT[reloc_ok ? "c04_embed_label_1_or_2_bytes_unrepresentable_relocate_ok" : "c04_embed_label_1_or_2_bytes_unrepresentable_reported"]++;
        break;
      }
      case AK_DELTA: {
        int ls = R.lsec[size_t(it.label)], bs = R.lsec[size_t(it.base)];
        int64_t d = int64_t((R.S[size_t(ls)] + R.loff[size_t(it.label)]) - (R.S[size_t(bs)] + R.loff[size_t(it.base)]));
        int fsize = it.size ? it.size : (is64 ? 8 : 4); int bits = fsize * 8;
        form += fmt(".%d", fsize);
        uint64_t mask = bits == 64 ? ~0ull : (1ull << bits) - 1;
        bool fs = bits == 64 || (d >= -(1ll << (bits - 1)) && d < (1ll << (bits - 1))), fu = bits == 64 || (d >= 0 && uint64_t(d) <= mask);
        want = uint64_t(d) & mask;
        if (!fs) unrepresentable = true;      // the expression path encodes a signed field
        if (reloc_ok) {
          got = rd(p, fsize); ok = got == want && (fs || fu);
          if (!fs && !fu && got == want && ls == bs) { CNT["c04_label_delta_truncated_within_one_section(judged_by_C03)"]++; judged = false; }
          else if (!fs && !fu && got == want) { viol("embed_label_delta:silently-truncated", fmt("%s: label delta %lld written to a %d-byte field as 0x%llx without any error", an, (sll)d, fsize, (ull)got)); judged = false; }
        }
        break;
      }
      case AK_A64IMM: {
        int cls = a64_expected_class(it.var); int f = a64_fmt_of_class(cls);
        form = std::string("a64-imm:") + kKindName[it.var];
        int64_t need = int64_t(target - site);
        if (f == F_ADRP) { bool c1 = fits(F_ADRP, need), c2 = !(target & 0xFFF) && fits(F_ADRP, int64_t(target - (site & ~0xFFFull))); bool direct = known && ar.sec == 0; unrepresentable = direct ? !c2 : !(c1 && fits(F_REL32, need)); if (!direct && c1 && !fits(F_REL32, need)) CNT["c04_a64_adrp_between_2GiB_and_4GiB_refused_by_relocate(reported,not-a-violation)"]++; }
        else unrepresentable = !fits(f, need);
        if (reloc_ok) {
          uint32_t w = uint32_t(rd(p, 4));
          if (len != 4 || a64_class(w) != cls) { viol("c04:a64-imm:site-not-decodable", fmt("%08x", w)); judged = false; break; }
          int64_t dsp = a64_disp(w, f);
          if (f == F_ADRP) { got = (site & ~0xFFFull) + uint64_t(dsp); want = target & ~0xFFFull; if (fits(F_ADRP, int64_t(want - (site & ~0xFFFull)))) unrepresentable = false; }
          else got = site + uint64_t(dsp);
          ok = got == want;
        }
        break;
      }
      default: {
        // x86 instruction with an absolute target
        if (!reloc_ok) {
          // justification only: decode the form that was emitted and ask whether its field can hold what it would have to
          XLoc xe = x86_locate(ar.emitted.data(), int(ar.emitted.size()), is64);
          int64_t need = is64 ? int64_t(target - site_end) : sx(target - site_end, 32);
          if (xe.cls == XC_BRANCH) {
            if (xe.fsize == 1) unrepresentable = !fits(F_REL8, need);
            else if (is64 && !(it.kind == AK_JMPIMM || it.kind == AK_CALLIMM)) unrepresentable = !fits(F_REL32, need);
          }
          else if (xe.cls == XC_MODRM && xe.memkind == MK_RIP) unrepresentable = !fits(F_REL32, need);
          break;
        }
        XLoc xl = x86_locate(p, int(len), is64);
        if (xl.cls == XC_BAD) { viol(fmt("c04:%s:site-not-decodable", kAKName[it.kind]), hexstr(p, size_t(len))); judged = false; break; }
        if (it.kind == AK_MEMABS) form += std::string(".") + kMemVars[it.var].name;
        if (xl.cls == XC_BRANCH) {
          int64_t rel = sx(rd(p + xl.fpos, xl.fsize), xl.fsize * 8);
          got = (site_end + uint64_t(rel)) & amask; ok = got == (target & amask);
          form += xl.fsize == 1 ? ".rel8" : ".rel32";
          R.ffmt[i] = xl.fsize == 1 ? F_REL8 : F_REL32;
          if (p[0] == 0x67 || p[0] == 0x3E || p[0] == 0x2E || (is64 && p[0] == 0x40 && !(it.kind == AK_JMPIMM || it.kind == AK_CALLIMM))) { form += "+prefix"; CNT["c04_imm_branch_sites_with_prefix"]++; }
          else if (is64 && (it.kind == AK_JMPIMM || it.kind == AK_CALLIMM) && (it.var & 16)) { form += "+rex"; CNT["c04_imm_branch_sites_with_forced_rex"]++; }
          if (!ok) unrepresentable = !fits(xl.fsize == 1 ? F_REL8 : F_REL32, is64 ? int64_t(target - site_end) : sx(target - site_end, 32));
        }
        else if (xl.cls == XC_MOFFS) {
          got = rd(p + xl.fpos, xl.fsize); ok = got == target && xl.trail == 0; form += fmt(".moffs%d", xl.fsize * 8);
        }
        else if (xl.cls == XC_MODRM && !xl.vex && xl.map == 0 && xl.op == 0xFF && xl.memkind == MK_RIP && (((xl.modrm >> 3) & 7) == 2 || ((xl.modrm >> 3) & 7) == 4) && (it.kind == AK_JMPIMM || it.kind == AK_CALLIMM)) {
          // FF /2 or FF /4 through the address table
          bool is_call = ((xl.modrm >> 3) & 7) == 2;
          form += ".addrtab";
          CNT["c04_sites_through_addrtab"]++;
          if (is_call != (it.kind == AK_CALLIMM)) { viol("c04:addrtab:call-jmp-swapped", hexstr(p, size_t(len))); judged = false; break; }
          uint64_t slot_abs = site_end + uint64_t(sx(rd(p + xl.fpos, 4), 32));
          if (sx(rd(p + xl.fpos, 4), 32) < 0) CNT["c04_sites_through_addrtab_negative_slot_displacement"]++;
          if (it.var & 16) CNT["c04_sites_through_addrtab_with_forced_rex"]++;
          uint64_t slot_off = slot_abs - B;
          if (!R.has_addrtab || slot_off < R.addrtab_off || slot_off + 8 > R.addrtab_off + R.addrtab_size || ((slot_off - R.addrtab_off) & 7) || slot_off + 8 > R.image.size()) {
            viol("c04:addrtab:slot-outside-table", fmt("%s: %s [rip%+lld] designates image offset 0x%llx, the address table occupies [0x%llx,0x%llx), image size 0x%zx (%s)", an, is_call ? "call" : "jmp", (sll)sx(rd(p + xl.fpos, 4), 32), (ull)slot_off, (ull)R.addrtab_off, (ull)(R.addrtab_off + R.addrtab_size), R.image.size(), cfg.c_str()));
            judged = false; break;
          }
          got = rd(R.image.data() + slot_off, 8); ok = got == target;
          if (!ok && !R.addrtab_last && got == 0) {
            viol("addrtab-not-last:slot-not-copied", fmt("%s: %s imm 0x%llx was routed through .addrtab slot at image offset 0x%llx, but the flattened image holds 0 there: relocate_to_base() leaves the table's buffer size at 0 when another section is ordered after .addrtab (%s)", an, is_call ? "call" : "jmp", (ull)target, (ull)slot_off, cfg.c_str()));
            judged = false; R.verdict[i] = V_WRONG; CNT["c04_addrtab_slot_missing"]++;
          }
        }
        else if (xl.cls == XC_MODRM && (xl.memkind == MK_RIP || xl.memkind == MK_ABS_SIB || xl.memkind == MK_ABS32)) {
          uint64_t ea;
          int64_t d32 = sx(rd(p + xl.fpos, 4), 32);
          if (xl.memkind == MK_RIP) { ea = site_end + uint64_t(d32); form += ".rip-rel"; }
          else if (xl.memkind == MK_ABS_SIB) {
            if (xl.sib_index != (it.kind == AK_MEMABS && it.idx)) { viol("c04:mem[abs]:unexpected-index", hexstr(p, size_t(len))); judged = false; break; }
            // [disp32 (+ index << shift)]: the address the displacement designates (index 0) - sign-extended in 64-bit mode
            ea = is64 ? uint64_t(d32) : uint64_t(uint32_t(d32)); form += xl.sib_index ? ".abs32-sib+index" : ".abs32-sib";
            if (xl.sib_index) { if (int((xl.sib >> 6) & 3) != it.shift) { viol("c04:mem[abs]:wrong-index-scale", hexstr(p, size_t(len))); judged = false; break; } CNT["c04_mem_abs_with_index_sites"]++; }
          }
          else { ea = uint64_t(uint32_t(d32)); form += ".abs32"; }
          if (xl.has67 && is64) {
            ea &= 0xFFFFFFFFull; form += "+67";
            // with an index the whole sum wraps at 2^32: a "negative displacement" (bits 63..31 all set) keeps its meaning
            if (xl.sib_index && (target >> 31) == 0x1FFFFFFFFull) ea |= 0xFFFFFFFF00000000ull;
          }
          bool is_lea = !xl.vex && xl.map == 0 && xl.op == 0x8D;
          if (is_lea && is64 && !(xl.rex & 8)) { ea &= 0xFFFFFFFFull; form += "+lea32"; }
          ea &= amask;
          got = ea; ok = got == target;
          int want_trail = it.kind == AK_MEMABS ? kMemVars[it.var].trail : 0;
          if (xl.trail != want_trail) { viol("c04:mem[abs]:trailing-immediate-size", fmt("%s %s", form.c_str(), hexstr(p, size_t(len)).c_str())); judged = false; break; }
          if (!ok && xl.memkind == MK_RIP) unrepresentable = !fits(F_REL32, int64_t(target - site_end));
          if (!ok && xl.memkind == MK_ABS_SIB && xl.sib_index) unrepresentable = true;    // a wrong [disp32 + index] can only be a disp32 that cannot hold the address
          if (xl.memkind == MK_RIP) R.ffmt[i] = F_REL32;
        }
        else { viol(fmt("c04:%s:unexpected-form", kAKName[it.kind]), hexstr(p, size_t(len))); judged = false; }
        break;
      }
    }
    if (!reloc_ok) { if (unrepresentable) { CNT["c04_unreachable_reported:" + form]++; R.reloc_fail_justified = true; R.fail_reason = fmt("%s to 0x%llx from 0x%llx", form.c_str(), (ull)target, (ull)site); g_classes.insert(std::string("c04:") + an + ":" + form + ":" + cfg + ":unreachable-reported"); } R.verdict[i] = V_NOT_JUDGED; continue; }
    R.forms[i] = form;
    if (!judged) { if (R.verdict[i] == V_NONE) R.verdict[i] = V_NOT_JUDGED; continue; }
    R.designated[i] = got;
    if (ok) {
      R.verdict[i] = V_OK; CNT["c04_refs_verified"]++;
      if (it.kind == AK_MOVABS && it.modopt && form.find("moffs", 12) == std::string::npos) CNT["c04_mov_acc_with_mod_rm_option_verified_in_modrm_form"]++;
      g_classes.insert(std::string("c04:") + an + ":" + form + ":" + cfg);
      if (g_decode.size() < g_decode_cap && P.arch != A_A64 && it.kind >= AK_MOVABS && it.kind <= AK_JECXZIMM && sr.chance(1, 10))
        g_decode.push_back(fmt("{\"arch\":\"%s\",\"what\":\"c04\",\"form\":%s,\"bytes\":\"%s\",\"site\":\"%llu\",\"target\":\"%llu\",\"slot\":%d}", an, jstr(form).c_str(), hexstr(p, size_t(len)).c_str(), (ull)site, (ull)(form.find(".addrtab") != std::string::npos ? site_end + uint64_t(sx(rd(p + len - 4, 4), 32)) : target), form.find(".addrtab") != std::string::npos ? 1 : 0));
    }
    else {
      R.verdict[i] = V_WRONG;
      // (mem[abs] with an index: the class comes first in the key, the instruction variant last)
      viol(it.kind == AK_MEMABS && it.idx ? fmt("c04:%s:mem[abs]+index:%s:%s", an, unrepresentable ? "unreachable-not-reported" : "wrong-target", form.c_str())
                                          : fmt("c04:%s:%s:%s", an, form.c_str(), unrepresentable ? "unreachable-not-reported" : "wrong-target"),
           fmt("%s %s at 0x%llx (%s): designates 0x%llx, requested 0x%llx; bytes %s", an, form.c_str(), (ull)site, cfg.c_str(), (ull)got, (ull)want, hexstr(p, size_t(std::min<uint64_t>(len, 16))).c_str()));
    }
  }
  if (!reloc_ok) {
    CNT[std::string("c04_relocate_error_") + errname(R.reloc)]++;
    if (!R.reloc_fail_justified) viol(fmt("c04:relocate:unexpected-error:%s", errname(R.reloc)), fmt("%s: relocate_to_base(0x%llx) failed (%s) although every reference is representable by our evaluation (%s)", an, (ull)B, errname(R.reloc), cfg.c_str()));
    else CNT["c04_relocate_failure_justified"]++;
  }
  else CNT["c04_relocate_ok"]++;
}

static std::vector<uint64_t> c04_bases(Rng& r, int arch, int nb) {
  std::vector<uint64_t> all;
  if (arch == A_X86) all = { 0x1000, 0x7FFF0000, 0x7FFFF000, 0x80000000, 0x80001000, 0xFFFE0000, 0xFFFFC000, 0x08048000, 0x10000 + (r.below(0xF0000) << 12), 0x400000 };
  else all = { 0x1000, 0x7FFF0000, 0x7FFFF000, 0x80000000, 0x80003000, 0xFFFFF000, 0xFFFFE000, 0x100000000ull, 0x100002000ull, (1ull << 47) - (1ull << 20), 0xFFFF800000000000ull,
               (1ull << 63) - 0x4000, 1ull << 63, (1ull << 63) + 0x10000, (r.next() & 0x00007FFFFFFFF000ull) | 0x10000, r.next() & ~0xFFFull, (r.next() & 0x0000FFFFFFFFFFF0ull) | 0x100000, 0xFFFFFFFFFFFF0000ull - 0x100000 };
  std::vector<uint64_t> out;
  size_t start = size_t(r.below(all.size()));
  for (size_t i = 0; i < all.size() && out.size() < size_t(nb); i++) out.push_back(all[(start + i * 7) % all.size()]);
  std::sort(out.begin(), out.end()); out.erase(std::unique(out.begin(), out.end()), out.end());
  return out;
}

static void run_c04(Rng& r, int nbases) {
  ASpec P = gen_c04(r);
  if (r.below(3) == 0) P.late = int(1 + r.below(4));
  std::vector<uint64_t> bases = c04_bases(r, P.arch, nbases);
  if (P.small_fields) { bases.insert(bases.begin(), { 0x0, 0x100, 0x1000 }); std::sort(bases.begin(), bases.end()); bases.erase(std::unique(bases.begin(), bases.end()), bases.end()); if (bases.size() > size_t(nbases)) bases.resize(size_t(nbases)); CNT["c04_programs_with_small_fields_and_tiny_bases"]++; }
  CNT["c04_programs"]++; CNT[std::string("c04_programs_") + kArchName[P.arch]]++;
  for (uint64_t B : bases) {
    g_prog_desc = fmt("c04 arch=%s sections=%zu items=%zu extra-section-after-addrtab=%d base=0x%llx", kArchName[P.arch], P.secs.size(), P.items.size(), P.extra, (ull)B);
    AResult U, K;
    build_c04(P, B, false, U);
    build_c04(P, B, true, K);
    Rng sr(r.next());
    std::string d0 = g_prog_desc;
    if (U.built) { g_prog_desc = d0 + " [base given to relocate_to_base]"; eval_c04(P, B, false, U, sr); }
    if (K.built) { g_prog_desc = d0 + " [base given to init]"; eval_c04(P, B, true, K, sr); }
    g_prog_desc = d0;
    CNT["c04_evaluations"] += 2;
    if (U.built && K.built) {
      if ((U.reloc == Error::kOk) != (K.reloc == Error::kOk)) CNT["c04_known_vs_relocate_one_side_reports_error"]++;
      for (size_t i = 0; i < U.refs.size() && i < K.refs.size(); i++) {
        if (U.verdict[i] == V_OK && K.verdict[i] == V_OK) {
          CNT["c04_known_vs_relocate_compared"]++;
          const AItem& it = P.items[size_t(U.refs[i].item)];
          bool same = U.designated[i] == K.designated[i];
          if (it.kind == AK_A64IMM && it.var == K_ADRP) same = true;   // both verified against the page of the target
          if (it.kind == AK_EMBED || it.kind == AK_MEM32 || it.kind == AK_DELTA || it.tclass == TC_SITE) same = true;   // label positions may differ between the two builds (short/long forms); each was compared with its own expected value
          if (!same) viol("c04:known-base-vs-relocate:different-target", fmt("%s: 0x%llx with the base known at init, 0x%llx when relocated afterwards", kAKName[it.kind], (ull)K.designated[i], (ull)U.designated[i]));
        }
        else if ((U.verdict[i] == V_OK) != (K.verdict[i] == V_OK) && (U.verdict[i] == V_EMIT_ERR || K.verdict[i] == V_EMIT_ERR)) {
          // one build encodes the target, the other refuses it at emit time: "assembling with the base known and relocating
          // afterwards designate the same targets" - unless the refusing build really cannot reach it from where it stands
          CNT["c04_known_vs_relocate_one_side_reports_error"]++;
          const AItem& it = P.items[size_t(U.refs[i].item)];
          bool kerr = K.verdict[i] == V_EMIT_ERR;
          const AResult& E = kerr ? K : U; const AResult& O = kerr ? U : K;
          if (g_verbose) CNT[fmt("dbg_one_side:%s:%s-rejects:%s:other=%s", kAKName[it.kind], kerr ? "base-known" : "relocate", E.forms[i].c_str(), O.forms[i].c_str())]++;
          const ARef& er = E.refs[i]; const ARef& orf = O.refs[i];
          bool is64 = P.arch != A_X86;
          uint64_t amask = is64 ? ~0ull : 0xFFFFFFFFull;
          uint64_t tgt = a_target(it, B, P.arch, er.pre);
          uint64_t esite = (B + E.S[size_t(er.sec)] + er.pre) & amask, eend = (esite + (orf.post - orf.pre)) & amask;
          int f = O.ffmt[i];
          if (it.kind == AK_JMPIMM || it.kind == AK_CALLIMM || it.kind == AK_JCCIMM || it.kind == AK_JECXZIMM) {
            int64_t need = is64 ? int64_t(tgt - eend) : sx(tgt - eend, 32);
            if (f == F_NONE) CNT["c04_one_side_error_not_judged:other-side-went-through-addrtab"]++;      // jmp/call rewritten to FF /2, FF /4: beyond rel32 by construction
            else if (fits(f, need)) viol(fmt("c04:reachable-target-rejected-at-emit:%s:%s", kAKName[it.kind], kerr ? "base-known" : "base-at-relocate"),
                                         fmt("%s: %s to 0x%llx from 0x%llx was refused (%s) by the build with the base %s, the other build encodes it as %s; the distance %lld fits that form",
                                             kArchName[P.arch], kAKName[it.kind], (ull)tgt, (ull)esite, E.forms[i].c_str(), kerr ? "given to init" : "given to relocate_to_base", O.forms[i].c_str(), (sll)need));
            else CNT["c04_one_side_error_justified_out_of_range_from_there"]++;
          }
          else if (it.kind == AK_A64IMM) {
            int af = a64_fmt_of_class(a64_expected_class(it.var));
            int64_t need = int64_t(tgt - esite);
            if (af == F_ADRP) CNT["c04_one_side_error_not_judged:adrp(page-aligned-target-rule-of-the-direct-path)"]++;
            else if (fits(af, need)) viol(fmt("c04:reachable-target-rejected-at-emit:a64-imm:%s:%s", kKindName[it.var], kerr ? "base-known" : "base-at-relocate"),
                                          fmt("a64 %s to 0x%llx from 0x%llx was refused (%s) by the build with the base %s; the distance %lld fits %s", kKindName[it.var], (ull)tgt, (ull)esite, E.forms[i].c_str(), kerr ? "given to init" : "given to relocate_to_base", (sll)need, kFmtName[af]));
            else CNT["c04_one_side_error_justified_out_of_range_from_there"]++;
          }
          else CNT[fmt("c04_one_side_error_not_judged:%s(designed:addressing-mode-depends-on-a-known-base)", kAKName[it.kind])]++;
          CNT["c04_one_side_errors_examined"]++;
        }
      }
    }
    if (g_samples.size() < 3 && U.built && U.refs.size() >= 3) {
      std::string s = fmt("%s base=0x%llx (%s) sections=%zu extra=%d:", kArchName[P.arch], (ull)B, base_class(B), P.secs.size(), P.extra);
      for (size_t i = 0; i < U.refs.size() && i < 6; i++) { const AItem& it = P.items[size_t(U.refs[i].item)]; s += fmt(" [%s target=0x%llx verdict=%d/%d]", kAKName[it.kind], (ull)a_target(it, B, P.arch, U.refs[i].pre), U.verdict.empty() ? -1 : U.verdict[i], K.verdict.empty() ? -1 : K.verdict[i]); }
      g_samples.push_back(s);
    }
  }
}

// ---------------------------------------------------------------------------------------------------------
// jit mode: JitRuntime::add installs exactly the relocated image, and the installed code reaches C functions of this
// driver (far: through the address table; near: rel32 to stubs living in JIT memory).
// ---------------------------------------------------------------------------------------------------------

#if defined(__x86_64__)
static volatile uint64_t g_vars[8] = { 0x1111111111111111ull, 0x2222, 0x3333333300000000ull, 0x44, 0x5555, 0x6666666, 0x77, 0x8888888888ull };
static inline uint64_t tgt_value(uint64_t k, uint64_t a, uint64_t b) { return a * 3 + b + k * 1000003ull; }
template<int K> static uint64_t tgt(uint64_t a, uint64_t b) {
  uint32_t n = g_sh->nrec;
  if (n < 64) { g_sh->rec[n][0] = uint64_t(K); g_sh->rec[n][1] = a; g_sh->rec[n][2] = b; g_sh->rec[n][3] = 1; g_sh->nrec = n + 1; }
  return tgt_value(uint64_t(K), a, b);
}
typedef uint64_t (*TgtFn)(uint64_t, uint64_t);
static TgtFn kTgts[] = { tgt<0>, tgt<1>, tgt<2>, tgt<3>, tgt<4>, tgt<5> };
static JitRuntime* g_rt = nullptr;
static JitRuntime* g_rt_dual = nullptr;   // the same pipeline with separate writable and executable views (rx != rw)
static uint64_t g_stub[6];

enum { S_CALL_C = 0, S_CALL_STUB, S_LOAD_VAR, S_CALL_TABLE, S_CALL_LABEL, S_LEA_DATA, S_JCC_OVER, S_COUNT };
struct JStep { int kind; int k; uint32_t a, b; int sec; uint64_t c; };
struct JSpec { std::vector<JStep> steps; int nsec; int extra; int tail; int tail_k; uint64_t lseed; };
struct JSite { int step; int sec; uint64_t pre, post; uint64_t target; };

static void jit_build(const JSpec& P, CodeHolder& code, std::vector<JSite>& sites, std::vector<Section*>& secs) {
  using namespace x86;
  if (code.init(g_rt->environment(), g_rt->cpu_features()) != Error::kOk) harness_fail("init");
  secs.push_back(code.text_section());
  for (int i = 1; i < P.nsec; i++) { Section* s = nullptr; if (code.new_section(Out(s), fmt(".j%d", i).c_str(), SIZE_MAX, SectionFlags::kExecutable, 16, i) != Error::kOk) harness_fail("new_section"); secs.push_back(s); }
  Section* extra = nullptr;
  if (P.extra == 1) { code.ensure_address_table_section(); if (code.new_section(Out(extra), ".after", SIZE_MAX, SectionFlags::kNone, 8, std::numeric_limits<int32_t>::max()) != Error::kOk) harness_fail("new_section"); }
  x86::Assembler a(&code);
  Rng r(P.lseed);
  struct Sub { Label L; int sec; uint64_t c; bool via_table; Label slot; };
  struct Dat { Label L; uint64_t c; };
  std::vector<Sub> subs; std::vector<Dat> dats;
  a.push(rbx); a.xor_(ebx, ebx);
  for (size_t si = 0; si < P.steps.size(); si++) {
    const JStep& s = P.steps[si];
    switch (s.kind) {
      case S_CALL_C: case S_CALL_STUB: {
        a.mov(edi, Imm(s.a)); a.mov(esi, Imm(s.b));
        JSite js; js.step = int(si); js.sec = 0; js.pre = uint64_t(a.offset());
        js.target = s.kind == S_CALL_C ? uint64_t(uintptr_t(kTgts[s.k])) : g_stub[s.k];
        if (a.call(Imm(js.target)) != Error::kOk) harness_fail("call imm");
        js.post = uint64_t(a.offset()); sites.push_back(js);
        a.add(rbx, rax);
        break;
      }
      case S_LOAD_VAR: if (a.mov(rax, x86::ptr(uint64_t(uintptr_t(&g_vars[s.k])))) != Error::kOk) harness_fail("mov rax,[abs]"); a.add(rbx, rax); break;
      case S_CALL_TABLE: case S_CALL_LABEL: {
        Sub sb; sb.L = a.new_label(); sb.sec = s.sec; sb.c = s.c; sb.via_table = s.kind == S_CALL_TABLE; sb.slot = a.new_label();
        if (sb.via_table) { if (a.call(x86::qword_ptr(sb.slot)) != Error::kOk) harness_fail("call [slot]"); }
        else if (a.call(sb.L) != Error::kOk) harness_fail("call label");
        subs.push_back(sb);
        break;
      }
      case S_LEA_DATA: { Dat d; d.L = a.new_label(); d.c = s.c; a.lea(rdx, x86::ptr(d.L)); a.add(rbx, x86::qword_ptr(rdx)); dats.push_back(d); break; }
      case S_JCC_OVER: { Label over = a.new_label(); a.test(rsp, rsp); a.jnz(over); a.ud2(); a.embed(g_int3, size_t(s.a % 200)); a.bind(over); break; }
    }
  }
  if (P.tail) { a.mov(rdi, rbx); a.xor_(esi, esi); a.pop(rbx); JSite js; js.step = -1; js.sec = 0; js.pre = uint64_t(a.offset()); js.target = uint64_t(uintptr_t(kTgts[P.tail_k])); if (a.jmp(Imm(js.target)) != Error::kOk) harness_fail("jmp imm"); js.post = uint64_t(a.offset()); sites.push_back(js); }
  else { a.mov(rax, rbx); a.pop(rbx); a.ret(); }
  for (const Sub& sb : subs) {
    a.section(secs[size_t(sb.sec)]);
    a.align(AlignMode::kCode, 16);
    a.bind(sb.L); a.mov(rax, Imm(sb.c)); a.add(rbx, rax); a.ret();
  }
  a.section(secs[size_t(P.nsec - 1)]);
  a.align(AlignMode::kData, 8);
  for (const Sub& sb : subs) if (sb.via_table) { a.bind(sb.slot); a.embed_label(sb.L, 8); }
  for (const Dat& d : dats) { a.bind(d.L); a.embed(&d.c, 8); }
  if (extra) { a.section(extra); static const uint8_t tail[16] = { 0xEE, 0xEE, 0xEE, 0xEE, 0xEE, 0xEE, 0xEE, 0xEE, 0xEE, 0xEE, 0xEE, 0xEE, 0xEE, 0xEE, 0xEE, 0xEE }; a.embed(tail, sizeof tail); }
  (void)r;
}

static void init_jit() {
  g_rt = new JitRuntime();
  {
    JitAllocator::CreateParams dp {};
    dp.options = JitAllocatorOptions::kUseDualMapping;
    g_rt_dual = new JitRuntime(&dp);
  }
  for (int k = 0; k < 6; k++) {
    CodeHolder c; c.init(g_rt->environment(), g_rt->cpu_features());
    x86::Assembler a(&c);
    a.mov(x86::rax, Imm(uint64_t(uintptr_t(kTgts[k])))); a.jmp(x86::rax);
    void* p = nullptr;
    if (g_rt->add(&p, &c) != Error::kOk) harness_fail("stub add");
    g_stub[k] = uint64_t(uintptr_t(p));
  }
}

static void run_jit(Rng& r) {
  JSpec P; P.nsec = int(1 + r.below(3)); { uint64_t x = r.below(100); P.extra = x < 75 ? 0 : 1; } P.tail = r.chance(1, 2); P.tail_k = int(r.below(6)); P.lseed = r.next();
  int n = int(2 + r.below(14));
  for (int i = 0; i < n; i++) {
    JStep s; uint64_t x = r.below(100);
    s.kind = x < 35 ? S_CALL_C : x < 50 ? S_CALL_STUB : x < 60 ? S_LOAD_VAR : x < 72 ? S_CALL_TABLE : x < 84 ? S_CALL_LABEL : x < 93 ? S_LEA_DATA : S_JCC_OVER;
    s.k = int(r.below(s.kind == S_LOAD_VAR ? 8 : 6)); s.a = uint32_t(r.next()); s.b = uint32_t(r.next()); s.sec = int(r.below(uint64_t(P.nsec))); s.c = r.next() >> 8;
    P.steps.push_back(s);
  }
  bool dual = (r.next() & 1) != 0;
  JitRuntime* rt = dual ? g_rt_dual : g_rt;
  g_prog_desc = fmt("jit steps=%zu sections=%d extra-section-after-addrtab=%d tail-jmp=%d dual-mapping=%d", P.steps.size(), P.nsec, P.extra, P.tail, int(dual));
  CNT["jit_programs"]++;
  if (dual) CNT["jit_programs_dual_mapping"]++;
  CodeHolder c1, c2; std::vector<JSite> sites1, sites2; std::vector<Section*> secs1, secs2;
  jit_build(P, c1, sites1, secs1);
  jit_build(P, c2, sites2, secs2);
  void* fnp = nullptr;
  materialize_null_buffers(c1); materialize_null_buffers(c2);
  Error e = rt->add(&fnp, &c1);
  if (e != Error::kOk) { viol(fmt("jit:add-error:%s", errname(e)), "JitRuntime::add failed"); return; }
  uint64_t base = uint64_t(uintptr_t(fnp));
  // the same program, relocated by hand to the same address
  if (c2.flatten() != Error::kOk || c2.resolve_cross_section_fixups() != Error::kOk || c2.unresolved_fixup_count()) { viol("jit:manual-flatten-resolve-failed", "second build could not be flattened/resolved"); rt->release(fnp); return; }
  Error le = c2.relocate_to_base(base);
  if (le != Error::kOk) { viol(fmt("jit:manual-relocate-error:%s", errname(le)), "relocate_to_base(pointer returned by JitRuntime::add) failed"); rt->release(fnp); return; }
  size_t size = c2.code_size();
  GuardBuf gb(size);
  Error ce = c2.copy_flattened_data(gb.data(), size, CopySectionFlags::kPadSectionBuffer | CopySectionFlags::kPadTargetBuffer);
  if (ce != Error::kOk) { viol("jit:manual-copy-failed", errname(ce)); rt->release(fnp); return; }
  const uint8_t* mem = static_cast<const uint8_t*>(fnp);
  // compare every byte that belongs to a section (buffer or virtual size); bytes of code_size() beyond all sections are nobody's
  std::vector<uint8_t> owned(size, 0);
  for (Section* sct : c2.sections()) { uint64_t o = sct->offset(), n = sct->real_size(); for (uint64_t i = o; i < o + n && i < size; i++) owned[size_t(i)] = 1; }
  bool same = true; size_t firstdiff = 0, ncmp = 0;
  for (size_t i = 0; i < size; i++) if (owned[i]) { ncmp++; if (mem[i] != gb.data()[i] && same) { same = false; firstdiff = i; } }
  CNT["jit_bytes_compared"] += ncmp;
  bool addrtab_last = !c1.has_address_table_section() || c1.sections_by_order()[c1.section_count() - 1] == c1.address_table_section();
  std::string cfg = std::string(addrtab_last ? "addrtab-last" : "addrtab-not-last");
  if (!same) {
    size_t i = firstdiff;
    viol("jit:installed-bytes-differ-from-relocated-image", fmt("byte %zu of %zu: installed 0x%02x, image relocated to the same address 0x%02x (%s)", i, size, mem[i], gb.data()[i], cfg.c_str()));
  }
  // evaluate call/jmp sites in the installed memory
  bool all_ok = same;
  for (const JSite& js : sites1) {
    uint64_t so = c1.text_section()->offset() + js.pre; uint64_t len = js.post - js.pre;
    const uint8_t* p = mem + so;
    uint64_t site_end = base + c1.text_section()->offset() + js.post;
    XLoc xl = x86_locate(p, int(len), true);
    uint64_t got = 0; bool ok = false; bool via_tab = false;
    if (xl.cls == XC_BRANCH && xl.fsize == 4) { got = site_end + uint64_t(sx(rd(p + xl.fpos, 4), 32)); ok = got == js.target; }
    else if (xl.cls == XC_MODRM && xl.op == 0xFF && xl.memkind == MK_RIP) {
      via_tab = true;
      uint64_t slot = site_end + uint64_t(sx(rd(p + xl.fpos, 4), 32));
      Section* at = c1.address_table_section();
      if (!at || slot < base + at->offset() || slot + 8 > base + at->offset() + at->real_size()) { viol("jit:addrtab:slot-outside-table", fmt("slot 0x%llx", (ull)slot)); all_ok = false; continue; }
      got = rd(reinterpret_cast<const uint8_t*>(uintptr_t(slot)), 8); ok = got == js.target;
      if (!ok && got == 0 && !addrtab_last) { viol("addrtab-not-last:slot-not-copied", fmt("JitRuntime::add: call/jmp to 0x%llx goes through .addrtab slot 0x%llx which holds 0 in the installed code (another section is ordered after .addrtab)", (ull)js.target, (ull)slot)); all_ok = false; CNT["jit_addrtab_slot_missing"]++; continue; }
    }
    uint64_t dist = js.target > site_end ? js.target - site_end : site_end - js.target;
    if (ok) {
      CNT[via_tab ? "jit_sites_through_addrtab" : "jit_sites_rel32"]++;
      if (via_tab) { uint64_t& mn = MAXC["jit_min_distance_of_addrtab_targets_bytes_inverted"]; uint64_t inv = ~dist; if (inv > mn) mn = inv; maxc("jit_max_distance_of_addrtab_targets_bytes", dist); }
      g_classes.insert(std::string("jit:") + (js.step < 0 ? "jmp-imm" : "call-imm") + (via_tab ? ".addrtab" : ".rel32") + ":" + cfg);
    }
    else { all_ok = false; viol(fmt("jit:%s:wrong-target", via_tab ? "addrtab" : "rel32"), fmt("site designates 0x%llx, requested 0x%llx (%s)", (ull)got, (ull)js.target, cfg.c_str())); }
  }
  if (all_ok) {
    // expected effect
    uint64_t acc = 0; std::vector<std::array<uint64_t, 3>> exp;
    for (const JStep& s : P.steps) {
      switch (s.kind) {
        case S_CALL_C: case S_CALL_STUB: acc += tgt_value(uint64_t(s.k), s.a, s.b); exp.push_back({ uint64_t(s.k), s.a, s.b }); break;
        case S_LOAD_VAR: acc += g_vars[s.k]; break;
        case S_CALL_TABLE: case S_CALL_LABEL: case S_LEA_DATA: acc += s.c; break;
      }
    }
    uint64_t expret = acc;
    if (P.tail) { exp.push_back({ uint64_t(P.tail_k), acc, 0 }); expret = tgt_value(uint64_t(P.tail_k), acc, 0); }
    g_sh->done = 0; g_sh->nrec = 0; g_sh->ret = 0;
    typedef uint64_t (*Fn)();
    Fn fn = Fn(fnp);
    int st = fork_call([&]() { g_sh->ret = fn(); g_sh->done = 1; });
    CNT["jit_programs_called"]++;
    bool ok = st == 0 && g_sh->done == 1 && g_sh->ret == expret && g_sh->nrec == exp.size();
    if (ok) for (size_t i = 0; i < exp.size(); i++) if (g_sh->rec[i][0] != exp[i][0] || g_sh->rec[i][1] != exp[i][1] || g_sh->rec[i][2] != exp[i][2]) ok = false;
    if (!ok) viol(st > 0 && st < 1000 ? "jit:call-crashed" : "jit:call-wrong-effect", fmt("status %d done=%u returned 0x%llx expected 0x%llx, %u C calls recorded, expected %zu (%s)", st, g_sh->done, (ull)g_sh->ret, (ull)expret, g_sh->nrec, exp.size(), cfg.c_str()));
    else { CNT["jit_calls_effect_verified"]++; CNT["jit_c_functions_reached"] += exp.size(); }
  }
  rt->release(fnp);
}
#else
static void init_jit() {}
static void run_jit(Rng&) {}
#endif

// ---------------------------------------------------------------------------------------------------------

int main(int argc, char** argv) {
  Args a(argc, argv);
  uint64_t seed = a.u64("seed", 1);
  uint64_t first = a.u64("first", 0), nprog = a.u64("programs", 100);
  std::string mode = a.str("mode", "c03");
  int profile = int(a.u64("profile", 0));
  int nbases = int(a.u64("bases", 6));
  g_verbose = a.has("verbose");
  g_decode_cap = size_t(a.u64("decode-samples", 60));
  if (a.has("only")) { first = a.u64("only", 0); nprog = 1; }
#if defined(__SANITIZE_ADDRESS__)
  __asan_set_death_callback(on_asan_death);
#endif
  init_zero();
  init_shared();
  if (mode == "jit") init_jit();
  for (uint64_t i = first; i < first + nprog; i++) {
    g_prog = i; g_prog_desc = "";
    Rng r(seed * 1000003ull + i * 7919ull + 17);
    if (mode == "c03") run_c03(r, profile);
    else if (mode == "exec") run_exec(r);
    else if (mode == "c04") run_c04(r, nbases);
    else if (mode == "jit") run_jit(r);
    else harness_fail("unknown mode");
  }
  printf("{\"mode\":%s,\"violations\":[", jstr(mode).c_str());
  for (size_t i = 0; i < g_viol.size(); i++)
    printf("%s{\"key\":%s,\"what\":%s,\"program\":%llu,\"count\":%llu}", i ? "," : "", jstr(g_viol[i].key).c_str(), jstr(g_viol[i].what.substr(0, 1800)).c_str(), (ull)g_viol[i].prog, (ull)g_viol[i].count);
  printf("],\"counters\":{");
  { bool f = true; for (auto& kv : CNT) { printf("%s%s:%llu", f ? "" : ",", jstr(kv.first).c_str(), (ull)kv.second); f = false; } }
  printf("},\"max\":{");
  { bool f = true; for (auto& kv : MAXC) { printf("%s%s:%llu", f ? "" : ",", jstr(kv.first).c_str(), (ull)kv.second); f = false; } }
  printf("},\"classes\":[");
  { bool f = true; for (auto& c : g_classes) { printf("%s%s", f ? "" : ",", jstr(c).c_str()); f = false; } }
  printf("],\"samples\":[");
  for (size_t i = 0; i < g_samples.size(); i++) printf("%s%s", i ? "," : "", jstr(g_samples[i]).c_str());
  printf("],\"decode\":[");
  for (size_t i = 0; i < g_decode.size(); i++) printf("%s%s", i ? "," : "", g_decode[i].c_str());
  printf("]}\n");
  return 0;
}
