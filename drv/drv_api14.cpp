// C14 (second driver): valid and invalid label / section / alignment / data API calls interleaved with valid
// instructions on an Assembler, Builder or Compiler; a failing call must change nothing and call the handler once.
#include <asmjit/core.h>
#include <asmjit/x86.h>
#include <asmjit/a64.h>
#include "vcommon.h"
#include <memory>

using namespace asmjit;

namespace lbl {
template<typename E> static uint32_t oneshot_reference(Arch arch, const std::string& kind);
template<typename E> static uint32_t read_and_clear_oneshot(E& e);
template<typename E> static void arm_oneshot_state(E& e, bool with_options_and_extra);
}

struct ScriptThrow { Error err; };
struct Handler : public ErrorHandler {
  int calls = 0;
  bool do_throw = false;
  void handle_error(Error err, const char*, BaseEmitter*) override { calls++; if (do_throw) throw ScriptThrow{err}; }
};

struct Snap {
  size_t off, labels, fix, rel, sec; uint64_t hash; size_t named_hits;
};

struct Viol { std::string key, what; };
static std::vector<Viol> g_viol;
static std::map<std::string, uint64_t> g_by_api;
static std::set<std::string> g_distinct;

static void fail(const std::string& key, const std::string& what) {
  for (auto& v : g_viol) if (v.key == key) return;
  g_viol.push_back({key, what});
}

template<typename ASM>
struct Script {
  Environment env;
  CodeHolder code;
  ASM a;
  Handler eh;
  Rng r;
  std::vector<Label> labels;      // valid labels
  std::vector<bool> bound;
  std::vector<Section*> sections;
  std::vector<std::string> names;
  uint64_t ops = 0;
  bool is_a64;
  bool threw = false;             // the last guarded call left through the throwing handler
  bool armed = false;             // one-shot instruction state armed before the call that is judged next
  uint64_t steps = 0;

  // do_throw: the handler throws (every call is guarded); own: the handler is set on the emitter, not on the CodeHolder
  Script(Arch arch, uint64_t seed, bool do_throw = false, bool own = false) : env(arch), r(seed), is_a64(arch == Arch::kAArch64) {
    code.init(env);
    eh.do_throw = do_throw;
    if (!own) code.set_error_handler(&eh);
    code.attach(&a);
    if (own) a.set_error_handler(&eh);
    sections.push_back(code.text_section());
  }

  template<typename F> Error call(F&& f) {
    threw = false;
    try { return f(); } catch (ScriptThrow& t) { threw = true; return t.err; }
  }

  Snap snap() {
    Snap s;
    s.off = a.offset(); s.labels = code.label_count(); s.fix = code.unresolved_fixup_count();
    s.rel = code.reloc_entries().size(); s.sec = code.section_count();
    s.hash = fnv1a(a.buffer_data(), a.offset());
    s.named_hits = 0;
    for (auto& n : names) if (code.label_by_name(n.c_str(), n.size()).is_valid()) s.named_hits++;
    return s;
  }

  void judge(const char* api, const std::string& arg, Error err, const Snap& before, bool expect_fail) {
    ops++;
    g_by_api[api]++;
    g_distinct.insert(std::string(api) + (err == Error::kOk ? ":ok" : ":err" + std::to_string(unsigned(err))));
    uint32_t left = armed ? lbl::read_and_clear_oneshot(a) : 0u;
    if (err != Error::kOk && armed) {
      // a failed call clears the one-shot state - as far as a successful call of the same kind does (reference on a fresh Assembler)
      uint32_t ref = lbl::oneshot_reference<ASM>(env.arch(), api);
      g_by_api["script.oneshot.armed-failing-calls"]++;
      static const char* const names[3] = { "inline-comment", "inst-options", "extra-reg" };
      if (ref != 0x100) for (uint32_t c = 0; c < 3; c++) if ((ref & (1u << c)) && (left & (1u << c)))
        fail(std::string(api) + ":one-shot-" + names[c] + "-left", std::string(api) + "(" + arg + ") failed with " + std::to_string(unsigned(err)) + " but the one-shot " + names[c] + " armed before the call is still set (a successful " + api + " clears it)");
    }
    armed = false;
    if (err != Error::kOk) {
      Snap after = snap();
      std::string what = std::string(api) + "(" + arg + ") failed with " + std::to_string(unsigned(err));
      if (after.off != before.off || after.hash != before.hash) fail(std::string(api) + ":failed-call-changed-code", what + " but changed the code buffer");
      if (after.labels != before.labels) fail(std::string(api) + ":failed-call-created-label", what + " but the label count changed");
      if (after.fix != before.fix) fail(std::string(api) + ":failed-call-created-fixup", what + " but the unresolved fixup count changed");
      if (after.rel != before.rel) fail(std::string(api) + ":failed-call-created-reloc", what + " but the relocation count changed");
      if (after.sec != before.sec) fail(std::string(api) + ":failed-call-created-section", what + " but the section count changed");
      if (after.named_hits != before.named_hits) fail(std::string(api) + ":failed-call-changed-names", what + " but named label lookups changed");
      if (eh.calls != 1) fail(std::string(api) + ":handler-calls", what + " and called the error handler " + std::to_string(eh.calls) + " times");
      if (eh.do_throw) {
        g_by_api["script.failures-with-throwing-handler"]++;
        if (eh.calls && !threw) fail(std::string(api) + ":exception-swallowed", what + ": the handler threw but the call returned normally");
      }
    }
    else {
      if (eh.calls != 0) fail(std::string(api) + ":handler-on-success", std::string(api) + "(" + arg + ") succeeded but called the error handler");
      if (expect_fail) fail(std::string(api) + ":invalid-argument-accepted", std::string(api) + "(" + arg + ") must be refused but returned kOk");
    }
    eh.calls = 0;
  }

  Label some_label(bool& valid_out) {
    uint64_t k = r.below(10);
    if (k < 6 && !labels.empty()) { valid_out = true; return labels[r.below(labels.size())]; }
    valid_out = false;
    switch (r.below(4)) {
      case 0: return Label();
      case 1: return Label(uint32_t(code.label_count() + r.below(5)));
      case 2: return Label(0x7FFFFFFFu);
      default: return Label(uint32_t(r.next()));
    }
  }

  void emit_valid_inst();
  void probe(std::string& out);

  void step() {
    eh.calls = 0;
    uint64_t k = r.below(100);
    Snap s = snap();
    char buf[128];
    // every second call that goes through judge() finds the one-shot instruction state armed
    if ((++steps & 1) == 0 && ((k >= 12 && k < 74) || (k >= 90 && k < 94))) { lbl::arm_oneshot_state(a, true); armed = true; }
    if (k < 12) {
      Label l = a.new_label();
      g_by_api["new_label"]++; ops++;
      if (l.is_valid()) { labels.push_back(l); bound.push_back(false); }
    }
    else if (k < 30) {
      bool valid; Label l = some_label(valid);
      bool already = false;
      if (valid) for (size_t i = 0; i < labels.size(); i++) if (labels[i].id() == l.id()) already = bound[i];
      Error e = call([&] { return a.bind(l); });
      snprintf(buf, sizeof buf, "label id %u valid=%d bound=%d", l.id(), int(valid), int(already));
      judge("bind", buf, e, s, !valid || already);
      if (e == Error::kOk) for (size_t i = 0; i < labels.size(); i++) if (labels[i].id() == l.id()) bound[i] = true;
    }
    else if (k < 42) {
      static const uint32_t aligns[] = { 0, 1, 2, 4, 8, 16, 32, 64, 3, 5, 24, 100, 128, 256, 65536, 0x80000000u, 0xFFFFFFFFu };
      uint32_t al = aligns[r.below(sizeof aligns / sizeof aligns[0])];
      uint32_t mode = uint32_t(r.below(5));
      Error e = call([&] { return a.align(AlignMode(mode), al); });
      bool bad = mode > 2 || (al > 1 && ((al & (al - 1)) != 0 || al > Globals::kMaxAlignment));
      snprintf(buf, sizeof buf, "mode %u, alignment %u", mode, al);
      judge("align", buf, e, s, bad);
    }
    else if (k < 50) {
      uint8_t data[64]; for (auto& x : data) x = uint8_t(r.next());
      size_t n = r.below(3) == 0 ? 0 : r.below(64);
      Error e = call([&] { return a.embed(data, n); });
      snprintf(buf, sizeof buf, "%zu bytes", n);
      judge("embed", buf, e, s, false);
    }
    else if (k < 58) {
      uint64_t data[8]; for (auto& x : data) x = r.next();
      static const TypeId types[] = { TypeId::kInt8, TypeId::kUInt16, TypeId::kInt32, TypeId::kUInt64, TypeId::kFloat32, TypeId::kFloat64, TypeId::kVoid, TypeId::kIntPtr, TypeId(200), TypeId(255), TypeId::kInt32x4 };
      TypeId t = types[r.below(sizeof types / sizeof types[0])];
      size_t count = r.below(4) == 0 ? 0 : 1 + r.below(4);
      static const size_t reps[] = { 0, 1, 2, 3, SIZE_MAX, SIZE_MAX / 2, size_t(1) << 40 };
      size_t rep = reps[r.below(4) == 0 ? r.below(7) : 1 + r.below(3)];
      Error e = call([&] { return a.embed_data_array(t, data, count, rep); });
      snprintf(buf, sizeof buf, "type %u count %zu repeat %zu", unsigned(t), count, rep);
      bool bad = rep > 1000 && count > 0;
      judge("embed_data_array", buf, e, s, bad);
    }
    else if (k < 66) {
      bool valid; Label l = some_label(valid);
      static const size_t sizes[] = { 0, 1, 2, 4, 8, 3, 5, 16, 100 };
      size_t sz = sizes[r.below(9)];
      Error e = call([&] { return a.embed_label(l, sz); });
      snprintf(buf, sizeof buf, "label id %u valid=%d size %zu", l.id(), int(valid), sz);
      judge("embed_label", buf, e, s, !valid || sz == 3 || sz == 5 || sz > 8);
    }
    else if (k < 74) {
      bool v1, v2; Label l1 = some_label(v1), l2 = some_label(v2);
      static const size_t sizes[] = { 0, 1, 2, 4, 8, 3, 7, 16 };
      size_t sz = sizes[r.below(8)];
      Error e = call([&] { return a.embed_label_delta(l1, l2, sz); });
      snprintf(buf, sizeof buf, "labels %u,%u valid=%d,%d size %zu", l1.id(), l2.id(), int(v1), int(v2), sz);
      judge("embed_label_delta", buf, e, s, !v1 || !v2 || sz == 3 || sz == 7 || sz > 8);
    }
    else if (k < 84) {
      std::string name;
      uint64_t nk = r.below(6);
      if (nk == 0) name = "";
      else if (nk == 1 && !names.empty()) name = names[r.below(names.size())];
      else if (nk == 2) name = std::string(Globals::kMaxLabelNameSize + 1 + r.below(10), 'x');
      else name = "lbl_" + std::to_string(r.below(1000000));
      uint32_t type = uint32_t(r.below(5));
      uint32_t parent = Globals::kInvalidId;
      if (r.below(3) == 0) parent = labels.empty() || r.below(2) ? uint32_t(code.label_count() + 7) : labels[r.below(labels.size())].id();
      else if (r.below(3) == 0) {
        // boundary ids: the id the new label itself is about to get, its neighbours, and the ends of the id space
        static const int64_t deltas[] = { 0, 1, -1, 2 };
        uint64_t pick = r.below(6);
        parent = pick < 4 ? uint32_t(int64_t(code.label_count()) + deltas[pick]) : pick == 4 ? 0u : 0xFFFFFFFEu;
      }
      size_t before_count = code.label_count();
      bool parent_exists = parent != Globals::kInvalidId && size_t(parent) < before_count;
      // documented rules: a local label needs an existing parent; every other named label must not have one
      bool must_refuse = !name.empty() && name.size() <= Globals::kMaxLabelNameSize &&
                         ((type == uint32_t(LabelType::kLocal) && !parent_exists) ||
                          (type != uint32_t(LabelType::kLocal) && type <= uint32_t(LabelType::kExternal) && parent != Globals::kInvalidId));
      Label l;
      call([&] { l = a.new_named_label(name.c_str(), name.size(), LabelType(type), parent); return Error::kOk; });
      ops++; g_by_api["new_named_label"]++;
      g_distinct.insert(std::string("new_named_label:") + (l.is_valid() ? "ok" : "refused"));
      if (!l.is_valid()) {
        Snap after = snap();
        if (after.labels != before_count) fail("new_named_label:failed-call-created-label", "new_named_label('" + name.substr(0, 20) + "', type " + std::to_string(type) + ") returned an invalid label but the label count changed");
        if (after.named_hits != s.named_hits) fail("new_named_label:failed-call-changed-names", "refused new_named_label changed name lookups");
        if (eh.calls != 1) fail("new_named_label:handler-calls", "refused new_named_label('" + name.substr(0, 20) + "') called the handler " + std::to_string(eh.calls) + " times");
        if (eh.do_throw) {
          g_by_api["script.failures-with-throwing-handler"]++;
          if (eh.calls && !threw) fail("new_named_label:exception-swallowed", "refused new_named_label('" + name.substr(0, 20) + "'): the handler threw but the call returned normally");
        }
      }
      else {
        if (must_refuse) fail("new_named_label:invalid-parent-accepted", "new_named_label('" + name.substr(0, 20) + "', type " + std::to_string(type) + ", parent " + std::to_string(parent) + ") with " + std::to_string(before_count) + " labels defined returned label " + std::to_string(l.id()) + " - must be refused");
        if (eh.calls) fail("new_named_label:handler-on-success", "successful new_named_label called the handler");
        labels.push_back(l); bound.push_back(false);
        if (!name.empty() && type != uint32_t(LabelType::kAnonymous) && type != uint32_t(LabelType::kLocal)) names.push_back(name);
      }
      eh.calls = 0;
    }
    else if (k < 90) {
      std::string name = r.below(4) == 0 ? std::string(Globals::kMaxSectionNameSize + 1 + r.below(4), 's') : ".s" + std::to_string(r.below(100000));
      static const uint32_t aligns[] = { 0, 1, 2, 16, 64, 4096, 65536, 3, 24, 100 };
      uint32_t al = aligns[r.below(10)];
      Section* sec = nullptr;
      Error e = code.new_section(Out(sec), name.c_str(), name.size(), SectionFlags::kNone, al, int32_t(r.next()));
      ops++; g_by_api["new_section"]++;
      g_distinct.insert(std::string("new_section:") + (e == Error::kOk ? "ok" : "err"));
      bool bad = name.size() > Globals::kMaxSectionNameSize || (al > 1 && (al & (al - 1)));
      if (e != Error::kOk) {
        Snap after = snap();
        if (after.sec != s.sec) fail("new_section:failed-call-created-section", "new_section failed but the section count changed");
      }
      else {
        if (bad) fail("new_section:invalid-argument-accepted", "new_section(name of " + std::to_string(name.size()) + " chars, alignment " + std::to_string(al) + ") must be refused");
        sections.push_back(sec);
      }
      eh.calls = 0;
    }
    else if (k < 94) {
      Section* sec = sections[r.below(sections.size())];
      Error e = call([&] { return a.section(sec); });
      judge("section", "existing section", e, s, false);
    }
    else {
      emit_valid_inst();
    }
  }
};

template<> void Script<x86::Assembler>::emit_valid_inst() {
  eh.calls = 0;
  Error e = r.below(2) ? a.add(x86::eax, x86::ecx) : a.mov(x86::edx, 7);
  ops++; g_by_api["inst"]++;
  if (e != Error::kOk || eh.calls) fail("inst:valid-instruction-refused", "a valid instruction failed after earlier failing calls");
}
template<> void Script<a64::Assembler>::emit_valid_inst() {
  eh.calls = 0;
  Error e = r.below(2) ? a.add(a64::x0, a64::x1, a64::x2) : a.mov(a64::w3, 7);
  ops++; g_by_api["inst"]++;
  if (e != Error::kOk || eh.calls) fail("inst:valid-instruction-refused", "a valid instruction failed after earlier failing calls");
}
template<> void Script<x86::Assembler>::probe(std::string& out) {
  size_t p0 = a.offset();
  a.mov(x86::eax, 1); a.add(x86::eax, x86::ecx);
  Label l = a.new_label(); a.bind(l); a.dec(x86::ecx); a.jnz(l); a.ret();
  out = hexstr(a.buffer_data() + p0, a.offset() - p0);
}
template<> void Script<a64::Assembler>::probe(std::string& out) {
  size_t p0 = a.offset();
  a.mov(a64::w0, 1); a.add(a64::w0, a64::w0, a64::w1);
  Label l = a.new_label(); a.bind(l); a.subs(a64::w1, a64::w1, 1); a.b_ne(l); a.ret(a64::x30);
  out = hexstr(a.buffer_data() + p0, a.offset() - p0);
}

template<typename ASM>
static void run(Arch arch, uint64_t seed, size_t nops, bool do_throw, bool own) {
  std::string used, fresh;
  {
    Script<ASM> s(arch, seed, do_throw, own);
    g_by_api[do_throw ? "script.runs-with-throwing-handler" : "script.runs-with-returning-handler"]++;
    g_by_api[own ? "script.runs-with-handler-on-emitter" : "script.runs-with-handler-on-holder"]++;
    for (size_t i = 0; i < nops; i++) s.step();
    // leave the last section aligned state out of the comparison: switch to a new empty section first
    Section* sec = nullptr;
    if (s.code.new_section(Out(sec), ".probe", SIZE_MAX, SectionFlags::kNone, 1, 0) == Error::kOk) s.a.section(sec);
    s.probe(used);
    g_by_api["ops_total"] = s.ops;
  }
  {
    Script<ASM> s(arch, seed);
    s.probe(fresh);
  }
  if (used != fresh) fail("residue:final-probe-differs", "after the script the probe program assembles to " + used + ", a fresh emitter gives " + fresh);
}

// ======================================================================================================
// Label / section ARGUMENT probes on every emitter kind (Assembler, Builder and Compiler of the architecture).
//
// One scenario = one emitter fed a random stream of VALID calls (labels, binds, alignment, data, instructions with
// and without label operands, constant pools, sections, cursor moves on Builder/Compiler) with INVALID calls drawn
// from a second random stream in between, and a TWIN emitter that receives only the valid stream. Every invalid
// call hands a label that does not exist in the attached CodeHolder (or a section of another CodeHolder) to one
// label-taking entry point. Oracles per invalid call: refused (non-kOk), handler called exactly once with the
// returned code (throwing handler: the exception arrives), and nothing changed: bytes / offset / current section
// (Assembler), node list and cursor (Builder, Compiler), label / section / fixup / relocation counts. At the end
// both emitters are finalized and everything the CodeHolder holds must be equal.
//
// Builder and Compiler RECORD embed_label / embed_label_delta / instructions: a label id in such a node is checked
// when the node is serialized. For these entry points (and JumpAnnotation::add_label, invoke) "accepted, exactly one
// node appended, handler silent" is a legal outcome (counted as deferred) - then finalize() of an emitter holding
// such a node must fail and report exactly once (dedicated small scenarios).
//
// key = <emitter>:<entry>:<outcome>:<kind of bad argument>
// ======================================================================================================
namespace lbl {

enum { K_ASM = 0, K_BUILDER = 1, K_COMPILER = 2 };
template<typename E> struct EK;
template<> struct EK<x86::Assembler> { enum { kind = K_ASM, a64 = 0 };      static const char* name() { return "x86.asm"; } };
template<> struct EK<x86::Builder>   { enum { kind = K_BUILDER, a64 = 0 };  static const char* name() { return "x86.builder"; } };
template<> struct EK<x86::Compiler>  { enum { kind = K_COMPILER, a64 = 0 }; static const char* name() { return "x86.compiler"; } };
template<> struct EK<a64::Assembler> { enum { kind = K_ASM, a64 = 1 };      static const char* name() { return "a64.asm"; } };
template<> struct EK<a64::Builder>   { enum { kind = K_BUILDER, a64 = 1 };  static const char* name() { return "a64.builder"; } };
template<> struct EK<a64::Compiler>  { enum { kind = K_COMPILER, a64 = 1 }; static const char* name() { return "a64.compiler"; } };

struct ThrowErr { Error err; };
struct LHandler : public ErrorHandler {
  int calls = 0; Error last = Error::kOk; bool do_throw = false;
  void handle_error(Error e, const char*, BaseEmitter*) override { calls++; last = e; if (do_throw) throw ThrowErr{e}; }
};

enum Bad { B_INVALID, B_COUNT, B_COUNT1, B_COUNT1000, B_FFFFFFFE, B_FOREIGN, B_BOUND };
static const char* const bad_names[] = { "invalid-id", "count", "count+1", "count+1000", "0xfffffffe", "foreign-holder", "already-bound" };

struct LSnap {
  size_t labels = 0, secs = 0, fix = 0, rel = 0, total = 0; uint64_t bytes = 0;
  size_t off = 0; const void* cur_sec = nullptr;                        // Assembler
  size_t nodes = 0; uint64_t list = 0; const void* cursor = nullptr; bool list_ok = true;   // Builder / Compiler
};

struct CallResult { Error err; bool threw; };
template<typename F> static CallResult guarded(F&& f) {
  try { return CallResult{ f(), false }; } catch (ThrowErr& t) { return CallResult{ t.err, true }; }
}

static uint64_t g_calls = 0, g_scenarios = 0, g_twin_compared = 0, g_twin_skipped = 0, g_twin_finalize_failed = 0;

// ---- one-shot instruction state (inline comment, instruction options, extra register) around failing NON-instruction calls.
// "A failed call clears the one-shot instruction state" - measured against the code's own contract: what a SUCCESSFUL call of the same
// kind clears on a fresh emitter of the same type (reference, learned once per emitter type and call kind); a failing instruction must
// clear all three. bit 0 = inline comment, bit 1 = instruction options, bit 2 = extra register.
static const char kArmedComment[] = "c14 one-shot comment";
static const uint32_t kArmedOptions = 0x2000u;
template<typename E> static void arm_oneshot_state(E& e, bool with_options_and_extra) {
  e.set_inline_comment(kArmedComment);
  if (with_options_and_extra) {
    e.set_inst_options(InstOptions(kArmedOptions));
    if constexpr (EK<E>::a64) e.set_extra_reg(a64::x(1)); else e.set_extra_reg(x86::k(1));
  }
}
template<typename E> static uint32_t read_and_clear_oneshot(E& e) {
  uint32_t left = (e.inline_comment() != nullptr ? 1u : 0u) | (uint32_t(e.inst_options()) != 0 ? 2u : 0u) | (e.extra_reg().is_reg() ? 4u : 0u);
  e.reset_inline_comment(); e.reset_inst_options(); e.reset_extra_reg();
  return left;
}
static std::string oneshot_kind_of(const std::string& entry) {
  if (entry.compare(0, 5, "inst.") == 0) return "inst";
  if (entry.compare(0, 17, "embed_label_delta") == 0) return "embed_label_delta";
  if (entry == "bind" || entry == "align" || entry == "embed" || entry == "embed_label" || entry == "embed_const_pool" || entry == "section" || entry == "embed_data_array") return entry;
  return "";       // lookups, CodeHolder calls, label creation: not calls that emit
}
// what a successful call of `kind` clears (mask) on a fresh emitter of type E; 0x100 = the call did not succeed (no reference)
template<typename E> static uint32_t oneshot_reference(Arch arch, const std::string& kind) {
  static std::map<std::string, uint32_t> cache;
  std::string key = std::string(EK<E>::name()) + (arch == Arch::kX86 ? "/32:" : ":") + kind;
  auto it = cache.find(key);
  if (it != cache.end()) return it->second;
  uint32_t cleared = 0x100;
  if (kind == "inst") cleared = 7;
  else {
    CodeHolder code; code.init(Environment(arch));
    E e; code.attach(&e);
    Label l1 = e.new_label(), l2 = e.new_label();
    Arena arena(1024); ConstPool pool(arena); uint64_t v = 1; size_t off; (void)pool.add(&v, 8, Out(off));
    Section* sec = nullptr; (void)code.new_section(Out(sec), ".ref", SIZE_MAX, SectionFlags::kNone, 8, 0);
    static const uint8_t data[8] = { 1, 2, 3, 4, 5, 6, 7, 8 };
    if (kind == "embed_label_delta") { (void)e.bind(l1); (void)e.bind(l2); }
    arm_oneshot_state(e, true);
    Error err = Error::kInvalidState;
    if (kind == "bind") err = e.bind(l1);
    else if (kind == "align") err = e.align(AlignMode::kCode, 16);
    else if (kind == "embed") err = e.embed(data, 8);
    else if (kind == "embed_data_array") err = e.embed_data_array(TypeId::kUInt8, data, 8, 1);
    else if (kind == "embed_label") err = e.embed_label(l1, 0);
    else if (kind == "embed_label_delta") err = e.embed_label_delta(l1, l2, 4);
    else if (kind == "embed_const_pool") err = e.embed_const_pool(l1, pool);
    else if (kind == "section") err = sec ? e.section(sec) : Error::kInvalidState;
    if (err == Error::kOk) cleared = 7u & ~read_and_clear_oneshot(e);
  }
  cache[key] = cleared;
  g_distinct.insert("lbl:oneshot-reference:" + key + ":successful-call-clears=" + std::to_string(cleared));
  return cleared;
}
static const char* const kOneShotNames[3] = { "inline-comment", "inst-options", "extra-reg" };

template<typename E>
struct Scenario {
  typedef EK<E> K;
  Environment env;
  CodeHolder code, other;
  E e;
  LHandler eh;
  Arena pool_arena;
  Rng rv, rb;
  bool with_bad, risky, is64;
  std::vector<Label> labels;
  std::vector<bool> bound;
  std::vector<Section*> sections, foreign_sections;
  std::string tainted;          // first violation of this scenario that invalidates the twin comparison
  bool stop = false;            // an accepted invalid call may have corrupted the emitter: do not touch it again
  bool last_valid_was_align = false;
  bool late = false;            // last third of the scenario: argument kinds whose (known) acceptance ends the scenario are drawn only here
  unsigned name_counter = 0;
  uint64_t vops = 0;
  unsigned bad_steps = 0;
  bool armed = false;           // the one-shot state was armed before the invalid call that is judged next
  Arch arch_;

  Scenario(Arch arch, uint64_t seed, bool with_bad_, bool do_throw, bool risky_)
    : env(arch), pool_arena(4096), rv(seed * 2 + 1), rb(seed * 2 + 0x5EEDull), with_bad(with_bad_), risky(risky_), is64(arch != Arch::kX86), arch_(arch) {
    code.init(env);
    eh.do_throw = do_throw;
    code.set_error_handler(&eh);
    code.attach(&e);
    sections.push_back(code.text_section());
    other.init(env);
    for (int i = 0; i < 6; i++) {
      Section* sec = nullptr; char nm[16]; snprintf(nm, sizeof nm, ".f%d", i);
      if (other.new_section(Out(sec), nm, SIZE_MAX, SectionFlags::kNone, 1, 0) == Error::kOk) foreign_sections.push_back(sec);
    }
  }

  std::string emname() const { return K::name(); }

  LSnap snap() {
    LSnap s;
    s.labels = code.label_count(); s.secs = code.section_count(); s.fix = code.unresolved_fixup_count(); s.rel = code.reloc_entries().size();
    uint64_t h = 1469598103934665603ull;
    for (Section* sec : code.sections()) { size_t n = sec->buffer().size(); h = fnv1a(&n, sizeof n, h); h = fnv1a(sec->buffer().data(), n, h); s.total += n; }
    s.bytes = h;
    if constexpr (K::kind == K_ASM) { s.off = e.offset(); s.cur_sec = e.current_section(); }
    else {
      uint64_t lh = 1469598103934665603ull; size_t n = 0; BaseNode* prev = nullptr;
      for (BaseNode* node = e.first_node(); node; node = node->next()) {
        if (node->prev() != prev || !node->is_active() || ++n > 1000000) { s.list_ok = false; break; }
        uint64_t rec[2] = { uint64_t(uintptr_t(node)), uint64_t(node->type()) };
        lh = fnv1a(rec, sizeof rec, lh); prev = node;
      }
      if (s.list_ok && e.last_node() != prev) s.list_ok = false;
      s.nodes = n; s.list = lh; s.cursor = e.cursor();
    }
    return s;
  }

  // ---------------------------------------------------------------- valid stream
  Label fresh_label() {
    Label l;
    if constexpr (K::kind != K_ASM) {
      if (rv.below(3) == 0) { LabelNode* n = nullptr; if (e.new_label_node(Out(n)) == Error::kOk && n) l = n->label(); }
      else l = e.new_label();
    }
    else l = e.new_label();
    if (l.is_valid()) { labels.push_back(l); bound.push_back(false); }
    return l;
  }
  size_t pick_unbound() {
    std::vector<size_t> u; for (size_t i = 0; i < labels.size(); i++) if (!bound[i]) u.push_back(i);
    if (u.empty()) { fresh_label(); return labels.size() - 1; }
    return u[rv.below(u.size())];
  }
  Label any_valid() { if (labels.empty()) fresh_label(); return labels[rv.below(labels.size())]; }
  void expect_ok(Error err, const char* what) {
    vops++;
    if (err != Error::kOk || eh.calls) {
      if (tainted.empty()) fail(emname() + ":valid-call-refused:" + what, emname() + ": valid " + what + " failed with " + std::to_string(unsigned(err)) + " (handler calls " + std::to_string(eh.calls) + ") in a scenario without earlier findings");
      stop = true;
    }
    eh.calls = 0;
  }
  void make_pool(ConstPool& pool, Rng& r) {
    static const size_t sizes[] = { 4, 8, 16, 32, 64 };
    size_t top = 1 + r.below(4);            // alignment 8 .. 64
    size_t n = 1 + r.below(3);
    for (size_t i = 0; i < n; i++) {
      uint8_t data[64]; for (auto& x : data) x = uint8_t(r.next());
      size_t off; (void)pool.add(data, sizes[i == 0 ? top : r.below(top + 1)], Out(off));
    }
  }
  void valid_inst(Rng& r, bool with_label) {
    Error err;
    if constexpr (K::a64) {
      if (with_label) {
        Label l = any_valid();
        switch (r.below(4)) { case 0: err = e.b(l); break; case 1: err = e.b_ne(l); break; case 2: err = e.cbz(a64::w1, l); break; default: err = e.adr(a64::x2, l); break; }
      }
      else err = r.below(2) ? e.add(a64::x0, a64::x1, a64::x2) : e.mov(a64::w3, 7);
    }
    else {
      x86::Gp z = is64 ? x86::rax : x86::eax;
      if (with_label) {
        Label l = any_valid();
        switch (r.below(3)) { case 0: err = e.jmp(l); break; case 1: err = e.jz(l); break; default: err = e.lea(z, x86::ptr(l)); break; }
      }
      else switch (r.below(3)) { case 0: err = e.add(x86::eax, x86::ecx); break; case 1: err = e.mov(x86::edx, 7); break; default: err = e.inc(x86::ebx); break; }
    }
    expect_ok(err, "instruction");
  }
  void valid_step() {
    eh.calls = 0;
    uint64_t k = rv.below(100);
    bool was_align = false;
    if (k < 13) { Label l = fresh_label(); expect_ok(l.is_valid() ? Error::kOk : Error::kOutOfMemory, "new_label"); }
    else if (k < 25) { size_t i = pick_unbound(); expect_ok(e.bind(labels[i]), "bind"); bound[i] = true; }
    else if (k < 37) {
      static const uint32_t al[] = { 1, 2, 4, 8, 16, 32, 64 };
      AlignMode m = AlignMode(rv.below(3));
      expect_ok(e.align(m, al[rv.below(7)]), "align"); was_align = true;
    }
    else if (k < 50) {
      uint8_t data[16]; for (auto& x : data) x = uint8_t(rv.next());
      size_t n = K::a64 ? 4 * (1 + rv.below(3)) : 1 + rv.below(9);     // AArch64: keep instruction alignment
      expect_ok(e.embed(data, n), "embed");
    }
    else if (k < 58) valid_inst(rv, false);
    else if (k < 66) valid_inst(rv, true);
    else if (k < 72) expect_ok(e.embed_label(any_valid(), rv.below(2) ? 0 : (is64 ? 8 : 4)), "embed_label");
    else if (k < 78) { Label l1 = any_valid(), l2 = any_valid(); expect_ok(e.embed_label_delta(l1, l2, rv.below(2) ? 4 : 0), "embed_label_delta"); }
    else if (k < 86) {
      ConstPool pool(pool_arena); make_pool(pool, rv);
      size_t i = pick_unbound();
      expect_ok(e.embed_const_pool(labels[i], pool), "embed_const_pool"); bound[i] = true;
    }
    else if (k < 91) {
      if (sections.size() < 3) {
        Section* sec = nullptr; char nm[16]; snprintf(nm, sizeof nm, ".s%zu", sections.size());
        static const uint32_t al[] = { 1, 8, 16, 64 };
        Error err = code.new_section(Out(sec), nm, SIZE_MAX, SectionFlags::kNone, al[rv.below(4)], 0);
        eh.calls = 0;
        if (err == Error::kOk) sections.push_back(sec);
      }
      expect_ok(e.section(sections[rv.below(sections.size())]), "section");
    }
    else if (k < 95) {
      if constexpr (K::kind != K_ASM) {
        BaseNode* c = e.cursor();
        if (c && c->prev() && !c->is_section()) { e.set_cursor(c->prev()); vops++; }
        else valid_inst(rv, false);
      }
      else valid_inst(rv, false);
    }
    else valid_inst(rv, false);
    last_valid_was_align = was_align;
  }

  // ---------------------------------------------------------------- invalid stream
  bool offset_unaligned(size_t alignment) {
    if constexpr (K::kind == K_ASM) return (e.offset() & (alignment - 1)) != 0;
    else { BaseNode* c = e.cursor(); return c && !c->is_align() && !c->is_section(); }   // offsets exist only after serialization: count "does not follow an align/section node"
  }
  Label bad_label(int kind) {
    switch (kind) {
      case B_INVALID: return Label();
      case B_COUNT: return Label(uint32_t(code.label_count()));
      case B_COUNT1: return Label(uint32_t(code.label_count() + 1));
      case B_COUNT1000: return Label(uint32_t(code.label_count() + 1000));
      case B_FFFFFFFE: return Label(0xFFFFFFFEu);
      case B_FOREIGN: {
        uint32_t id = 0;
        do { if (other.new_label_id(Out(id)) != Error::kOk) return Label(uint32_t(code.label_count() + 3)); } while (size_t(id) < code.label_count() + 1 + rb.below(4));
        return Label(id);
      }
      default: {
        std::vector<size_t> b; for (size_t i = 0; i < labels.size(); i++) if (bound[i]) b.push_back(i);
        return labels[b[rb.below(b.size())]];
      }
    }
  }
  bool have_bound() { for (size_t i = 0; i < labels.size(); i++) if (bound[i]) return true; return false; }

  void violation(const std::string& entry, const char* outcome, const std::string& badname, const std::string& what, bool taints) {
    std::string key = emname() + ":" + entry + ":" + outcome + ":" + badname;
    fail(key, what);
    if (taints && tainted.empty()) tainted = key;
  }

  // cr: result of the invalid call; deferred_ok: the entry point records a node (Builder/Compiler); needs_handler: false for raw CodeHolder calls
  void judge(const std::string& entry, const std::string& badname, const std::string& arg, CallResult cr, const LSnap& b, bool deferred_ok, bool needs_handler, bool out_not_null = false) {
    g_calls++;
    g_by_api["lbl." + entry]++; g_by_api["lbl.kind." + badname]++; g_by_api[std::string("lbl.on.") + K::name()]++;
    if (eh.do_throw) g_by_api["lbl.with-throwing-handler"]++;
    uint32_t left = 0; bool was_armed = armed;
    if (armed) { left = read_and_clear_oneshot(e); armed = false; }
    LSnap a = snap();
    std::string what = emname() + (is64 || K::a64 ? "" : " (32-bit)") + ": " + entry + "(" + arg + ") with " + std::to_string(b.labels) + " labels, " + std::to_string(b.secs) + " sections defined";
    if (eh.do_throw) what += " [throwing handler]";
    bool accepted = cr.err == Error::kOk && !cr.threw;
    if (accepted && deferred_ok) {
      if constexpr (K::kind != K_ASM) {
        if (a.list_ok && a.nodes == b.nodes + 1 && eh.calls == 0 && a.labels == b.labels && a.secs == b.secs) {
          // recorded: the label id is checked when the node is serialized. Take the node out again so that the twin comparison stays meaningful.
          g_by_api["lbl.outcome.deferred"]++; g_distinct.insert("lbl:" + emname() + ":" + entry + ":" + badname + ":deferred");
          e.remove_node(e.cursor());
          LSnap c = snap();
          if (c.nodes != b.nodes || c.cursor != b.cursor || c.list != b.list) { tainted = "harness:remove_node"; }
          eh.calls = 0;
          return;
        }
      }
    }
    if (accepted) {
      g_by_api["lbl.outcome.accepted"]++; g_distinct.insert("lbl:" + emname() + ":" + entry + ":" + badname + ":accepted");
      violation(entry, "accepted", badname, what + " returned kOk - must be refused" + (eh.calls ? " (handler called " + std::to_string(eh.calls) + " times)" : ""), true);
      stop = true; eh.calls = 0;
      return;
    }
    g_by_api["lbl.outcome.refused"]++; g_distinct.insert("lbl:" + emname() + ":" + entry + ":" + badname + ":err" + std::to_string(unsigned(cr.err)));
    what += cr.threw ? " threw error " : " returned error "; what += std::to_string(unsigned(cr.err));
    if (needs_handler) {
      if (eh.calls == 0) violation(entry, "handler-not-called", badname, what + " but the attached ErrorHandler was not called", false);
      else if (eh.calls != 1) violation(entry, "handler-called-more-than-once", badname, what + " and called the ErrorHandler " + std::to_string(eh.calls) + " times", false);
      else if (eh.last != cr.err) violation(entry, "handler-got-another-error", badname, what + " but the ErrorHandler received " + std::to_string(unsigned(eh.last)), false);
      if (eh.do_throw && eh.calls && !cr.threw) violation(entry, "exception-swallowed", badname, what + ": the handler threw but the call returned normally", false);
    }
    if (was_armed) {
      std::string kind = oneshot_kind_of(entry);
      if (!kind.empty()) {
        uint32_t ref = oneshot_reference<E>(arch_, kind);
        g_by_api["lbl.oneshot.armed-failing-calls"]++; g_by_api["lbl.oneshot.armed." + kind]++;
        if (ref != 0x100) {
          for (uint32_t c = 0; c < 3; c++) {
            if (!(ref & (1u << c))) continue;                 // a successful call of this kind leaves it alone as well
            g_by_api["lbl.oneshot.components-judged"]++;
            if (left & (1u << c)) violation(entry, (std::string("one-shot-") + kOneShotNames[c] + "-left").c_str(), badname, what + " but the one-shot " + kOneShotNames[c] + " armed before the call is still set (a successful " + kind + " clears it)", false);
          }
        }
      }
    }
    if (out_not_null) violation(entry, "output-set-on-failure", badname, what + " but stored a non-null result", false);
    if (a.bytes != b.bytes || a.total != b.total || a.off != b.off) violation(entry, "residue-bytes", badname, what + " but code bytes changed: section bytes " + std::to_string(b.total) + " -> " + std::to_string(a.total) + ", offset " + std::to_string(b.off) + " -> " + std::to_string(a.off), true);
    if (a.cur_sec != b.cur_sec) violation(entry, "residue-current-section", badname, what + " but the current section changed", true);
    if (!a.list_ok) { violation(entry, "residue-node-list-corrupt", badname, what + " and left a malformed node list", true); stop = true; }
    else if (a.nodes != b.nodes || a.list != b.list) violation(entry, "residue-nodes", badname, what + " but the node list changed: " + std::to_string(b.nodes) + " -> " + std::to_string(a.nodes) + " nodes", true);
    if (a.cursor != b.cursor) violation(entry, "residue-cursor", badname, what + " but cursor() moved", true);
    if (a.labels != b.labels) violation(entry, "residue-labels", badname, what + " but label_count() changed " + std::to_string(b.labels) + " -> " + std::to_string(a.labels), true);
    if (a.secs != b.secs) violation(entry, "residue-sections", badname, what + " but section_count() changed", true);
    if (a.fix != b.fix) violation(entry, "residue-fixups", badname, what + " but the unresolved fixup count changed " + std::to_string(b.fix) + " -> " + std::to_string(a.fix), true);
    if (a.rel != b.rel) violation(entry, "residue-relocations", badname, what + " but the relocation count changed " + std::to_string(b.rel) + " -> " + std::to_string(a.rel), true);
    eh.calls = 0;
  }

  int pick_bad_kind(bool bound_allowed) {
    for (;;) {
      int k = int(rb.below(7));
      if (k == B_BOUND && !(bound_allowed && risky && late && have_bound())) continue;
      return k;
    }
  }

  CallResult bad_inst(int variant, const Label& l, std::string& entry) {
    if constexpr (K::a64) {
      switch (variant) {
        case 0: entry = "inst.b"; return guarded([&] { return e.b(l); });
        case 1: entry = "inst.b_cond"; return guarded([&] { return e.b_ne(l); });
        case 2: entry = "inst.cbz"; return guarded([&] { return e.cbz(a64::w1, l); });
        case 3: entry = "inst.tbz"; return guarded([&] { return e.tbz(a64::w1, 3, l); });
        case 4: entry = "inst.adr"; return guarded([&] { return e.adr(a64::x2, l); });
        default: entry = "inst.ldr_literal"; return guarded([&] { return e.ldr(a64::x2, a64::ptr(l)); });
      }
    }
    else {
      x86::Gp z = is64 ? x86::rax : x86::eax;
      switch (variant) {
        case 0: entry = "inst.jmp"; return guarded([&] { return e.jmp(l); });
        case 1: entry = "inst.jcc"; return guarded([&] { return e.jz(l); });
        case 2: entry = "inst.lea_label_mem"; return guarded([&] { return e.lea(z, x86::ptr(l)); });
        case 3: entry = "inst.mov_label_mem"; return guarded([&] { return e.mov(x86::eax, x86::dword_ptr(l, 4)); });
        case 4: entry = "inst.mov_label_index_mem"; return guarded([&] { return e.mov(x86::eax, x86::dword_ptr(l, z, 2, 8)); });
        default: entry = "inst.jecxz"; return guarded([&] { return e.jecxz(x86::ecx, l); });
      }
    }
  }

  void bad_step() {
    bad_step_inner();
    if (armed) { (void)read_and_clear_oneshot(e); armed = false; }      // (no call was made this time)
  }

  void bad_step_inner() {
    eh.calls = 0;
    LSnap b = snap();
    char arg[160];
    // picks 0..10: a label / section that does not exist here; 11, 12: Builder-only lookups; 13..17: VALID labels with an invalid
    // alignment / size / type / repeat argument (the same refusal rules, on every emitter kind)
    uint64_t pick = rb.below(18);
    if (K::kind == K_ASM && (pick == 11 || pick == 12)) pick = 13 + rb.below(5);
    // every second invalid call finds the one-shot instruction state armed (instructions: the comment only, their options mean something)
    if ((++bad_steps & 1) == 0) { arm_oneshot_state(e, !(pick == 7 || pick == 8)); armed = true; }
    if (last_valid_was_align && rb.below(2) == 0) pick = 0;        // align + bind(invalid)
    if (pick == 0) {
      int kind = pick_bad_kind(true); Label l = bad_label(kind);
      if (last_valid_was_align) g_by_api["lbl.bind.directly-after-align"]++;
      snprintf(arg, sizeof arg, "Label id %u%s", l.id(), last_valid_was_align ? ", directly after a valid align()" : "");
      judge("bind", bad_names[kind], arg, guarded([&] { return e.bind(l); }), b, false, true);
    }
    else if (pick == 1) {
      int kind = pick_bad_kind(false); Label l = bad_label(kind);
      size_t sz = rb.below(2) ? 0 : (is64 ? 8 : 4);
      snprintf(arg, sizeof arg, "Label id %u, size %zu", l.id(), sz);
      judge("embed_label", bad_names[kind], arg, guarded([&] { return e.embed_label(l, sz); }), b, K::kind != K_ASM, true);
    }
    else if (pick == 2 || pick == 3) {
      int kind = pick_bad_kind(false); Label l = bad_label(kind);
      Label good = labels.empty() ? bad_label(int(rb.below(5))) : labels[rb.below(labels.size())];
      bool first = pick == 2;
      snprintf(arg, sizeof arg, "label id %u, base id %u, size 4", first ? l.id() : good.id(), first ? good.id() : l.id());
      judge(first ? "embed_label_delta.label" : "embed_label_delta.base", bad_names[kind], arg,
            guarded([&] { return first ? e.embed_label_delta(l, good, 4) : e.embed_label_delta(good, l, 4); }), b, K::kind != K_ASM, true);
    }
    else if (pick == 4 || pick == 5) {
      int kind = pick_bad_kind(true); Label l = bad_label(kind);
      ConstPool pool(pool_arena); make_pool(pool, rb);
      if (offset_unaligned(pool.alignment())) { g_by_api[K::kind == K_ASM ? "lbl.embed_const_pool.asm-offset-not-aligned-to-pool" : "lbl.embed_const_pool.builder-cursor-not-behind-align"]++; }
      snprintf(arg, sizeof arg, "Label id %u, pool of %zu bytes aligned to %zu", l.id(), pool.size(), pool.alignment());
      judge("embed_const_pool", bad_names[kind], arg, guarded([&] { return e.embed_const_pool(l, pool); }), b, false, true);
    }
    else if (pick == 6) {
      int kind = pick_bad_kind(false); uint32_t parent = bad_label(kind).id();
      if (kind == B_INVALID) { kind = B_COUNT; parent = uint32_t(code.label_count()); }    // no parent at all is the documented way to say "none"
      char nm[32]; snprintf(nm, sizeof nm, "loc_%u", name_counter++);
      snprintf(arg, sizeof arg, "'%s', LabelType::kLocal, parent id %u", nm, parent);
      Label got;
      CallResult cr = guarded([&] { got = e.new_named_label(nm, SIZE_MAX, LabelType::kLocal, parent); return got.is_valid() ? Error::kOk : (eh.calls ? eh.last : Error::kInvalidLabel); });
      judge("new_named_label.parent", bad_names[kind], arg, cr, b, false, true);
    }
    else if (pick == 7 || pick == 8) {
      int kind = pick_bad_kind(false); Label l = bad_label(kind);
      std::string entry; CallResult cr = bad_inst(int(rb.below(6)), l, entry);
      snprintf(arg, sizeof arg, "Label id %u", l.id());
      judge(entry, bad_names[kind], arg, cr, b, K::kind != K_ASM, true);
    }
    else if (pick == 9) {
      bool same_id = risky && late && rb.below(3) == 0;
      Section* sec = nullptr;
      if (same_id) sec = rb.below(2) ? other.text_section() : (sections.size() > 1 ? other.section_by_id(uint32_t(1 + rb.below(sections.size() - 1))) : other.text_section());
      else { std::vector<Section*> c; for (Section* s : foreign_sections) if (s->section_id() >= code.section_count()) c.push_back(s); if (c.empty()) return; sec = c[rb.below(c.size())]; }
      snprintf(arg, sizeof arg, "Section #%u '%s' of another CodeHolder", sec->section_id(), sec->name());
      judge("section", same_id ? "foreign-holder-existing-id" : "foreign-holder-id-beyond-count", arg, guarded([&] { return e.section(sec); }), b, false, true);
    }
    else if (pick == 10) {
      int kind = pick_bad_kind(K::kind == K_ASM); Label l = bad_label(kind);
      uint32_t sid = rb.below(4) == 0 ? uint32_t(code.section_count() + rb.below(3)) : 0;
      if (kind == B_BOUND && sid != 0) sid = 0;
      snprintf(arg, sizeof arg, "Label id %u, section id %u, offset 0", l.id(), sid);
      judge("code.bind_label", bad_names[kind], arg, guarded([&] { return code.bind_label(l, sid, 0); }), b, false, false);
    }
    else if (pick == 11) {
      if constexpr (K::kind != K_ASM) {
        int kind = pick_bad_kind(false); Label l = bad_label(kind);
        LabelNode* n = nullptr;
        bool by_id = rb.below(2) == 0;
        snprintf(arg, sizeof arg, "%s %u", by_id ? "label id" : "Label id", l.id());
        CallResult cr = guarded([&] { return by_id ? e.label_node_of(Out(n), l.id()) : e.label_node_of(Out(n), l); });
        if (e.has_registered_label_node(l)) violation("has_registered_label_node", "true-for-unknown-label", bad_names[kind], emname() + ": has_registered_label_node(" + arg + ") is true", false);
        judge("label_node_of", bad_names[kind], arg, cr, b, false, true, n != nullptr);
      }
    }
    else if (pick == 13) {
      // align: undefined mode, or an alignment that is not a power of two / above Globals::kMaxAlignment. The Assembler refuses at
      // once; Builder/Compiler record an AlignNode (deferred: the serializing Assembler refuses in finalize, see run_deferred)
      static const uint32_t bad_al[] = { 3, 5, 24, 100, 128, 65536, 0x80000000u, 0xFFFFFFFFu };
      static const uint32_t good_al[] = { 1, 2, 4, 8, 16, 32, 64 };
      bool bad_mode = rb.below(2) == 0;
      uint32_t mode = bad_mode ? uint32_t(3 + rb.below(3)) + (rb.below(4) == 0 ? 250u : 0u) : uint32_t(rb.below(3));
      uint32_t al = bad_mode ? good_al[rb.below(7)] : bad_al[rb.below(8)];
      snprintf(arg, sizeof arg, "AlignMode(%u), alignment %u", mode, al);
      judge("align", bad_mode ? "undefined-mode" : "bad-alignment", arg, guarded([&] { return e.align(AlignMode(mode), al); }), b, K::kind != K_ASM, true);
    }
    else if (pick == 14) {
      if (labels.empty()) return;
      Label l = labels[rb.below(labels.size())];
      static const size_t szs[] = { 3, 5, 6, 7, 16, 100, size_t(1) << 32, SIZE_MAX };
      size_t sz = szs[rb.below(8)];
      snprintf(arg, sizeof arg, "valid Label id %u, size %zu", l.id(), sz);
      judge("embed_label", "bad-size", arg, guarded([&] { return e.embed_label(l, sz); }), b, false, true);
    }
    else if (pick == 15) {
      if (labels.empty()) return;
      Label l1 = labels[rb.below(labels.size())], l2 = labels[rb.below(labels.size())];
      static const size_t szs[] = { 3, 5, 7, 16, 100, size_t(1) << 32, SIZE_MAX };
      size_t sz = szs[rb.below(7)];
      snprintf(arg, sizeof arg, "valid Label ids %u, %u, size %zu", l1.id(), l2.id(), sz);
      judge("embed_label_delta", "bad-size", arg, guarded([&] { return e.embed_label_delta(l1, l2, sz); }), b, false, true);
    }
    else if (pick == 16) {
      // a TypeId that names no data type: refused at once by every emitter (the node would need its size)
      static const uint32_t tys[] = { 0, 1, 31, 200, 254, 255 };
      uint32_t t = tys[rb.below(6)];
      uint64_t data[4]; for (auto& x : data) x = rb.next();
      size_t count = 1 + rb.below(4), rep = 1 + rb.below(3);
      snprintf(arg, sizeof arg, "TypeId(%u), %zu items, repeat %zu", t, count, rep);
      judge("embed_data_array", "undefined-type", arg, guarded([&] { return e.embed_data_array(TypeId(t), data, count, rep); }), b, false, true);
    }
    else if (pick == 17) {
      // a repeat count whose product with the data size overflows / cannot be allocated: the Assembler refuses at once, Builder/Compiler
      // record the node (deferred)
      static const size_t reps[] = { SIZE_MAX, SIZE_MAX / 2, size_t(1) << 48, (size_t(1) << 63) + 1 };
      static const TypeId tys[] = { TypeId::kInt8, TypeId::kUInt16, TypeId::kUInt64, TypeId::kInt32x4 };
      size_t rep = reps[rb.below(4)]; TypeId t = tys[rb.below(4)];
      uint64_t data[8]; for (auto& x : data) x = rb.next();
      size_t count = 1 + rb.below(4);
      snprintf(arg, sizeof arg, "TypeId(%u), %zu items, repeat %zu", unsigned(t), count, rep);
      judge("embed_data_array", "repeat-overflow", arg, guarded([&] { return e.embed_data_array(t, data, count, rep); }), b, K::kind != K_ASM, true);
    }
    else {
      if constexpr (K::kind != K_ASM) {
        static const char* const kn[] = { "count", "count+1000", "invalid-id" };
        int kind = int(rb.below(3));
        uint32_t sid = kind == 0 ? uint32_t(code.section_count()) : kind == 1 ? uint32_t(code.section_count() + 1000) : Globals::kInvalidId;
        SectionNode* n = nullptr;
        snprintf(arg, sizeof arg, "section id %u", sid);
        CallResult cr = guarded([&] { return e.section_node_of(Out(n), sid); });
        judge("section_node_of", kn[kind], arg, cr, b, false, true, n != nullptr);
      }
    }
  }

  // ---------------------------------------------------------------- end of scenario
  Error finish(std::string& sig) {
    // bind what is still unbound (valid in both twins), then finalize and describe everything the CodeHolder holds
    eh.calls = 0;
    for (size_t i = 0; i < labels.size() && !stop; i++) if (!bound[i]) { expect_ok(e.bind(labels[i]), "bind"); bound[i] = true; }
    Error fe = Error::kOk;
    if constexpr (K::kind != K_ASM) {
      if (!stop) { CallResult cr = guarded([&] { return e.finalize(); }); fe = cr.err; }
    }
    eh.calls = 0;
    sig = "finalize=" + std::to_string(unsigned(fe)) + " labels=" + std::to_string(code.label_count()) + " fixups=" + std::to_string(code.unresolved_fixup_count()) + " relocs=" + std::to_string(code.reloc_entries().size());
    for (Section* sec : code.sections()) sig += std::string(" ") + sec->name() + "=" + hexstr(sec->buffer().data(), sec->buffer().size());
    sig += " L:";
    for (uint32_t i = 0; i < code.label_count(); i++) {
      const LabelEntry& le = code.label_entry_of(i);
      sig += le.is_bound() ? std::to_string(le.section_id()) + "+" + std::to_string(le.offset()) + "," : std::string("u,");
    }
    return fe;
  }
};

template<typename E>
static void run_scenario(Arch arch, uint64_t seed, size_t max_steps, unsigned index) {
  size_t steps = max_steps / 4 + Rng(seed ^ 0xABCDEFull).below(max_steps - max_steps / 4 + 1);
  bool do_throw = (index & 1) != 0, risky = (index % 3) == 0;
  std::string with_sig, twin_sig, taint;
  bool stopped;
  g_scenarios++;
  {
    Scenario<E> s(arch, seed, true, do_throw, risky);
    for (size_t i = 0; i < steps && !s.stop; i++) {
      s.late = i * 3 >= steps * 2;
      s.valid_step();
      if (!s.stop && s.rb.below(5) < 2) s.bad_step();
    }
    stopped = s.stop; taint = s.tainted;
    if (!stopped && taint.empty()) s.finish(with_sig);
    g_by_api["lbl.valid-calls-in-between"] += s.vops;
  }
  if (stopped || !taint.empty()) { g_twin_skipped++; return; }
  {
    Scenario<E> t(arch, seed, false, false, risky);
    for (size_t i = 0; i < steps && !t.stop; i++) t.valid_step();
    if (t.stop) { g_twin_finalize_failed++; return; }
    Error fe = t.finish(twin_sig);
    if (fe != Error::kOk) g_twin_finalize_failed++;
  }
  g_twin_compared++;
  if (with_sig != twin_sig) {
    size_t p = 0; while (p < with_sig.size() && p < twin_sig.size() && with_sig[p] == twin_sig[p]) p++;
    size_t from = p > 60 ? p - 60 : 0;
    fail(std::string(EK<E>::name()) + ":final:differs-from-twin", std::string(EK<E>::name()) + ": every invalid call was refused without visible residue, yet the finalized CodeHolder differs from a twin emitter that got only the valid calls; first difference at " + std::to_string(p) + ": ..." + with_sig.substr(from, 160) + " vs ..." + twin_sig.substr(from, 160));
  }
}

// ---------------------------------------------------------------- deferred errors: Builder / Compiler nodes holding a bad label id
template<typename E>
static void run_deferred(Arch arch, uint64_t seed, unsigned index) {
  typedef EK<E> K;
  if constexpr (K::kind != K_ASM) {
    Rng r(seed * 77 + index);
    Environment env(arch);
    CodeHolder code; LHandler eh;
    code.init(env); code.set_error_handler(&eh);
    E e; code.attach(&e);
    bool is64 = arch != Arch::kX86;
    eh.do_throw = (index & 1) != 0;
    bool in_func = K::kind == K_COMPILER;
    std::string name = K::name();
    auto emit_some = [&]() {
      if constexpr (K::kind == K_COMPILER) {
        if constexpr (K::a64) { a64::Gp v = e.new_gp32(); e.mov(v, 1); e.add(v, v, v); }
        else { x86::Gp v = e.new_gp32(); e.mov(v, 1); e.add(v, v); }
      }
      else {
        if constexpr (K::a64) { e.mov(a64::w3, 7); e.add(a64::x0, a64::x1, a64::x2); }
        else { e.mov(x86::edx, 7); e.add(x86::eax, x86::ecx); }
      }
    };
    if constexpr (K::kind == K_COMPILER) { if (in_func) e.add_func(FuncSignature::build<void>()); }
    Label good = e.new_label();
    emit_some();
    (void)e.bind(good);
    emit_some();
    eh.calls = 0;
    static const uint32_t deltas[] = { 0, 1, 1000 };
    int kind = int(r.below(5));
    uint32_t id = kind == 0 ? Globals::kInvalidId : kind == 4 ? 0xFFFFFFFEu : uint32_t(code.label_count() + deltas[kind - 1]);
    Label l(id);
    const char* badname = bad_names[kind == 4 ? int(B_FFFFFFFE) : kind];
    std::string entry;
    CallResult cr{Error::kOk, false};
    uint64_t variant = r.below(K::kind == K_COMPILER ? 9 : 7);
    if (variant >= 5) variant = variant >= 7 ? variant - 2 : variant + 2;       // 5, 6: Compiler only; 7, 8: argument errors every Builder records
    switch (variant) {
      case 7: {
        bool bad_mode = r.below(2) == 0;
        uint32_t mode = bad_mode ? uint32_t(3 + r.below(3)) : uint32_t(r.below(3)), al = bad_mode ? 16u : (r.below(2) ? 24u : 128u);
        entry = "align"; badname = bad_mode ? "undefined-mode" : "bad-alignment"; id = al;
        cr = guarded([&] { return e.align(AlignMode(mode), al); });
        break;
      }
      case 8: {
        static const uint64_t data[2] = { 1, 2 };
        size_t rep = r.below(2) ? SIZE_MAX / 2 : SIZE_MAX;
        entry = "embed_data_array"; badname = "repeat-overflow"; id = 0;
        cr = guarded([&] { return e.embed_data_array(TypeId::kUInt64, data, 2, rep); });
        break;
      }
      case 0: entry = "embed_label"; cr = guarded([&] { return e.embed_label(l, 0); }); break;
      case 1: entry = "embed_label_delta.label"; cr = guarded([&] { return e.embed_label_delta(l, good, 4); }); break;
      case 2: entry = "embed_label_delta.base"; cr = guarded([&] { return e.embed_label_delta(good, l, 4); }); break;
      case 3:
        if constexpr (K::a64) { entry = "inst.b"; cr = guarded([&] { return e.b(l); }); }
        else { entry = "inst.jmp"; cr = guarded([&] { return e.jmp(l); }); }
        break;
      case 4:
        if constexpr (K::a64) { entry = "inst.adr"; cr = guarded([&] { return e.adr(a64::x2, l); }); }
        else { entry = "inst.lea_label_mem"; cr = guarded([&] { return e.lea(is64 ? x86::rax : x86::eax, x86::ptr(l)); }); }
        break;
      case 5:
        if constexpr (K::kind == K_COMPILER) {
          entry = "jump_annotation.add_label";
          JumpAnnotation* ann = e.new_jump_annotation();
          if (ann) {
            (void)ann->add_label(good);
            Error ae = ann->add_label(l);
            if (ae != Error::kOk) cr = CallResult{ae, false};
            else {
              if constexpr (K::a64) { a64::Gp t = e.new_gp64(); e.adr(t, good); cr = guarded([&] { return e.br(t, ann); }); }
              else { x86::Gp t = e.new_gp_ptr(); e.lea(t, x86::ptr(good)); cr = guarded([&] { return e.jmp(t, ann); }); }
            }
          }
        }
        break;
      default:
        if constexpr (K::kind == K_COMPILER) {
          entry = "invoke";
          InvokeNode* node = nullptr;
          cr = guarded([&] { return e.invoke(Out(node), l, FuncSignature::build<void>()); });
        }
        break;
    }
    g_calls++; g_by_api["lbl.deferred." + entry]++;
    std::string what = name + ": " + entry + (entry == "align" ? " with an invalid mode / alignment " : entry == "embed_data_array" ? " with an overflowing repeat count, argument " : " with Label id ") +
                       std::to_string(id) + " (" + std::to_string(code.label_count()) + " labels defined)" + (eh.do_throw ? " [throwing handler]" : "");
    if (cr.err != Error::kOk) {
      // refused at once: the same rules as everywhere
      if (eh.calls != 1 && entry != "jump_annotation.add_label") fail(name + ":" + entry + ":handler-not-called:" + badname, what + " was refused with " + std::to_string(unsigned(cr.err)) + " and the handler was called " + std::to_string(eh.calls) + " times");
      g_by_api["lbl.deferred.refused-at-once"]++;
      return;
    }
    int calls_at_call = eh.calls;
    emit_some();
    if constexpr (K::kind == K_COMPILER) { if (in_func) e.end_func(); }
    eh.calls = 0;
    CallResult fin = guarded([&] { return e.finalize(); });
    g_by_api["lbl.deferred.finalize-runs"]++;
    g_distinct.insert("lbl:" + name + ":" + entry + ":" + badname + ":finalize-err" + std::to_string(unsigned(fin.err)));
    if (calls_at_call) fail(name + ":" + entry + ":handler-on-success:" + badname, what + " returned kOk but called the handler");
    if (fin.err == Error::kOk) fail(name + ":" + entry + ":never-refused:" + badname, what + " was accepted and finalize() succeeded as well: the invalid label is never reported");
    else {
      if (eh.calls == 0) fail(name + ":" + entry + ":finalize-handler-not-called:" + badname, what + ": finalize() failed with " + std::to_string(unsigned(fin.err)) + " but the handler was not called");
      else if (eh.calls != 1) fail(name + ":" + entry + ":finalize-handler-called-more-than-once:" + badname, what + ": finalize() failed with " + std::to_string(unsigned(fin.err)) + " and called the handler " + std::to_string(eh.calls) + " times");
      if (eh.do_throw && eh.calls && !fin.threw) fail(name + ":" + entry + ":finalize-exception-swallowed:" + badname, what + ": the handler threw during finalize() but finalize() returned normally");
    }
  }
}

template<typename A, typename B, typename C>
static void run_all(Arch arch, uint64_t seed, size_t scenarios, size_t steps) {
  for (size_t i = 0; i < scenarios; i++) {
    uint64_t s = seed * 1000003ull + i;
    switch (i % 3) {
      case 0: run_scenario<A>(arch, s, steps, unsigned(i / 3)); break;
      case 1: run_scenario<B>(arch, s, steps, unsigned(i / 3)); break;
      default: run_scenario<C>(arch, s, steps, unsigned(i / 3)); break;
    }
    if (i % 4 == 0) { run_deferred<B>(arch, s, unsigned(i / 4)); run_deferred<C>(arch, s, unsigned(i / 4)); }
  }
  g_by_api["lbl.scenarios"] = g_scenarios;
  g_by_api["lbl.twins-compared"] = g_twin_compared;
  g_by_api["lbl.twins-skipped-after-finding"] = g_twin_skipped;
  g_by_api["lbl.twin-finalize-failed"] = g_twin_finalize_failed;
}

} // namespace lbl

// ======================================================================================================
// Error-handler ROUTING over attachment histories (every emitter kind of the architecture).
//
// "reports an error through its return value and the attached error handler" quantifies over where the handler
// is attached and over what happened to the emitter before the failing call. One scenario = one emitter object
// that lives through a random history of
//   CodeHolder::attach / detach / reset+init / reinit / destruction of the holder (two holders),
//   set_error_handler / reset_error_handler on either holder and on the emitter itself (two handlers to swap),
//   set_logger / reset on either holder and on the emitter (state only: the logger block sits next to the
//   handler block in on_attach/on_detach/on_settings_updated),
// with failing calls in between: an invalid instruction (x86 strict validation; a64 register id 40), an invalid
// label / size / type / alignment argument, or - while detached - any call (kNotInitialized).
// Model: the receiver is the emitter's own handler if one is set, else the handler of the holder it is attached
// to, else nobody. Oracles per failing call: refused; the receiver is called exactly once with the returned code,
// no other handler is called (a handler of a holder the emitter has left is a stale pointer); a throwing receiver's
// exception arrives; error_handler() / has_own_error_handler() agree with the model (also checked after every event).
//
// key = route:<emitter>:<problem>:<own|inherited|none>-<never-attached|first-attachment|detached|reattached>
// ======================================================================================================
namespace route {
using lbl::EK; using lbl::K_ASM; using lbl::K_BUILDER; using lbl::K_COMPILER;

struct RThrow { Error err; };
struct RH : public ErrorHandler {
  int calls = 0; Error last = Error::kOk; bool do_throw = false; const char* tag = "";
  void handle_error(Error e, const char*, BaseEmitter*) override { calls++; last = e; if (do_throw) throw RThrow{e}; }
};
struct CallResult { Error err; bool threw; };
template<typename F> static CallResult guarded(F&& f) {
  try { return CallResult{ f(), false }; } catch (RThrow& t) { return CallResult{ t.err, true }; }
}

static uint64_t g_probes = 0, g_events = 0, g_scen = 0;
static bool g_danger = false;

template<typename E>
struct Scenario {
  typedef EK<E> K;
  Environment env;
  bool is64;
  RH hh[2], own[2];
  StringLogger hlog[2], olog;
  std::unique_ptr<CodeHolder> holder[2];
  E e;                                      // declared last: destroyed first (detaches itself)
  Rng r;
  // model
  int attached = -1;
  RH* m_own = nullptr;
  RH* m_holder[2] = { nullptr, nullptr };
  unsigned attach_count = 0;
  const char* how_detached = "";
  Label good;
  bool dead = false;

  Scenario(Arch arch, uint64_t seed) : env(arch), is64(arch != Arch::kX86), r(seed) {
    static const char* const tags[] = { "handler of holder A", "handler of holder B", "emitter's own handler #1", "emitter's own handler #2" };
    RH* all[4] = { &hh[0], &hh[1], &own[0], &own[1] };
    for (int i = 0; i < 4; i++) { all[i]->tag = tags[i]; all[i]->do_throw = r.below(3) == 0; }
    for (int i = 0; i < 2; i++) { holder[i].reset(new CodeHolder()); holder[i]->init(env); }
  }

  std::string name() const { return std::string(K::name()) + (K::a64 || is64 ? "" : "/32"); }
  RH* receiver() const { return m_own ? m_own : attached >= 0 ? m_holder[attached] : nullptr; }
  std::string state() const {
    std::string s = m_own ? "own" : (attached >= 0 && m_holder[attached]) ? "inherited" : "none";
    s += attached < 0 ? (attach_count ? "-detached" : "-never-attached") : attach_count == 1 ? "-first-attachment" : "-reattached";
    return s;
  }
  void viol(const char* problem, const std::string& what) {
    fail("route:" + std::string(K::name()) + ":" + problem + ":" + state(), name() + " [" + state() + (attached < 0 && *how_detached ? std::string(", left its holder by ") + how_detached : std::string()) + "] " + what);
  }
  void clear_calls() { hh[0].calls = hh[1].calls = own[0].calls = own[1].calls = 0; }

  void check_getters(const char* after) {
    RH* want = receiver();
    if (e.error_handler() != static_cast<ErrorHandler*>(want))
      viol("error_handler-getter-differs", std::string("after ") + after + ": error_handler() is " + (e.error_handler() ? "another / stale handler" : "null") + ", the model says " + (want ? want->tag : "none"));
    if (e.has_own_error_handler() != (m_own != nullptr))
      viol("own-flag-differs", std::string("after ") + after + ": has_own_error_handler() is " + (e.has_own_error_handler() ? "true" : "false"));
  }

  void prepare() {
    // strict validation (idempotent), a function for the Compiler, one valid label
    if constexpr (!K::a64) e.add_diagnostic_options(K::kind == K_ASM ? DiagnosticOptions::kValidateAssembler : DiagnosticOptions::kValidateIntermediate);
    if constexpr (K::kind == K_COMPILER) e.add_func(FuncSignature::build<void>());
    good = e.new_label();
    clear_calls();
  }

  void event() {
    g_events++;
    uint64_t k = r.below(100);
    const char* what = "";
    if (attached < 0 && r.below(2)) k = 0;          // do not stay detached for long
    if (k < 22) {
      if (attached < 0) {
        int i = int(r.below(2));
        Error err = holder[i]->attach(&e);
        if (err != Error::kOk) { fail("route:" + std::string(K::name()) + ":harness:attach-failed", name() + ": attach failed with " + std::to_string(unsigned(err))); dead = true; return; }
        attached = i; attach_count++; prepare(); what = "attach"; g_by_api["route.event.attach"]++;
      }
      else { holder[attached]->detach(&e); attached = -1; how_detached = "CodeHolder::detach()"; what = "detach"; g_by_api["route.event.detach"]++; }
    }
    else if (k < 30) {
      int i = attached >= 0 && r.below(3) ? attached : int(r.below(2));
      holder[i]->reset(r.below(2) ? ResetPolicy::kSoft : ResetPolicy::kHard);      // detaches emitters, forgets the holder's handler and logger
      holder[i]->init(env);
      m_holder[i] = nullptr;
      if (attached == i) { attached = -1; how_detached = "CodeHolder::reset()"; }
      what = "holder reset"; g_by_api["route.event.holder-reset"]++;
    }
    else if (k < 36) {
      int i = attached >= 0 && r.below(3) ? attached : int(r.below(2));
      holder[i].reset(new CodeHolder()); holder[i]->init(env);
      m_holder[i] = nullptr;
      if (attached == i) { attached = -1; how_detached = "destruction of the CodeHolder"; }
      what = "holder destroyed"; g_by_api["route.event.holder-destroyed"]++;
    }
    else if (k < 42) {
      if (attached < 0) return;
      holder[attached]->reinit(); prepare();
      what = "holder reinit"; g_by_api["route.event.holder-reinit"]++;
    }
    else if (k < 58) {
      int i = int(r.below(2)); bool on = r.below(3) != 0;
      holder[i]->set_error_handler(on ? &hh[i] : nullptr); m_holder[i] = on ? &hh[i] : nullptr;
      what = on ? "CodeHolder::set_error_handler" : "CodeHolder::reset_error_handler"; g_by_api[on ? "route.event.holder-handler-set" : "route.event.holder-handler-reset"]++;
    }
    else if (k < 76) {
      bool on = r.below(3) != 0; int j = int(r.below(2));
      if (on) { e.set_error_handler(&own[j]); m_own = &own[j]; } else { e.reset_error_handler(); m_own = nullptr; }
      what = on ? "BaseEmitter::set_error_handler" : "BaseEmitter::reset_error_handler"; g_by_api[on ? "route.event.own-handler-set" : "route.event.own-handler-reset"]++;
    }
    else if (k < 88) {
      int i = int(r.below(2)); bool on = r.below(2) != 0;
      holder[i]->set_logger(on ? &hlog[i] : nullptr);
      what = "CodeHolder::set_logger"; g_by_api["route.event.holder-logger"]++;
    }
    else if (K::a64 || k < 94) {
      bool on = r.below(2) != 0;
      e.set_logger(on ? &olog : nullptr);
      what = "BaseEmitter::set_logger"; g_by_api["route.event.own-logger"]++;
    }
    else {
      // strict validation switched off and on again (x86): one more event that makes the emitter recompute its forced options
      DiagnosticOptions d = K::kind == K_ASM ? DiagnosticOptions::kValidateAssembler : DiagnosticOptions::kValidateIntermediate;
      e.clear_diagnostic_options(d);
      if (r.below(2)) e.set_logger(nullptr);
      e.add_diagnostic_options(d);
      what = "clear_diagnostic_options + add_diagnostic_options"; g_by_api["route.event.diagnostic-options-toggled"]++;
    }
    hlog[0].clear(); hlog[1].clear(); olog.clear();
    check_getters(what);
  }

  // one failing call; returns false when no such call exists for this emitter kind / state
  bool failing_call(int v, std::string& entry, CallResult& cr) {
    static const uint8_t bytes[8] = { 1, 2, 3, 4, 5, 6, 7, 8 };
    if (attached < 0) {
      // anything a detached emitter is asked to do is refused with kNotInitialized
      switch (v % 6) {
        case 0: entry = "detached.inst";
          if constexpr (K::a64) cr = guarded([&] { return e.emit(a64::Inst::kIdAdd, a64::x(0), a64::x(1), a64::x(2)); });
          else cr = guarded([&] { return e.emit(x86::Inst::kIdMov, x86::eax, x86::ebx); });
          return true;
        case 1: entry = "detached.bind"; cr = guarded([&] { return e.bind(Label(0)); }); return true;
        case 2: entry = "detached.align"; cr = guarded([&] { return e.align(AlignMode::kCode, 16); }); return true;
        case 3: entry = "detached.embed"; cr = guarded([&] { return e.embed(bytes, 8); }); return true;
        case 4: entry = "detached.embed_label"; cr = guarded([&] { return e.embed_label(Label(0), 4); }); return true;
        default:
          // (a crash here ends the process: the Assembler variant runs only in dedicated jobs, --route-danger 1)
          if (K::kind == K_ASM && !g_danger) { entry = "detached.embed"; cr = guarded([&] { return e.embed(bytes, 8); }); return true; }
          entry = "detached.embed_data_array"; cr = guarded([&] { return e.embed_data_array(TypeId::kUInt8, bytes, 8, 1); }); return true;
      }
    }
    if (v == 6) {
      // x86-32 Assembler: a request for a REX prefix (rex() or a REX.B/X/R/W option bit) on a valid instruction must be refused by the
      // Assembler itself - whatever settings events came before
      if constexpr (K::kind == K_ASM && !K::a64) {
        if (is64) return false;
        static const uint32_t req[] = { 0x40000000u, 0x01000000u, 0x02000000u, 0x04000000u, 0x08000000u };
        uint32_t o = req[r.below(5)];
        bool mem = r.below(2) != 0;
        entry = "inst.rex-in-32-bit-mode";
        cr = guarded([&] { e.set_inst_options(InstOptions(o)); return mem ? e.emit(x86::Inst::kIdMov, x86::eax, x86::dword_ptr(x86::ebx, 8)) : e.emit(x86::Inst::kIdMov, x86::eax, x86::ebx); });
        e.reset_inst_options();
        return true;
      }
      else return false;
    }
    switch (v % 6) {
      case 0:
        if constexpr (K::a64) {
          if constexpr (K::kind != K_ASM) return false;       // no validator: recorded, refused in finalize
          entry = "inst.register-id-40"; cr = guarded([&] { return e.emit(a64::Inst::kIdAdd, a64::x(0), a64::x(1), a64::Gp::make_r64(40)); }); return true;
        }
        else { entry = "inst.mov-eax-rbx"; cr = guarded([&] { return e.emit(x86::Inst::kIdMov, x86::eax, x86::rbx); }); return true; }
      case 1:
        entry = "bind.unknown-label"; cr = guarded([&] { return e.bind(Label(uint32_t(holder[attached]->label_count() + 5))); }); return true;
      case 2: entry = "embed_label.size-3"; cr = guarded([&] { return e.embed_label(good, 3); }); return true;
      case 3: entry = "embed_data_array.type-200"; cr = guarded([&] { return e.embed_data_array(TypeId(200), bytes, 1, 1); }); return true;
      case 4:
        if constexpr (K::kind != K_ASM) return false;         // recorded as a node
        entry = "align.alignment-24"; cr = guarded([&] { return e.align(AlignMode::kCode, 24); }); return true;
      default: entry = "embed_label_delta.size-7"; cr = guarded([&] { return e.embed_label_delta(good, good, 7); }); return true;
    }
  }

  void probe() {
    clear_calls();
    std::string entry; CallResult cr{Error::kOk, false};
    size_t off0 = 0, nodes0 = 0;
    if constexpr (K::kind == K_ASM) { if (attached >= 0) off0 = e.offset(); }
    else { for (BaseNode* n = e.first_node(); n; n = n->next()) nodes0++; }
    int variant = int(r.below(7));
    if (attached < 0 && variant == 6) variant = int(r.below(6));
    if (!failing_call(variant, entry, cr)) return;
    g_probes++; lbl::g_calls++;
    g_by_api["route.probe." + state()]++; g_by_api[std::string("route.on.") + K::name()]++; g_by_api["route.entry." + entry]++;
    g_distinct.insert("route:" + std::string(K::name()) + ":" + state() + ":" + entry + ":err" + std::to_string(unsigned(cr.err)));
    RH* want = receiver();
    std::string what = entry + (cr.threw ? " threw error " : " returned error ") + std::to_string(unsigned(cr.err));
    if (cr.err == Error::kOk && !cr.threw) { viol("invalid-call-accepted", entry + " returned kOk"); clear_calls(); return; }
    RH* all[4] = { &hh[0], &hh[1], &own[0], &own[1] };
    for (RH* h : all) {
      if (h == want) {
        if (h->calls == 0) viol("handler-not-called", what + " but " + h->tag + " (the one in charge) was not called");
        else if (h->calls != 1) viol("handler-called-more-than-once", what + " and called " + h->tag + " " + std::to_string(h->calls) + " times");
        else if (h->last != cr.err) viol("handler-got-another-error", what + " but " + h->tag + " received " + std::to_string(unsigned(h->last)));
        if (h->do_throw) { g_by_api["route.probe.throwing-receiver"]++; if (h->calls && !cr.threw) viol("exception-swallowed", what + ": " + h->tag + " threw but the call returned normally"); }
      }
      else if (h->calls) viol("wrong-handler-called", what + " and called " + h->tag + " - the model says " + (want ? want->tag : "no handler is attached"));
    }
    if (!want) g_by_api["route.probe.nobody-listens"]++;
    check_getters(("failing " + entry).c_str());
    if constexpr (K::kind == K_ASM) { if (attached >= 0 && e.offset() != off0) viol("residue-bytes", what + " but the offset moved"); }
    else { size_t n1 = 0; for (BaseNode* n = e.first_node(); n; n = n->next()) n1++; if (n1 != nodes0) viol("residue-nodes", what + " but the node count changed"); }
    clear_calls();
  }

  // Builder / Compiler, end of the scenario: a node whose error only shows in finalize() (embed_label of a label id that does not
  // exist is recorded; the serializing Assembler refuses it) - finalize() is a call of THIS emitter, the same routing applies
  void finalize_probe() {
    if constexpr (K::kind != K_ASM) {
      if (attached < 0) return;
      clear_calls();
      if constexpr (K::kind == K_COMPILER) e.end_func();
      Label ghost(uint32_t(holder[attached]->label_count() + 9));
      CallResult rec = guarded([&] { return e.embed_label(ghost, 4); });
      if (rec.err != Error::kOk) { clear_calls(); return; }          // refused at once: judged by the label-argument probes
      clear_calls();
      CallResult cr = guarded([&] { return e.finalize(); });
      g_probes++; lbl::g_calls++;
      g_by_api["route.finalize-probe." + state()]++;
      g_distinct.insert("route:" + std::string(K::name()) + ":" + state() + ":finalize:err" + std::to_string(unsigned(cr.err)));
      RH* want = receiver();
      std::string what = std::string("finalize() of an emitter holding embed_label(Label id that does not exist)") + (cr.threw ? " threw error " : " returned error ") + std::to_string(unsigned(cr.err));
      if (cr.err == Error::kOk && !cr.threw) { viol("finalize-never-refused", "finalize() returned kOk although a recorded embed_label names a label that does not exist"); clear_calls(); return; }
      RH* all[4] = { &hh[0], &hh[1], &own[0], &own[1] };
      for (RH* h : all) {
        if (h == want) {
          if (h->calls == 0) viol("finalize-handler-not-called", what + " but " + h->tag + " (the one in charge) was not called");
          else if (h->calls != 1) viol("finalize-handler-called-more-than-once", what + " and called " + h->tag + " " + std::to_string(h->calls) + " times");
          if (h->do_throw && h->calls && !cr.threw) viol("finalize-exception-swallowed", what + ": " + h->tag + " threw but finalize() returned normally");
        }
        else if (h->calls) viol("finalize-wrong-handler-called", what + " and called " + h->tag + " - the model says " + (want ? want->tag : "no handler is attached"));
      }
      check_getters("a failing finalize()");
      clear_calls();
    }
  }

  void valid_call() {
    if (attached < 0) return;
    clear_calls();
    Error err;
    if constexpr (K::a64) err = e.emit(a64::Inst::kIdAdd, a64::x(0), a64::x(1), a64::x(2));
    else err = e.emit(x86::Inst::kIdMov, x86::eax, x86::ebx);
    g_by_api["route.valid-calls"]++;
    if (err != Error::kOk || hh[0].calls || hh[1].calls || own[0].calls || own[1].calls) viol("valid-call-refused", "a valid instruction returned " + std::to_string(unsigned(err)) + " / called a handler");
    clear_calls();
  }
};

template<typename E>
static void run_scenario(Arch arch, uint64_t seed, size_t steps) {
  g_scen++;
  Scenario<E> s(arch, seed);
  s.check_getters("construction");
  for (size_t i = 0; i < steps && !s.dead; i++) {
    s.event();
    if (s.dead) break;
    s.probe();
    if (s.r.below(3) == 0) s.valid_call();
    if (s.r.below(4) == 0) s.probe();
  }
  if (!s.dead) {
    if (s.attached < 0) { s.event(); }       // (one more chance to end attached)
    if (!s.dead) s.finalize_probe();
  }
}

template<typename A, typename B, typename C>
static void run_all(Arch arch, uint64_t seed, size_t scenarios, size_t steps) {
  for (size_t i = 0; i < scenarios; i++) {
    uint64_t s = seed * 7000003ull + i;
    switch (i % 3) {
      case 0: run_scenario<A>(arch, s, steps); break;
      case 1: run_scenario<B>(arch, s, steps); break;
      default: run_scenario<C>(arch, s, steps); break;
    }
  }
  g_by_api["route.scenarios"] = g_scen;
  g_by_api["route.events"] = g_events;
  g_by_api["route.probes"] = g_probes;
}

} // namespace route

int main(int argc, char** argv) {
  Args args(argc, argv);
  std::string arch = args.str("arch", "x64");
  uint64_t seed = args.u64("seed", 1);
  size_t nops = args.u64("ops", 3000);
  size_t lscen = args.u64("label-scenarios", 0);
  size_t lsteps = args.u64("label-steps", 80);
  if (nops) {
    bool do_throw = args.u64("script-throw", seed & 1) != 0, own = args.u64("script-own", (seed >> 1) & 1) != 0;
    if (arch == "a64") run<a64::Assembler>(Arch::kAArch64, seed, nops, do_throw, own);
    else run<x86::Assembler>(arch == "x64" ? Arch::kX64 : Arch::kX86, seed, nops, do_throw, own);
  }
  if (lscen) {
    if (arch == "a64") lbl::run_all<a64::Assembler, a64::Builder, a64::Compiler>(Arch::kAArch64, seed, lscen, lsteps);
    else lbl::run_all<x86::Assembler, x86::Builder, x86::Compiler>(arch == "x64" ? Arch::kX64 : Arch::kX86, seed, lscen, lsteps);
  }
  size_t rscen = args.u64("route-scenarios", 0);
  if (rscen) {
    size_t rsteps = args.u64("route-steps", 60);
    route::g_danger = args.u64("route-danger", 0) != 0;
    if (arch == "a64") route::run_all<a64::Assembler, a64::Builder, a64::Compiler>(Arch::kAArch64, seed, rscen, rsteps);
    else route::run_all<x86::Assembler, x86::Builder, x86::Compiler>(arch == "x64" ? Arch::kX64 : Arch::kX86, seed, rscen, rsteps);
  }
  printf("{\"ops\":%llu,\"violations\":[", (unsigned long long)(g_by_api["ops_total"] + lbl::g_calls));
  for (size_t i = 0; i < g_viol.size(); i++) printf("%s{\"key\":%s,\"what\":%s}", i ? "," : "", jstr(g_viol[i].key).c_str(), jstr(g_viol[i].what).c_str());
  printf("],\"by_api\":{");
  bool f = true;
  for (auto& kv : g_by_api) { if (kv.first == "ops_total") continue; printf("%s%s:%llu", f ? "" : ",", jstr(kv.first).c_str(), (unsigned long long)kv.second); f = false; }
  printf("},\"distinct\":[");
  f = true;
  for (auto& d : g_distinct) { printf("%s%s", f ? "" : ",", jstr(d).c_str()); f = false; }
  printf("]}\n");
  return 0;
}
