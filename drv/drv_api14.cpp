// C14 (second driver): valid and invalid label / section / alignment / data API calls interleaved with valid
// instructions on an Assembler, Builder or Compiler; a failing call must change nothing and call the handler once.
#include <asmjit/core.h>
#include <asmjit/x86.h>
#include <asmjit/a64.h>
#include "vcommon.h"

using namespace asmjit;

struct Handler : public ErrorHandler {
  int calls = 0;
  void handle_error(Error, const char*, BaseEmitter*) override { calls++; }
};

struct Snap {
  size_t off, labels, fix, rel, sec; uint64_t hash; size_t named_hits;
};

struct Viol { std::string key, what; };
static std::vector<Viol> g_viol;
static std::map<std::string, uint64_t> g_by_api;
static std::set<std::string> g_distinct;

static void fail(const std::string& key, const std::string& what) {
  for (auto& v : g_viol) if (v.key == key) return;
  g_viol.push_back({key, what});
}

template<typename ASM>
struct Script {
  Environment env;
  CodeHolder code;
  ASM a;
  Handler eh;
  Rng r;
  std::vector<Label> labels;      // valid labels
  std::vector<bool> bound;
  std::vector<Section*> sections;
  std::vector<std::string> names;
  uint64_t ops = 0;
  bool is_a64;

  Script(Arch arch, uint64_t seed) : env(arch), r(seed), is_a64(arch == Arch::kAArch64) {
    code.init(env);
    code.set_error_handler(&eh);
    code.attach(&a);
    sections.push_back(code.text_section());
  }

  Snap snap() {
    Snap s;
    s.off = a.offset(); s.labels = code.label_count(); s.fix = code.unresolved_fixup_count();
    s.rel = code.reloc_entries().size(); s.sec = code.section_count();
    s.hash = fnv1a(a.buffer_data(), a.offset());
    s.named_hits = 0;
    for (auto& n : names) if (code.label_by_name(n.c_str(), n.size()).is_valid()) s.named_hits++;
    return s;
  }

  void judge(const char* api, const std::string& arg, Error err, const Snap& before, bool expect_fail) {
    ops++;
    g_by_api[api]++;
    g_distinct.insert(std::string(api) + (err == Error::kOk ? ":ok" : ":err" + std::to_string(unsigned(err))));
    if (err != Error::kOk) {
      Snap after = snap();
      std::string what = std::string(api) + "(" + arg + ") failed with " + std::to_string(unsigned(err));
      if (after.off != before.off || after.hash != before.hash) fail(std::string(api) + ":failed-call-changed-code", what + " but changed the code buffer");
      if (after.labels != before.labels) fail(std::string(api) + ":failed-call-created-label", what + " but the label count changed");
      if (after.fix != before.fix) fail(std::string(api) + ":failed-call-created-fixup", what + " but the unresolved fixup count changed");
      if (after.rel != before.rel) fail(std::string(api) + ":failed-call-created-reloc", what + " but the relocation count changed");
      if (after.sec != before.sec) fail(std::string(api) + ":failed-call-created-section", what + " but the section count changed");
      if (after.named_hits != before.named_hits) fail(std::string(api) + ":failed-call-changed-names", what + " but named label lookups changed");
      if (eh.calls != 1) fail(std::string(api) + ":handler-calls", what + " and called the error handler " + std::to_string(eh.calls) + " times");
    }
    else {
      if (eh.calls != 0) fail(std::string(api) + ":handler-on-success", std::string(api) + "(" + arg + ") succeeded but called the error handler");
      if (expect_fail) fail(std::string(api) + ":invalid-argument-accepted", std::string(api) + "(" + arg + ") must be refused but returned kOk");
    }
    eh.calls = 0;
  }

  Label some_label(bool& valid_out) {
    uint64_t k = r.below(10);
    if (k < 6 && !labels.empty()) { valid_out = true; return labels[r.below(labels.size())]; }
    valid_out = false;
    switch (r.below(4)) {
      case 0: return Label();
      case 1: return Label(uint32_t(code.label_count() + r.below(5)));
      case 2: return Label(0x7FFFFFFFu);
      default: return Label(uint32_t(r.next()));
    }
  }

  void emit_valid_inst();
  void probe(std::string& out);

  void step() {
    eh.calls = 0;
    uint64_t k = r.below(100);
    Snap s = snap();
    char buf[128];
    if (k < 12) {
      Label l = a.new_label();
      g_by_api["new_label"]++; ops++;
      if (l.is_valid()) { labels.push_back(l); bound.push_back(false); }
    }
    else if (k < 30) {
      bool valid; Label l = some_label(valid);
      bool already = false;
      if (valid) for (size_t i = 0; i < labels.size(); i++) if (labels[i].id() == l.id()) already = bound[i];
      Error e = a.bind(l);
      snprintf(buf, sizeof buf, "label id %u valid=%d bound=%d", l.id(), int(valid), int(already));
      judge("bind", buf, e, s, !valid || already);
      if (e == Error::kOk) for (size_t i = 0; i < labels.size(); i++) if (labels[i].id() == l.id()) bound[i] = true;
    }
    else if (k < 42) {
      static const uint32_t aligns[] = { 0, 1, 2, 4, 8, 16, 32, 64, 3, 5, 24, 100, 128, 256, 65536, 0x80000000u, 0xFFFFFFFFu };
      uint32_t al = aligns[r.below(sizeof aligns / sizeof aligns[0])];
      uint32_t mode = uint32_t(r.below(5));
      Error e = a.align(AlignMode(mode), al);
      bool bad = mode > 2 || (al > 1 && ((al & (al - 1)) != 0 || al > Globals::kMaxAlignment));
      snprintf(buf, sizeof buf, "mode %u, alignment %u", mode, al);
      judge("align", buf, e, s, bad);
    }
    else if (k < 50) {
      uint8_t data[64]; for (auto& x : data) x = uint8_t(r.next());
      size_t n = r.below(3) == 0 ? 0 : r.below(64);
      Error e = a.embed(data, n);
      snprintf(buf, sizeof buf, "%zu bytes", n);
      judge("embed", buf, e, s, false);
    }
    else if (k < 58) {
      uint64_t data[8]; for (auto& x : data) x = r.next();
      static const TypeId types[] = { TypeId::kInt8, TypeId::kUInt16, TypeId::kInt32, TypeId::kUInt64, TypeId::kFloat32, TypeId::kFloat64, TypeId::kVoid, TypeId::kIntPtr, TypeId(200), TypeId(255), TypeId::kInt32x4 };
      TypeId t = types[r.below(sizeof types / sizeof types[0])];
      size_t count = r.below(4) == 0 ? 0 : 1 + r.below(4);
      static const size_t reps[] = { 0, 1, 2, 3, SIZE_MAX, SIZE_MAX / 2, size_t(1) << 40 };
      size_t rep = reps[r.below(4) == 0 ? r.below(7) : 1 + r.below(3)];
      Error e = a.embed_data_array(t, data, count, rep);
      snprintf(buf, sizeof buf, "type %u count %zu repeat %zu", unsigned(t), count, rep);
      bool bad = rep > 1000 && count > 0;
      judge("embed_data_array", buf, e, s, bad);
    }
    else if (k < 66) {
      bool valid; Label l = some_label(valid);
      static const size_t sizes[] = { 0, 1, 2, 4, 8, 3, 5, 16, 100 };
      size_t sz = sizes[r.below(9)];
      Error e = a.embed_label(l, sz);
      snprintf(buf, sizeof buf, "label id %u valid=%d size %zu", l.id(), int(valid), sz);
      judge("embed_label", buf, e, s, !valid || sz == 3 || sz == 5 || sz > 8);
    }
    else if (k < 74) {
      bool v1, v2; Label l1 = some_label(v1), l2 = some_label(v2);
      static const size_t sizes[] = { 0, 1, 2, 4, 8, 3, 7, 16 };
      size_t sz = sizes[r.below(8)];
      Error e = a.embed_label_delta(l1, l2, sz);
      snprintf(buf, sizeof buf, "labels %u,%u valid=%d,%d size %zu", l1.id(), l2.id(), int(v1), int(v2), sz);
      judge("embed_label_delta", buf, e, s, !v1 || !v2 || sz == 3 || sz == 7 || sz > 8);
    }
    else if (k < 84) {
      std::string name;
      uint64_t nk = r.below(6);
      if (nk == 0) name = "";
      else if (nk == 1 && !names.empty()) name = names[r.below(names.size())];
      else if (nk == 2) name = std::string(Globals::kMaxLabelNameSize + 1 + r.below(10), 'x');
      else name = "lbl_" + std::to_string(r.below(1000000));
      uint32_t type = uint32_t(r.below(5));
      uint32_t parent = Globals::kInvalidId;
      if (r.below(3) == 0) parent = labels.empty() || r.below(2) ? uint32_t(code.label_count() + 7) : labels[r.below(labels.size())].id();
      else if (r.below(3) == 0) {
        // boundary ids: the id the new label itself is about to get, its neighbours, and the ends of the id space
        static const int64_t deltas[] = { 0, 1, -1, 2 };
        uint64_t pick = r.below(6);
        parent = pick < 4 ? uint32_t(int64_t(code.label_count()) + deltas[pick]) : pick == 4 ? 0u : 0xFFFFFFFEu;
      }
      size_t before_count = code.label_count();
      bool parent_exists = parent != Globals::kInvalidId && size_t(parent) < before_count;
      // documented rules: a local label needs an existing parent; every other named label must not have one
      bool must_refuse = !name.empty() && name.size() <= Globals::kMaxLabelNameSize &&
                         ((type == uint32_t(LabelType::kLocal) && !parent_exists) ||
                          (type != uint32_t(LabelType::kLocal) && type <= uint32_t(LabelType::kExternal) && parent != Globals::kInvalidId));
      Label l = a.new_named_label(name.c_str(), name.size(), LabelType(type), parent);
      ops++; g_by_api["new_named_label"]++;
      g_distinct.insert(std::string("new_named_label:") + (l.is_valid() ? "ok" : "refused"));
      if (!l.is_valid()) {
        Snap after = snap();
        if (after.labels != before_count) fail("new_named_label:failed-call-created-label", "new_named_label('" + name.substr(0, 20) + "', type " + std::to_string(type) + ") returned an invalid label but the label count changed");
        if (after.named_hits != s.named_hits) fail("new_named_label:failed-call-changed-names", "refused new_named_label changed name lookups");
        if (eh.calls != 1) fail("new_named_label:handler-calls", "refused new_named_label('" + name.substr(0, 20) + "') called the handler " + std::to_string(eh.calls) + " times");
      }
      else {
        if (must_refuse) fail("new_named_label:invalid-parent-accepted", "new_named_label('" + name.substr(0, 20) + "', type " + std::to_string(type) + ", parent " + std::to_string(parent) + ") with " + std::to_string(before_count) + " labels defined returned label " + std::to_string(l.id()) + " - must be refused");
        if (eh.calls) fail("new_named_label:handler-on-success", "successful new_named_label called the handler");
        labels.push_back(l); bound.push_back(false);
        if (!name.empty() && type != uint32_t(LabelType::kAnonymous) && type != uint32_t(LabelType::kLocal)) names.push_back(name);
      }
      eh.calls = 0;
    }
    else if (k < 90) {
      std::string name = r.below(4) == 0 ? std::string(Globals::kMaxSectionNameSize + 1 + r.below(4), 's') : ".s" + std::to_string(r.below(100000));
      static const uint32_t aligns[] = { 0, 1, 2, 16, 64, 4096, 65536, 3, 24, 100 };
      uint32_t al = aligns[r.below(10)];
      Section* sec = nullptr;
      Error e = code.new_section(Out(sec), name.c_str(), name.size(), SectionFlags::kNone, al, int32_t(r.next()));
      ops++; g_by_api["new_section"]++;
      g_distinct.insert(std::string("new_section:") + (e == Error::kOk ? "ok" : "err"));
      bool bad = name.size() > Globals::kMaxSectionNameSize || (al > 1 && (al & (al - 1)));
      if (e != Error::kOk) {
        Snap after = snap();
        if (after.sec != s.sec) fail("new_section:failed-call-created-section", "new_section failed but the section count changed");
      }
      else {
        if (bad) fail("new_section:invalid-argument-accepted", "new_section(name of " + std::to_string(name.size()) + " chars, alignment " + std::to_string(al) + ") must be refused");
        sections.push_back(sec);
      }
      eh.calls = 0;
    }
    else if (k < 94) {
      Section* sec = sections[r.below(sections.size())];
      Error e = a.section(sec);
      judge("section", "existing section", e, s, false);
    }
    else {
      emit_valid_inst();
    }
  }
};

template<> void Script<x86::Assembler>::emit_valid_inst() {
  eh.calls = 0;
  Error e = r.below(2) ? a.add(x86::eax, x86::ecx) : a.mov(x86::edx, 7);
  ops++; g_by_api["inst"]++;
  if (e != Error::kOk || eh.calls) fail("inst:valid-instruction-refused", "a valid instruction failed after earlier failing calls");
}
template<> void Script<a64::Assembler>::emit_valid_inst() {
  eh.calls = 0;
  Error e = r.below(2) ? a.add(a64::x0, a64::x1, a64::x2) : a.mov(a64::w3, 7);
  ops++; g_by_api["inst"]++;
  if (e != Error::kOk || eh.calls) fail("inst:valid-instruction-refused", "a valid instruction failed after earlier failing calls");
}
template<> void Script<x86::Assembler>::probe(std::string& out) {
  size_t p0 = a.offset();
  a.mov(x86::eax, 1); a.add(x86::eax, x86::ecx);
  Label l = a.new_label(); a.bind(l); a.dec(x86::ecx); a.jnz(l); a.ret();
  out = hexstr(a.buffer_data() + p0, a.offset() - p0);
}
template<> void Script<a64::Assembler>::probe(std::string& out) {
  size_t p0 = a.offset();
  a.mov(a64::w0, 1); a.add(a64::w0, a64::w0, a64::w1);
  Label l = a.new_label(); a.bind(l); a.subs(a64::w1, a64::w1, 1); a.b_ne(l); a.ret(a64::x30);
  out = hexstr(a.buffer_data() + p0, a.offset() - p0);
}

template<typename ASM>
static void run(Arch arch, uint64_t seed, size_t nops) {
  std::string used, fresh;
  {
    Script<ASM> s(arch, seed);
    for (size_t i = 0; i < nops; i++) s.step();
    // leave the last section aligned state out of the comparison: switch to a new empty section first
    Section* sec = nullptr;
    if (s.code.new_section(Out(sec), ".probe", SIZE_MAX, SectionFlags::kNone, 1, 0) == Error::kOk) s.a.section(sec);
    s.probe(used);
    g_by_api["ops_total"] = s.ops;
  }
  {
    Script<ASM> s(arch, seed);
    s.probe(fresh);
  }
  if (used != fresh) fail("residue:final-probe-differs", "after the script the probe program assembles to " + used + ", a fresh emitter gives " + fresh);
}

int main(int argc, char** argv) {
  Args args(argc, argv);
  std::string arch = args.str("arch", "x64");
  uint64_t seed = args.u64("seed", 1);
  size_t nops = args.u64("ops", 3000);
  if (arch == "a64") run<a64::Assembler>(Arch::kAArch64, seed, nops);
  else run<x86::Assembler>(arch == "x64" ? Arch::kX64 : Arch::kX86, seed, nops);
  printf("{\"ops\":%llu,\"violations\":[", (unsigned long long)g_by_api["ops_total"]);
  for (size_t i = 0; i < g_viol.size(); i++) printf("%s{\"key\":%s,\"what\":%s}", i ? "," : "", jstr(g_viol[i].key).c_str(), jstr(g_viol[i].what).c_str());
  printf("],\"by_api\":{");
  bool f = true;
  for (auto& kv : g_by_api) { if (kv.first == "ops_total") continue; printf("%s%s:%llu", f ? "" : ",", jstr(kv.first).c_str(), (unsigned long long)kv.second); f = false; }
  printf("},\"distinct\":[");
  f = true;
  for (auto& d : g_distinct) { printf("%s%s", f ? "" : ",", jstr(d).c_str()); f = false; }
  printf("]}\n");
  return 0;
}
